"""L6a: wire-layout atoms of serializers / parsers / size functions.

An atom is what one expression contributes to the wire:
  INT(width, endian, signed)   x.to_bytes(N, E, signed=S) / int.from_bytes(<N bytes>, E, signed=S)
  VARINT  VARBYTES             var_int.* / var_bytes.*
  NESTED(name)                 f.serialize(...) / C.parse(stream, ...)
Only the flat source-order sequence is extracted; structure (loops, options)
is not, and two layouts are compared only on what both sides state.
"""

from __future__ import annotations

import ast
from dataclasses import dataclass
from typing import Any

from .consts import UNKNOWN
from .ctx import Ctx
from .loader import FuncInfo, call_name, tnorm as norm, own_nodes, parent


@dataclass(frozen=True)
class Atom:
    kind: str  # INT VARINT VARBYTES NESTED
    width: Any = None
    endian: Any = None
    signed: Any = None
    subject: str = ""
    line: int = 0

    def key(self) -> tuple:
        return (self.kind, self.width, self.endian, self.signed)

    def show(self) -> str:
        if self.kind == "INT":
            return f"INT({self.width},{self.endian},{'s' if self.signed else 'u'})"
        return self.kind if self.kind != "NESTED" else f"NESTED({self.subject})"


def _kw(call: ast.Call, name: str, pos: int | None):
    for k in call.keywords:
        if k.arg == name:
            return k.value
    if pos is not None and len(call.args) > pos:
        return call.args[pos]
    return None


def _sorted_calls(fi: FuncInfo) -> list[ast.Call]:
    cs = [n for n in own_nodes(fi.node) if isinstance(n, ast.Call)]
    return sorted(cs, key=lambda c: (c.lineno, c.col_offset))


def _local_env(ctx: Ctx, fi: FuncInfo) -> dict[str, Any]:
    """Locals bound exactly once to a foldable constant."""
    counts: dict[str, list[ast.AST]] = {}
    for n in own_nodes(fi.node):
        if isinstance(n, ast.Assign) and len(n.targets) == 1 and isinstance(n.targets[0], ast.Name):
            counts.setdefault(n.targets[0].id, []).append(n.value)
        elif isinstance(n, (ast.AugAssign, ast.AnnAssign, ast.For, ast.NamedExpr)):
            t = n.target
            for s in ast.walk(t):
                if isinstance(s, ast.Name):
                    counts.setdefault(s.id, []).append(None)  # type: ignore[arg-type]
    env = {}
    for k, vs in counts.items():
        if len(vs) == 1 and vs[0] is not None:
            v = ctx.fold(vs[0], fi.module)
            if v is not UNKNOWN:
                env[k] = v
    return env


def write_atoms(ctx: Ctx, fi: FuncInfo) -> list[Atom]:
    env = _local_env(ctx, fi)
    out = []
    for c in _sorted_calls(fi):
        nm = call_name(c)
        tgt = ctx.resolve_call(fi, c)
        if nm == "to_bytes" and isinstance(c.func, ast.Attribute):
            w = _kw(c, "length", 0)
            e = _kw(c, "byteorder", 1)
            s = _kw(c, "signed", None)
            out.append(Atom("INT",
                            ctx.fold(w, fi.module, env) if w is not None else 1,
                            ctx.fold(e, fi.module, env) if e is not None else "big",
                            ctx.fold(s, fi.module, env) if s is not None else False,
                            norm(c.func.value), c.lineno))
        elif tgt == "btclib.var_int.serialize":
            out.append(Atom("VARINT", subject=norm(c.args[0]) if c.args else "", line=c.lineno))
        elif tgt == "btclib.var_bytes.serialize":
            out.append(Atom("VARBYTES", subject=norm(c.args[0]) if c.args else "", line=c.lineno))
        elif nm == "serialize" and isinstance(c.func, ast.Attribute) and tgt not in ("btclib.var_int.serialize", "btclib.var_bytes.serialize"):
            out.append(Atom("NESTED", subject=norm(c.func.value), line=c.lineno))
    return out


def _width_of_bytes_expr(ctx: Ctx, fi: FuncInfo, e: ast.AST, env: dict[str, Any]) -> Any:
    """Number of bytes an expression yields, when it says so."""
    if isinstance(e, ast.Call):
        nm = call_name(e)
        if nm == "read_exactly" and len(e.args) >= 2:
            return ctx.fold(e.args[1], fi.module, env)
        if nm == "read" and len(e.args) == 1:
            return ctx.fold(e.args[0], fi.module, env)
    if isinstance(e, ast.Subscript):
        if isinstance(e.slice, ast.Slice) and e.slice.step is None:
            lo = ctx.fold(e.slice.lower, fi.module, env) if e.slice.lower is not None else 0
            hi = ctx.fold(e.slice.upper, fi.module, env) if e.slice.upper is not None else UNKNOWN
            if isinstance(lo, int) and isinstance(hi, int) and lo >= 0 and hi >= 0:
                return hi - lo
            return UNKNOWN
        if isinstance(e.slice, ast.Slice):  # [::-1]
            return _width_of_bytes_expr(ctx, fi, e.value, env)
    if isinstance(e, ast.Name):
        # single assignment from a sized read
        defs = [n for n in own_nodes(fi.node) if isinstance(n, ast.Assign) and len(n.targets) == 1
                and isinstance(n.targets[0], ast.Name) and n.targets[0].id == e.id]
        if len(defs) == 1:
            return _width_of_bytes_expr(ctx, fi, defs[0].value, env)
    return UNKNOWN


def read_atoms(ctx: Ctx, fi: FuncInfo) -> list[Atom]:
    env = _local_env(ctx, fi)
    out = []
    for c in _sorted_calls(fi):
        nm = call_name(c)
        tgt = ctx.resolve_call(fi, c)
        if nm == "from_bytes" and norm(c.func) == "int.from_bytes" and c.args:
            e = _kw(c, "byteorder", 1)
            s = _kw(c, "signed", None)
            par = parent(c)
            subj = ""
            if isinstance(par, ast.Assign) and len(par.targets) == 1:
                subj = norm(par.targets[0])
            out.append(Atom("INT", _width_of_bytes_expr(ctx, fi, c.args[0], env),
                            ctx.fold(e, fi.module, env) if e is not None else "big",
                            ctx.fold(s, fi.module, env) if s is not None else False,
                            subj, c.lineno))
        elif norm(c.func) in ("struct.unpack", "struct.unpack_from", "unpack", "unpack_from") and c.args:
            out += _struct_atoms(ctx, fi, c.args[0], env, c.lineno)
        elif tgt == "btclib.var_int.parse":
            out.append(Atom("VARINT", line=c.lineno))
        elif tgt == "btclib.var_bytes.parse":
            out.append(Atom("VARBYTES", line=c.lineno))
        elif nm == "parse" and isinstance(c.func, ast.Attribute) and tgt not in ("btclib.var_int.parse", "btclib.var_bytes.parse"):
            out.append(Atom("NESTED", subject=norm(c.func.value), line=c.lineno))
    return out


_STRUCT_INTS = {"b": (1, True), "B": (1, False), "h": (2, True), "H": (2, False), "i": (4, True), "I": (4, False), "l": (4, True), "L": (4, False),
                 "q": (8, True), "Q": (8, False)}


def _struct_atoms(ctx: Ctx, fi: FuncInfo, fmt_expr: ast.AST, env, line: int) -> list[Atom]:
    """Integer atoms of a struct format string (`>4sb4sI32s33s`): width, byte order, signedness."""
    fmt = ctx.fold(fmt_expr, fi.module, env)
    if not isinstance(fmt, str):
        return [Atom("INT", UNKNOWN, UNKNOWN, UNKNOWN, "struct", line)]
    endian = "little" if fmt[:1] in "<" else "big" if fmt[:1] in ">!" else "native"
    out = []
    count = ""
    for ch in fmt.lstrip("<>!=@"):
        if ch.isdigit():
            count += ch
            continue
        k = int(count) if count else 1
        count = ""
        if ch in _STRUCT_INTS:
            w, sg = _STRUCT_INTS[ch]
            out += [Atom("INT", w, endian, sg, f"struct:{ch}", line) for _ in range(k)]
    return out


def ints(atoms: list[Atom]) -> list[Atom]:
    return [a for a in atoms if a.kind == "INT"]
