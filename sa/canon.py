"""Name-independent views of a function body.

Rules must not depend on what a *local* is called: `expand` rewrites an
expression with every single-assignment local replaced by its defining
expression (bounded depth), so a rule matches on parameters, attributes and
callees -- the API-level names -- and is indifferent to a renamed temporary.
`flag_locals` finds boolean flag locals by what sets them.
"""

from __future__ import annotations

import ast

from .loader import FuncInfo, tnorm as norm, own_nodes, parent


def local_defs(fi: FuncInfo) -> dict[str, ast.expr]:
    """Locals bound exactly once in the function, by a plain assignment."""
    params = set(fi.params())
    count: dict[str, int] = {}
    defs: dict[str, ast.expr] = {}
    for n in own_nodes(fi.node):
        tgts = []
        if isinstance(n, ast.Assign):
            tgts = n.targets
        elif isinstance(n, (ast.AnnAssign, ast.AugAssign)):
            tgts = [n.target]
        elif isinstance(n, (ast.For, ast.AsyncFor, ast.comprehension)):
            tgts = [n.target]
        elif isinstance(n, ast.NamedExpr):
            tgts = [n.target]
        elif isinstance(n, (ast.With, ast.AsyncWith)):
            tgts = [i.optional_vars for i in n.items if i.optional_vars is not None]
        elif isinstance(n, ast.ExceptHandler) and n.name:
            count[n.name] = count.get(n.name, 0) + 2
        for t in tgts:
            for x in ast.walk(t):
                if isinstance(x, ast.Name):
                    simple = isinstance(n, (ast.Assign, ast.AnnAssign)) and x is t and getattr(n, "value", None) is not None
                    count[x.id] = count.get(x.id, 0) + (1 if simple else 2)
                    if simple:
                        defs[x.id] = n.value
    # a literal start value ([] then appended to, 0 then compared) says nothing about the name: keep it
    lit = (ast.List, ast.Dict, ast.Set, ast.Tuple, ast.Constant)
    return {k: v for k, v in defs.items() if count.get(k) == 1 and k not in params and not isinstance(v, lit)}


def expand(fi: FuncInfo, node: ast.AST | str, depth: int = 3) -> str:
    """Text of ``node`` with single-assignment locals replaced by their definitions."""
    defs = local_defs(fi)
    text = node if isinstance(node, str) else norm(node)
    for _ in range(depth):
        try:
            tree = ast.parse(text, mode="eval")
        except SyntaxError:
            return text
        changed = False

        class Sub(ast.NodeTransformer):
            def visit_Name(self, n: ast.Name):
                nonlocal changed
                if isinstance(n.ctx, ast.Load) and n.id in defs:
                    changed = True
                    return ast.parse(norm(defs[n.id]), mode="eval").body
                return n

        tree = Sub().visit(tree)
        if not changed:
            break
        text = ast.unparse(tree)
    return text


def flag_locals(fi: FuncInfo, under: str) -> set[str]:
    """Locals set to the constant True inside an `if` whose test mentions ``under``."""
    out = set()
    for n in own_nodes(fi.node):
        if isinstance(n, ast.Assign) and isinstance(n.value, ast.Constant) and n.value.value is True and isinstance(n.targets[0], ast.Name):
            p = parent(n)
            while p is not None and p is not fi.node:
                if isinstance(p, ast.If) and under in norm(p.test):
                    out.add(n.targets[0].id)
                    break
                p = parent(p)
    return out
