"""In-memory positive controls: an ast-located edit of the *real* source of one
module, never written to disk, never executed; the named rule must fire on it.
"""

from __future__ import annotations

import ast
import traceback
from typing import Callable

from .ctx import Ctx
from .loader import AnalysisError, FuncInfo, ModuleInfo, call_name, tnorm as norm, own_nodes
from .report import Report


def _offsets(src: str) -> list[int]:
    offs = [0]
    for line in src.splitlines(keepends=True):
        offs.append(offs[-1] + len(line.encode("utf-8")))
    return offs


def replace_node(src: str, node: ast.AST, text: str) -> str:
    b = src.encode("utf-8")
    offs = _offsets(src)
    start = offs[node.lineno - 1] + node.col_offset  # type: ignore[attr-defined]
    end = offs[node.end_lineno - 1] + node.end_col_offset  # type: ignore[attr-defined]
    return (b[:start] + text.encode("utf-8") + b[end:]).decode("utf-8")


def replace_nodes(src: str, edits: list[tuple[ast.AST, str]]) -> str:
    for node, text in sorted(edits, key=lambda e: (e[0].lineno, e[0].col_offset), reverse=True):  # type: ignore[attr-defined]
        src = replace_node(src, node, text)
    return src


def drop_stmt(mi: ModuleInfo, stmt: ast.stmt) -> str:
    return replace_node(mi.source, stmt, "pass")


def stmts_calling(fi: FuncInfo, name: str) -> list[ast.stmt]:
    """Expression statements of fi that are a call whose last identifier is name."""
    out = []
    for n in own_nodes(fi.node):
        if isinstance(n, ast.Expr) and isinstance(n.value, ast.Call) and call_name(n.value) == name:
            out.append(n)
    return sorted(out, key=lambda s: s.lineno)


def drop_call_stmt(ctx: Ctx, qualname: str, callee: str, index: int = 0) -> str | None:
    fi = ctx.prog.functions.get(qualname)
    if fi is None:
        return None
    st = stmts_calling(fi, callee)
    if len(st) <= index:
        return None
    return drop_stmt(fi.module, st[index])


def drop_if(ctx: Ctx, qualname: str, pred: Callable[[ast.If], bool], index: int = 0) -> str | None:
    """Replace an `if` statement (a refusal) by pass."""
    fi = ctx.prog.functions.get(qualname)
    if fi is None:
        return None
    ifs = sorted([n for n in own_nodes(fi.node) if isinstance(n, ast.If) and pred(n)], key=lambda s: s.lineno)
    if len(ifs) <= index:
        return None
    return drop_stmt(fi.module, ifs[index])


def sub_expr(ctx: Ctx, qualname: str, pred: Callable[[ast.AST], bool], new_text: str | Callable[[ast.AST], str], index: int = 0) -> str | None:
    """Replace the index-th sub-expression/statement of a function (in source
    order) satisfying pred by new_text."""
    fi = ctx.prog.functions.get(qualname)
    if fi is None:
        return None
    hits = sorted([n for n in own_nodes(fi.node) if hasattr(n, "lineno") and pred(n)], key=lambda s: (s.lineno, s.col_offset))
    if len(hits) <= index:
        return None
    n = hits[index]
    return replace_node(fi.module.source, n, new_text(n) if callable(new_text) else new_text)


def sub_module_expr(ctx: Ctx, modname: str, pred: Callable[[ast.AST], bool], new_text: str | Callable[[ast.AST], str], index: int = 0) -> str | None:
    mi = ctx.prog.modules.get(modname)
    if mi is None:
        return None
    hits = sorted([n for n in ast.walk(mi.tree) if hasattr(n, "lineno") and pred(n)], key=lambda s: (s.lineno, s.col_offset))
    if len(hits) <= index:
        return None
    n = hits[index]
    return replace_node(mi.source, n, new_text(n) if callable(new_text) else new_text)


def is_text(text: str) -> Callable[[ast.AST], bool]:
    try:
        body = ast.parse(text).body[0]
        t = norm(body.value if isinstance(body, ast.Expr) else body)
    except SyntaxError:
        t = norm(text)
    return lambda n: isinstance(n, (ast.expr, ast.stmt)) and norm(n) == t


def run_controls(ctx: Ctx, rep: Report, mod) -> None:
    rules = dict(mod.RULES)
    base = {(o.rule, o.instance) for o in rep.obs if not o.held}
    firing = {o.rule.rsplit(":", 1)[0] for o in rep.obs if not o.held}
    for c in mod.CONTROLS:
        rule, name, modname, edit = c["rule"], c["name"], c["module"], c["edit"]
        if rep.tier == "quick" and getattr(rules.get(rule), "thorough_only", False):
            continue
        if rule in firing:
            # the rule is reporting on this tree already: it is demonstrably alive, and a
            # control edit of a construct that is itself in violation proves nothing more
            rep.control(rule, name, True, "rule already reporting on this tree")
            continue
        try:
            new_src = edit(ctx)
        except AnalysisError:
            new_src = None
        except Exception as e:  # noqa: BLE001
            rep.control(rule, name, False, f"edit raised {type(e).__name__}: {e}")
            continue
        if new_src is None:
            # the construct the control edits is not there on this tree (the
            # tree was changed); the rule itself will report if that matters
            rep.control(rule, name, False, "skipped")
            continue
        try:
            ctx2 = ctx.fork(modname, new_src)
            r2 = Report(rep.prop, rep.tier)
            r2.quiet = True
            try:
                rules[rule](ctx2, r2)
            except AnalysisError as e:
                # the rule failing closed on the variant also counts as firing
                r2.ob(rule, "analysis-error", False, modname, str(e))
            new = [o for o in r2.obs if not o.held and (o.rule, o.instance) not in base]
            exp = c.get("expect")
            if exp:
                new = [o for o in new if exp in o.instance or exp in o.detail]
            rep.control(rule, name, bool(new), "" if new else "no new violation on the variant")
        except Exception as e:  # noqa: BLE001
            tb = traceback.format_exc().strip().splitlines()
            rep.control(rule, name, False, f"raised {type(e).__name__}: {e} @ {tb[-3].strip() if len(tb) > 2 else ''}")
