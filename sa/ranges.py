"""L6b: refusal constraints of a function -- the comparisons that, when true,
lead only to a raise (or to `return False`).

A constraint is (subject, op, value, node): "refuses when subject <op> value".
Subjects are normalised expression texts; values are folded constants where
possible (else normalised text). Chained comparisons and `not` are pushed to
atomic constraints; `and`/`or` are split only where that is sound for a
refusal (`if a or b: raise` refuses on a, and on b).
"""

from __future__ import annotations

import ast
from dataclasses import dataclass
from typing import Any, Iterable

from .consts import UNKNOWN
from .ctx import Ctx
from .loader import FuncInfo, norm

NEG = {"<": ">=", "<=": ">", ">": "<=", ">=": "<", "==": "!=", "!=": "==", "in": "not in", "not in": "in",
       "is": "is not", "is not": "is", "truthy": "falsy", "falsy": "truthy"}
FLIP = {"<": ">", "<=": ">=", ">": "<", ">=": "<=", "==": "==", "!=": "!="}
OPS = {ast.Lt: "<", ast.LtE: "<=", ast.Gt: ">", ast.GtE: ">=", ast.Eq: "==", ast.NotEq: "!=", ast.In: "in",
       ast.NotIn: "not in", ast.Is: "is", ast.IsNot: "is not"}


@dataclass
class Constraint:
    subject: str
    op: str
    value: Any
    node: ast.AST
    value_text: str = ""
    facts: frozenset = frozenset()  # (text, polarity) facts holding where the refusing test is evaluated
    from_fact: bool = False  # a conjunct that reached the refusal as a dominating branch fact, not in the test itself
    mirror: bool = False  # the same comparison read from its right operand
    test_id: int = -1  # CFG node of the refusing test (for must-pass-through queries)

    def show(self) -> str:
        v = self.value if self.value is not UNKNOWN else self.value_text
        if isinstance(v, int) and not isinstance(v, bool) and abs(v) > 9999:
            v = hex(v)
        return f"{self.subject} {self.op} {v}"


def _val(ctx: Ctx, fi: FuncInfo, e: ast.AST, env=None):
    v = ctx.fold(e, fi.module, env)
    if isinstance(v, (set, frozenset)):
        try:
            v = frozenset(v)
        except TypeError:
            v = UNKNOWN
    elif isinstance(v, range) and (v.stop - v.start) > 10000:
        return v
    elif isinstance(v, (list, tuple, range)):
        try:
            v = frozenset(v)
        except TypeError:
            v = UNKNOWN
    elif isinstance(v, dict):
        v = frozenset(v)
    return v


def atoms(ctx: Ctx, fi: FuncInfo, test: ast.AST, pol: bool, env=None) -> list[Constraint]:
    """_atoms plus the other spellings of each zero / emptiness test, so that a
    rule written against `not x` also reads `x == 0`, `len(x) == 0`, `len(x) < 1`."""
    out = []
    for c in _atoms(ctx, fi, test, pol, env):
        out.append(c)
        for s_, o_, v_ in _spellings(c):
            out.append(Constraint(s_, o_, v_, c.node, c.value_text, c.facts, c.from_fact))
    return out


def _spellings(c: Constraint):
    inner = c.subject[4:-1] if c.subject.startswith("len(") and c.subject.endswith(")") and c.subject.count("(") == c.subject[4:-1].count("(") + 1 else None
    zero = isinstance(c.value, int) and not isinstance(c.value, bool)
    empty = None
    if c.op == "truthy":
        empty = False
        yield c.subject, "!=", 0
    elif c.op == "falsy":
        empty = True
        yield c.subject, "==", 0
    elif zero and ((c.op == "==" and c.value == 0) or (c.op == "<" and c.value == 1) or (c.op == "<=" and c.value == 0 and inner is not None)):
        empty = True
        yield c.subject, "falsy", None
        if c.op != "==":
            yield c.subject, "==", 0
    elif zero and ((c.op == "!=" and c.value == 0) or (inner is not None and ((c.op == ">" and c.value == 0) or (c.op == ">=" and c.value == 1)))):
        empty = False
        yield c.subject, "truthy", None
        if c.op != "!=":
            yield c.subject, "!=", 0
    if empty is not None and inner is not None:
        yield inner, "falsy" if empty else "truthy", None


def _atoms(ctx: Ctx, fi: FuncInfo, test: ast.AST, pol: bool, env=None, _depth: int = 0) -> list[Constraint]:
    """Atomic constraints that hold when `test` evaluates to `pol`, for the
    shapes where that decomposition is exact or an implication."""
    if isinstance(test, ast.Name) and _depth < 2:
        # `too_long = len(x) > MAX` ... `if too_long: raise`: the local names a condition
        from .canon import local_defs
        d = local_defs(fi).get(test.id)
        if isinstance(d, (ast.Compare, ast.BoolOp)) or (isinstance(d, ast.UnaryOp) and isinstance(d.op, ast.Not)):
            return [Constraint(_t(fi, test), "truthy" if pol else "falsy", None, test)] + _atoms(ctx, fi, d, pol, env, _depth + 1)
    if isinstance(test, ast.UnaryOp) and isinstance(test.op, ast.Not):
        return _atoms(ctx, fi, test.operand, not pol, env)
    if isinstance(test, ast.BoolOp):
        conj = isinstance(test.op, ast.And)
        if conj == pol:
            # (a and b) true -> a true, b true ; (a or b) false -> a false, b false
            out = []
            for v in test.values:
                out += _atoms(ctx, fi, v, pol, env)
            return out
        # (a or b) true / (a and b) false: a disjunction -- each disjunct is *a* way to get here
        out = []
        for v in test.values:
            for c in _atoms(ctx, fi, v, pol, env):
                c.value_text = (c.value_text + " |disj").strip()
                out.append(c)
        return out
    if isinstance(test, ast.Compare):
        if len(test.ops) == 1:
            return _cmp(ctx, fi, test.left, test.ops[0], test.comparators[0], pol, test, env)
        # chained a <= x < b
        parts = []
        left = test.left
        for op, right in zip(test.ops, test.comparators):
            parts.append((left, op, right))
            left = right
        out = []
        if pol:
            for l, op, r in parts:
                out += _cmp(ctx, fi, l, op, r, True, test, env)
        else:
            for l, op, r in parts:
                for c in _cmp(ctx, fi, l, op, r, False, test, env):
                    c.value_text = (c.value_text + " |disj").strip()
                    out.append(c)
        return out
    return [Constraint(_t(fi, test), "truthy" if pol else "falsy", None, test)]


def _t(fi: FuncInfo, e: ast.AST):
    from .pattern import S, scope_of
    return S(norm(e), scope_of(fi), e)


def _cmp(ctx, fi, left, op, right, pol, node, env) -> list[Constraint]:
    o = OPS.get(type(op))
    if o is None:
        return []
    if not pol:
        o = NEG[o]
    lv, rv = _val(ctx, fi, left, env), _val(ctx, fi, right, env)
    if lv is not UNKNOWN and rv is UNKNOWN and o in FLIP:
        # constant on the left: 0 < x  ->  x > 0
        return [Constraint(_t(fi, right), FLIP[o], lv, node, _t(fi, left))]
    out = [Constraint(_t(fi, left), o, rv, node, _t(fi, right))]
    if o in FLIP and lv is UNKNOWN and rv is UNKNOWN:
        # two expressions: the same comparison read from the other side (`dust > sats` is `sats < dust`)
        c = Constraint(_t(fi, right), FLIP[o], lv, node, _t(fi, left))
        c.mirror = True
        out.append(c)
    return out


class ConsList(list):
    """The refusing tests' own atoms; `.by_fact` holds the conjuncts that reach
    a refusal as dominating branch facts -- searched by has(), not enumerated."""

    by_fact: list


def refusal_constraints(ctx: Ctx, fi: FuncInfo, accept_return: Iterable[str] = (), env=None, _inline: bool = True) -> list[Constraint]:
    out = ConsList()
    out.by_fact = []
    g = ctx.cfg(fi)
    fx = g.facts()
    for test, pol, n in ctx.refusals(fi, accept_return):
        here = fx.get(n.id, frozenset())
        for c in atoms(ctx, fi, test, pol, env):
            c.facts = here
            c.test_id = n.id
            out.append(c)
        # `if a and b: raise`, `if a: if b: raise` and `if not a: return ...; if b: raise`
        # are one refusal: the conjuncts that arrive as branch facts count as conjuncts
        for text, fpol in sorted(here):
            fa = g.fact_ast.get(text)
            if fa is None:
                continue
            for c in atoms(ctx, fi, fa, fpol, env):
                c.facts = here
                c.from_fact = True
                c.node = n.ast
                out.by_fact.append(c)
    if _inline:
        out.by_fact += _helper_refusals(ctx, fi, env)
    return out


def _helper_refusals(ctx: Ctx, fi: FuncInfo, env) -> list[Constraint]:
    """Refusals of the module-private helpers `fi` calls unconditionally, read in
    `fi`'s terms (parameters replaced by the argument texts): a check moved into
    `_assert_x(a, b)` is still a check of the caller. One level, same module,
    positional / keyword arguments that are plain expressions."""
    out: list[Constraint] = []
    g = ctx.cfg(fi)
    for c in [x for x in ast.walk(fi.node) if isinstance(x, ast.Call)]:
        q = ctx.resolve_call(fi, c)
        h = ctx.prog.functions.get(q or "")
        if h is None or h is fi or h.module is not fi.module or h.cls is not None and h.cls is not fi.cls:
            continue
        local = h.qualname.rsplit(".", 1)[1]
        if not local.startswith("_") or local.startswith("__") and local.endswith("__"):
            continue
        try:
            if not ctx.unconditional(g, c):
                continue
        except Exception:  # noqa: BLE001
            continue
        ps = h.params()
        if ps and ps[0] in ("self", "cls") and isinstance(c.func, ast.Attribute):
            ps = ps[1:]
        if any(isinstance(a, ast.Starred) for a in c.args) or any(k.arg is None for k in c.keywords):
            continue
        sub = {p_: norm(a) for p_, a in zip(ps, c.args)}
        sub.update({k.arg: norm(k.value) for k in c.keywords if k.arg in ps})
        for hc in refusal_constraints(ctx, h, (), env, _inline=False):
            subj = _subst(str(hc.subject), sub)
            vt = _subst(str(hc.value_text), sub)
            nc = Constraint(_S(fi, subj), hc.op, hc.value, c, _S(fi, vt), frozenset(), True)
            nc.mirror = hc.mirror
            out.append(nc)
    return out


def _S(fi: FuncInfo, text: str):
    from .pattern import S, scope_of
    return S(text, scope_of(fi))


def _subst(text: str, sub: dict[str, str]) -> str:
    if not sub or not text:
        return text
    marker = text.split(" |")
    try:
        tree = ast.parse(marker[0], mode="eval")
    except SyntaxError:
        return text

    class T(ast.NodeTransformer):
        def visit_Name(self, n: ast.Name):
            if n.id in sub:
                try:
                    return ast.parse(sub[n.id], mode="eval").body
                except SyntaxError:
                    return n
            return n
    marker[0] = " ".join(ast.unparse(T().visit(tree)).split())
    return " |".join(marker)


def _aliases(subject: str | None, op: str, value: Any):
    """Spellings of one test: truthiness of x / len(x) against 0 / x against 0."""
    yield subject, op, value
    if subject is None:
        return
    if op == "truthy":
        yield subject, "!=", 0
        yield f"len({subject})", "!=", 0
        yield f"len({subject})", ">", 0
        yield f"len({subject})", ">=", 1
        yield f"bool({subject})", "truthy", None
    elif op == "falsy":
        yield subject, "==", 0
        yield f"len({subject})", "==", 0
        yield f"len({subject})", "<", 1
        yield f"len({subject})", "<=", 0
    elif op in ("==", "!=") and value == 0 and not isinstance(value, bool):
        yield subject, "falsy" if op == "==" else "truthy", UNKNOWN
        if subject.startswith("len(") and subject.endswith(")"):
            yield subject[4:-1], "falsy" if op == "==" else "truthy", UNKNOWN
    elif op in ("not in", "in") and isinstance(value, frozenset) and 0 < len(value) <= 4:
        # x not in {a, b}  ==  x != a and x != b (conjuncts) ; handled by the caller for `in`
        return


def has(cons: list[Constraint], subject: str | None, op: str, value: Any = UNKNOWN, subject_contains: str | None = None) -> Constraint | None:
    for s_, o_, v_ in _aliases(subject, op, value):
        c = _has(cons, s_, o_, v_, subject_contains)
        if c is not None:
            return c
    if op == "!=" and subject is not None:
        # x != y spelled as (x < y or x > y)
        lo, hi = (_has(cons, subject, o, value, None) for o in ("<", ">"))
        if lo is not None and hi is not None:
            return lo
    if op == "not in" and isinstance(value, frozenset) and 0 < len(value) <= 4 and subject is not None:
        parts = [_has(cons, subject, "!=", v, None) for v in value]
        if all(p is not None for p in parts):
            return parts[0]
    return None


def has_all(cons: list[Constraint], subject: str, op: str, value: Any = UNKNOWN) -> list[Constraint]:
    """Every refusal (in the function's own tests) that states the constraint, under any of its spellings."""
    own = [c for c in cons if not c.from_fact]
    out = []
    for c in own:
        if _has([c], subject, op, value) is not None or any(_has([c], s_, o_, v_) is not None for s_, o_, v_ in _aliases(subject, op, value)):
            out.append(c)
    return out


def refused_on_every_path(ctx: Ctx, fi: FuncInfo, subject: str, op: str, value: Any = UNKNOWN) -> bool:
    """Some refusal of `subject op value` lies on every path to a normal return of fi."""
    cs = refusal_constraints(ctx, fi)
    ids = [c.test_id for c in has_all(cs, subject, op, value) if c.test_id >= 0]
    return bool(ids) and ctx.cfg(fi).must_pass(ids) is None


def _has(cons: list[Constraint], subject: str | None, op: str, value: Any = UNKNOWN, subject_contains: str | None = None) -> Constraint | None:
    cons = list(cons) + list(getattr(cons, "by_fact", []))
    # the same comparison written the other way round: `dust > sats` for `sats < dust`
    if subject is not None and isinstance(value, str) and op in FLIP:
        for c in cons:
            if c.subject == value and c.op == FLIP[op] and c.value_text.split(" |")[0] == subject:
                return c
    for c in cons:
        if subject is not None and c.subject != subject:
            continue
        if subject_contains is not None and subject_contains not in c.subject:
            continue
        if c.op != op:
            continue
        if value is not UNKNOWN and c.value != value:
            # also accept a value given as text
            if not (isinstance(value, str) and c.value_text.split(" |")[0] == value):
                continue
        return c
    return None


def equivalent_bound(op: str, value: int) -> list[tuple[str, int]]:
    """Integer-equivalent spellings: x > 5 == x >= 6."""
    if op == ">":
        return [(">", value), (">=", value + 1)]
    if op == ">=":
        return [(">=", value), (">", value - 1)]
    if op == "<":
        return [("<", value), ("<=", value - 1)]
    if op == "<=":
        return [("<=", value), ("<", value + 1)]
    return [(op, value)]


def has_bound(cons: list[Constraint], op: str, value: int, subject: str | None = None, subject_contains: str | None = None) -> Constraint | None:
    for o, v in equivalent_bound(op, value):
        c = has(cons, subject, o, v, subject_contains)
        if c is not None:
            return c
    return None
