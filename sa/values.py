"""Value expressions: what a function returns, and what it hands to a call, written
over its parameters alone.

A rule that reads `has_even_y = P[1] % 2 == 0` off a function reads one way of
writing it. The same function with the test inlined, the conditional expression
written as an `if` statement, the parity taken with `& 1`, or a subexpression
given a name computes the same value, and a rule must say the same thing about
it. This module removes those choices before a rule looks:

* every local is replaced by the expression that defines it, path by path --
  an `if` statement becomes a conditional expression over the two paths, a
  reassignment (`x = max(x, a)`; `x = min(x, b)`) nests, an augmented assignment
  becomes its binary operation;
* the result is put in a normal form: literal arithmetic folded, `e & 1` read as
  `e % 2`, `e % 2 == 0` as `not e % 2`, `not` pushed into comparisons,
  `a if not c else b` turned round, `a if c else a` collapsed.

Loops are not unrolled: a name assigned in a loop is opaque after it (`name@Lnn`).
Nothing is evaluated; the answer is still an expression of the source.
"""

from __future__ import annotations

import ast

from . import pattern as PT
from .loader import norm

RAISE = "__raises__"
_MAX_NODES = 600
_MAX_PATHS = 256


class TooBranchy(Exception):
    pass


def clone(n):
    """A structural copy: fields only (the loader's parent links would drag the whole module along)."""
    if isinstance(n, ast.AST):
        new = type(n)()
        for f in n._fields:
            if hasattr(n, f):
                setattr(new, f, clone(getattr(n, f)))
        return new
    if isinstance(n, list):
        return [clone(x) for x in n]
    return n


def _size(e: ast.AST) -> int:
    return sum(1 for _ in ast.walk(e))


class _Subst(ast.NodeTransformer):
    def __init__(self, env: dict[str, ast.expr]):
        self.env = env
        self.shadow: list[set[str]] = []

    def visit_Name(self, n: ast.Name):
        if isinstance(n.ctx, ast.Load) and n.id in self.env and not any(n.id in s for s in self.shadow):
            v = self.env[n.id]
            if _size(v) <= _MAX_NODES:
                return clone(v)
        return n

    def _comp(self, n):
        bound = {x.id for g in n.generators for x in ast.walk(g.target) if isinstance(x, ast.Name)}
        self.shadow.append(bound)
        try:
            return self.generic_visit(n)
        finally:
            self.shadow.pop()

    visit_ListComp = visit_SetComp = visit_GeneratorExp = visit_DictComp = _comp

    def visit_Lambda(self, n: ast.Lambda):
        a = n.args
        self.shadow.append({p.arg for p in a.posonlyargs + a.args + a.kwonlyargs})
        try:
            return self.generic_visit(n)
        finally:
            self.shadow.pop()


_NEG = {ast.Eq: ast.NotEq, ast.NotEq: ast.Eq, ast.Lt: ast.GtE, ast.GtE: ast.Lt, ast.Gt: ast.LtE, ast.LtE: ast.Gt,
        ast.Is: ast.IsNot, ast.IsNot: ast.Is, ast.In: ast.NotIn, ast.NotIn: ast.In}
_TURN = {ast.Eq: ast.Eq, ast.NotEq: ast.NotEq, ast.Lt: ast.Gt, ast.Gt: ast.Lt, ast.LtE: ast.GtE, ast.GtE: ast.LtE}
_ARITH = {ast.Add: lambda a, b: a + b, ast.Sub: lambda a, b: a - b, ast.Mult: lambda a, b: a * b,
          ast.FloorDiv: lambda a, b: a // b, ast.LShift: lambda a, b: a << b, ast.BitOr: lambda a, b: a | b, ast.BitAnd: lambda a, b: a & b}


def _is_int(e: ast.AST, v: int | None = None) -> bool:
    return isinstance(e, ast.Constant) and isinstance(e.value, int) and not isinstance(e.value, bool) and (v is None or e.value == v)


def _is_parity(e: ast.AST) -> bool:
    return isinstance(e, ast.BinOp) and isinstance(e.op, ast.Mod) and _is_int(e.right, 2)


def _not(e: ast.expr) -> ast.expr:
    if isinstance(e, ast.UnaryOp) and isinstance(e.op, ast.Not):
        return e.operand
    if isinstance(e, ast.Compare) and len(e.ops) == 1 and type(e.ops[0]) in _NEG:
        return ast.Compare(left=e.left, ops=[_NEG[type(e.ops[0])]()], comparators=e.comparators)
    return ast.UnaryOp(op=ast.Not(), operand=e)


class _Normal(ast.NodeTransformer):
    def visit_BinOp(self, n: ast.BinOp):
        n = self.generic_visit(n)
        if isinstance(n.op, ast.BitAnd) and _is_int(n.right, 1):
            return ast.BinOp(left=n.left, op=ast.Mod(), right=ast.Constant(value=2))
        if isinstance(n.op, ast.BitAnd) and _is_int(n.left, 1):
            return ast.BinOp(left=n.right, op=ast.Mod(), right=ast.Constant(value=2))
        if _is_int(n.left) and _is_int(n.right) and type(n.op) in _ARITH and abs(n.left.value) < 1 << 64 and 0 <= n.right.value < 1 << 16:
            try:
                return ast.Constant(value=_ARITH[type(n.op)](n.left.value, n.right.value))
            except Exception:  # noqa: BLE001
                return n
        return n

    def visit_Compare(self, n: ast.Compare):
        n = self.generic_visit(n)
        if len(n.ops) == 1 and isinstance(n.left, ast.Constant) and not isinstance(n.comparators[0], ast.Constant) and type(n.ops[0]) in _TURN:
            # a constant compared from the left is the same test from the right
            n = ast.Compare(left=n.comparators[0], ops=[_TURN[type(n.ops[0])]()], comparators=[n.left])
        if len(n.ops) == 1 and _is_parity(n.left) and _is_int(n.comparators[0]):
            k, op = n.comparators[0].value, n.ops[0]
            if (isinstance(op, ast.Eq) and k == 0) or (isinstance(op, ast.NotEq) and k == 1):
                return ast.UnaryOp(op=ast.Not(), operand=n.left)
            if (isinstance(op, ast.Eq) and k == 1) or (isinstance(op, ast.NotEq) and k == 0):
                return n.left
        return n

    def visit_UnaryOp(self, n: ast.UnaryOp):
        n = self.generic_visit(n)
        if isinstance(n.op, ast.Not):
            inner = n.operand
            if isinstance(inner, ast.UnaryOp) and isinstance(inner.op, ast.Not):
                return inner.operand
            if isinstance(inner, ast.Compare) and len(inner.ops) == 1 and type(inner.ops[0]) in _NEG and not _is_parity(inner.left):
                return ast.Compare(left=inner.left, ops=[_NEG[type(inner.ops[0])]()], comparators=inner.comparators)
        return n

    def visit_IfExp(self, n: ast.IfExp):
        n = self.generic_visit(n)
        t = n.test
        if isinstance(t, ast.UnaryOp) and isinstance(t.op, ast.Not):
            n = ast.IfExp(test=t.operand, body=n.orelse, orelse=n.body)
        elif isinstance(t, ast.Compare) and len(t.ops) == 1 and isinstance(t.ops[0], (ast.NotEq, ast.IsNot, ast.NotIn)):
            n = ast.IfExp(test=ast.Compare(left=t.left, ops=[_NEG[type(t.ops[0])]()], comparators=t.comparators), body=n.orelse, orelse=n.body)
        if norm(n.body) == norm(n.orelse):
            return n.body
        return n


def normal(e: ast.AST) -> ast.AST:
    return ast.fix_missing_locations(_Normal().visit(clone(e)))


def _has_exit(stmts: list[ast.stmt]) -> bool:
    return any(isinstance(n, (ast.Return, ast.Raise, ast.Break, ast.Continue)) for s_ in stmts for n in ast.walk(s_))


def _ends(stmts: list[ast.stmt]) -> bool:
    if not stmts:
        return False
    last = stmts[-1]
    if isinstance(last, (ast.Return, ast.Raise)):
        return True
    if isinstance(last, ast.If):
        return _ends(last.body) and _ends(last.orelse)
    return False


class Values:
    """Inlined, normalised value expressions of one function."""

    def __init__(self, fi) -> None:
        self.fi = fi
        self.at: dict[int, list[ast.expr]] = {}
        self.paths = 0
        self.opaque = False
        env: dict[str, ast.expr] = {}
        try:
            self.ret: ast.expr | None = self._walk(list(fi.node.body), env)
        except TooBranchy:
            self.ret = None
            self.opaque = True
        if self.ret is not None:
            self.ret = normal(self.ret)

    # -- helpers ------------------------------------------------------------
    def _inl(self, e: ast.AST | None, env: dict[str, ast.expr]) -> ast.expr | None:
        if e is None:
            return None
        out = _Subst(env).visit(clone(e))
        return out

    def _record(self, stmt: ast.AST, env: dict[str, ast.expr]) -> None:
        """Remember the inlined form of every call and of the statement's own expressions."""
        for n in ast.walk(stmt):
            if isinstance(n, (ast.Call, ast.Compare, ast.Return, ast.BinOp, ast.IfExp, ast.Subscript, ast.Assign, ast.AnnAssign)):
                tgt = n.value if isinstance(n, (ast.Return, ast.Assign, ast.AnnAssign)) else n
                if tgt is None:
                    continue
                v = normal(self._inl(tgt, env))
                self.at.setdefault(id(n), []).append(v)

    def _havoc(self, stmts: list[ast.stmt], env: dict[str, ast.expr], line: int) -> None:
        for s in stmts:
            for n in ast.walk(s):
                if isinstance(n, ast.Name) and isinstance(n.ctx, ast.Store):
                    env[n.id] = ast.Name(id=f"{n.id}@L{line}", ctx=ast.Load())

    def _assign(self, target: ast.AST, value: ast.expr, env: dict[str, ast.expr]) -> None:
        if isinstance(target, ast.Name):
            env[target.id] = value
        elif isinstance(target, (ast.Tuple, ast.List)):
            if isinstance(value, (ast.Tuple, ast.List)) and len(value.elts) == len(target.elts) and not any(isinstance(x, ast.Starred) for x in list(target.elts) + list(value.elts)):
                for t, v in zip(target.elts, value.elts):
                    self._assign(t, v, env)
            else:
                for i, t in enumerate(target.elts):
                    if isinstance(t, ast.Starred):
                        for n in ast.walk(t):
                            if isinstance(n, ast.Name):
                                env.pop(n.id, None)
                        continue
                    self._assign(t, ast.Subscript(value=clone(value), slice=ast.Constant(value=i), ctx=ast.Load()), env)
        # attribute / subscript targets change no local

    def _walk(self, stmts: list[ast.stmt], env: dict[str, ast.expr], out: dict[str, ast.expr] | None = None) -> ast.expr | None:
        """The value returned by executing `stmts` (a whole continuation) under env, as one expression.
        With `out`, the environment at the end of a fall-through block is left in it."""
        env = out if out is not None else dict(env)
        for i, st in enumerate(stmts):
            rest = stmts[i + 1:]
            if isinstance(st, ast.Expr) and isinstance(st.value, ast.Constant):
                continue
            if isinstance(st, (ast.FunctionDef, ast.AsyncFunctionDef, ast.ClassDef, ast.Import, ast.ImportFrom, ast.Pass, ast.Global, ast.Nonlocal, ast.Assert, ast.Delete)):
                continue
            if isinstance(st, ast.Return):
                self._record(st, env)
                self.paths += 1
                return self._inl(st.value, env) if st.value is not None else ast.Constant(value=None)
            if isinstance(st, ast.Raise):
                self._record(st, env)
                self.paths += 1
                return ast.Name(id=RAISE, ctx=ast.Load())
            if isinstance(st, ast.Assign):
                self._record(st, env)
                v = self._inl(st.value, env)
                for t in st.targets:
                    self._assign(t, v, env)
                continue
            if isinstance(st, ast.AnnAssign):
                self._record(st, env)
                if st.value is not None:
                    self._assign(st.target, self._inl(st.value, env), env)
                continue
            if isinstance(st, ast.AugAssign):
                self._record(st, env)
                if isinstance(st.target, ast.Name):
                    cur = env.get(st.target.id, ast.Name(id=st.target.id, ctx=ast.Load()))
                    env[st.target.id] = ast.BinOp(left=clone(cur), op=st.op, right=self._inl(st.value, env))
                continue
            if isinstance(st, ast.Expr):
                self._record(st, env)
                continue
            if isinstance(st, ast.If):
                self._record(st.test, env)
                self.at.setdefault(id(st.test), []).append(normal(self._inl(st.test, env)))
                if self.paths > _MAX_PATHS:
                    raise TooBranchy
                t = self._inl(st.test, env)
                if not _has_exit(st.body) and not _has_exit(st.orelse):
                    # no way out of the function inside: the two paths join, and a name they leave
                    # different is the conditional expression of the two
                    e1, e2 = dict(env), dict(env)
                    self._walk(list(st.body), e1, out=e1)
                    self._walk(list(st.orelse), e2, out=e2)
                    for k in set(e1) | set(e2):
                        v1 = e1.get(k, ast.Name(id=k, ctx=ast.Load()))
                        v2 = e2.get(k, ast.Name(id=k, ctx=ast.Load()))
                        env[k] = v1 if norm(v1) == norm(v2) else ast.IfExp(test=clone(t), body=v1, orelse=v2)
                    continue
                a = self._walk(list(st.body) + rest, env)
                b = self._walk(list(st.orelse) + rest, env)
                if a is None and b is None:
                    return None
                return ast.IfExp(test=t, body=a if a is not None else ast.Constant(value=None), orelse=b if b is not None else ast.Constant(value=None))
            if isinstance(st, (ast.For, ast.AsyncFor, ast.While)):
                self._havoc([st], env, st.lineno)
                if isinstance(st, (ast.For, ast.AsyncFor)):
                    self._record(st.iter, env)
                # the body once, as a block of its own: what it assigns before it uses is inlined
                # there, what the loop carries round stays opaque; a return inside is not followed
                benv = dict(env)
                try:
                    self._walk(list(st.body) + list(st.orelse), benv, out=benv)
                except TooBranchy:
                    for s in st.body + st.orelse:
                        self._record(s, env)
                continue
            if isinstance(st, (ast.With, ast.AsyncWith)):
                for item in st.items:
                    self._record(item.context_expr, env)
                    if item.optional_vars is not None:
                        self._havoc([ast.Expr(value=item.optional_vars)], env, st.lineno)
                        for n in ast.walk(item.optional_vars):
                            if isinstance(n, ast.Name):
                                env[n.id] = ast.Name(id=f"{n.id}@L{st.lineno}", ctx=ast.Load())
                return self._walk(list(st.body) + rest, env)
            if isinstance(st, ast.Try):
                # the body's own path; what a handler assigns is opaque afterwards
                for h in st.handlers:
                    henv = dict(env)
                    self._havoc(st.body, henv, st.lineno)
                    for s in h.body:
                        self._record(s, henv)
                if any(not _ends(h.body) for h in st.handlers):
                    after = dict(env)
                    r = self._walk(list(st.body) + list(st.orelse) + list(st.finalbody) + rest, env)
                    return r
                return self._walk(list(st.body) + list(st.orelse) + list(st.finalbody) + rest, env)
            if isinstance(st, ast.Match):
                self._havoc([st], env, st.lineno)
                continue
            # anything else: opaque
            self._havoc([st], env, getattr(st, "lineno", 0))
        self.paths += 1
        return None

    # -- queries ------------------------------------------------------------
    def returns(self, pattern: str, b: dict[str, str] | None = None) -> bool:
        """Whether the returned value has a subexpression matching the pattern (both in normal form)."""
        return self.ret is not None and has(self.ret, pattern, b)

    def value_of(self, node: ast.AST) -> list[ast.expr]:
        return self.at.get(id(node), [])

    def anywhere(self, pattern: str, b: dict[str, str] | None = None) -> bool:
        """Whether the returned value or any recorded expression of the function matches the pattern somewhere."""
        if self.returns(pattern, b):
            return True
        return any(has(v, pattern, b) for vs in self.at.values() for v in vs)


_pat_cache: dict[str, ast.AST] = {}


def _pat(pattern: str) -> ast.AST:
    p = _pat_cache.get(pattern)
    if p is None:
        p = normal(PT.compile_(pattern))
        _pat_cache[pattern] = p
    return p


def has(root: ast.AST, pattern: str, b: dict[str, str] | None = None) -> bool:
    pat = _pat(pattern)
    for n in ast.walk(root):
        if type(n) is type(pat) or (isinstance(pat, ast.Name) and pat.id.startswith(("MV__", "MVE__"))):
            trial = dict(b or {})
            if PT.match(pat, n, trial):
                if b is not None:
                    b.update(trial)
                return True
    return False


def of(fi) -> Values:
    v = getattr(fi, "_values", None)
    if v is None:
        v = Values(fi)
        try:
            fi._values = v
        except AttributeError:
            pass
    return v
