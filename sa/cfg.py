"""L3: statement-level control-flow graph with guard facts, and the path
queries (must-pass-through, control dependence on a predicate) rules use.

No third-party graph library: the graphs are small (a function), and the
three queries needed are reachability with a removed node set, and a forward
"facts that hold on all paths" dataflow.
"""

from __future__ import annotations

import ast
from collections import deque
from dataclasses import dataclass, field
from typing import Callable, Iterable

from .loader import tnorm as norm

Fact = tuple[str, bool]  # (normalised expression text, polarity)


@dataclass
class Node:
    id: int
    kind: str  # entry return_exit raise_exit stmt test for with handler case
    ast: ast.AST | None = None
    stmt: ast.stmt | None = None

    @property
    def line(self) -> int:
        return getattr(self.ast, "lineno", 0) if self.ast is not None else 0


@dataclass
class CFG:
    fn: ast.AST
    nodes: list[Node] = field(default_factory=list)
    succ: dict[int, list[tuple[int, object]]] = field(default_factory=dict)
    pred: dict[int, list[tuple[int, object]]] = field(default_factory=dict)
    entry: int = 0
    exit_return: int = 1
    exit_raise: int = 2
    fact_ast: dict[str, ast.AST] = field(default_factory=dict)
    _facts: dict[int, frozenset[Fact]] | None = None
    scope: object | None = None  # pattern.Scope: fact texts then compare up to the names of temporaries

    def _txt(self, e: ast.AST) -> str:
        t = norm(e)
        if self.scope is None:
            return t
        from .pattern import S
        return S(t, self.scope, e)

    # -- construction helpers ------------------------------------------
    def new(self, kind: str, a: ast.AST | None = None, stmt: ast.stmt | None = None) -> int:
        n = Node(len(self.nodes), kind, a, stmt)
        self.nodes.append(n)
        self.succ[n.id] = []
        self.pred[n.id] = []
        return n.id

    def edge(self, a: int, b: int, label: object = None) -> None:
        self.succ[a].append((b, label))
        self.pred[b].append((a, label))

    # -- queries --------------------------------------------------------
    def nodes_where(self, p: Callable[[Node], bool]) -> list[int]:
        return [n.id for n in self.nodes if p(n)]

    def nodes_containing(self, target: ast.AST) -> list[int]:
        """CFG nodes whose own expression/statement contains ``target``."""
        out = []
        for n in self.nodes:
            if n.ast is None or n.kind in ("entry", "return_exit", "raise_exit"):
                continue
            for sub in _own_walk(n):
                if sub is target:
                    out.append(n.id)
                    break
        return out

    def reachable(self, start: int, avoid: Iterable[int] = (), skip_exc: bool = False) -> dict[int, int | None]:
        """BFS from start avoiding nodes in ``avoid``; returns parent map."""
        avoid = set(avoid)
        parent: dict[int, int | None] = {start: None}
        if start in avoid:
            return {}
        dq = deque([start])
        while dq:
            u = dq.popleft()
            for v, lab in self.succ[u]:
                if skip_exc and lab == "exc":
                    continue
                if v in avoid or v in parent:
                    continue
                parent[v] = u
                dq.append(v)
        return parent

    def path_avoiding(self, targets: Iterable[int], avoid: Iterable[int], start: int | None = None) -> list[int] | None:
        """A path from entry (or start) to any target not passing through
        ``avoid``; None if every such path passes through ``avoid``."""
        par = self.reachable(self.entry if start is None else start, avoid)
        for t in targets:
            if t in par:
                path = [t]
                while par[path[-1]] is not None:
                    path.append(par[path[-1]])  # type: ignore[arg-type]
                return path[::-1]
        return None

    def must_pass(self, through: Iterable[int], targets: Iterable[int] | None = None, start: int | None = None) -> list[int] | None:
        """None if every path start→targets (default: normal return) passes
        through a node of ``through``; otherwise a witness path."""
        tg = [self.exit_return] if targets is None else list(targets)
        return self.path_avoiding(tg, through, start)

    def describe_path(self, path: list[int]) -> list[str]:
        out = []
        for i in path:
            n = self.nodes[i]
            if n.kind in ("entry", "return_exit", "raise_exit"):
                out.append(n.kind)
            else:
                txt = norm(n.ast) if n.ast is not None else n.kind
                if n.kind in ("stmt",) and isinstance(n.ast, (ast.FunctionDef, ast.ClassDef)):
                    txt = f"def {n.ast.name}"
                out.append(f"L{n.line}:{n.kind}:{txt[:70]}")
        return out

    # facts that hold on every path from entry to a node -----------------
    def facts(self) -> dict[int, frozenset[Fact]]:
        if self._facts is not None:
            return self._facts
        TOP = None
        IN: dict[int, frozenset[Fact] | None] = {n.id: TOP for n in self.nodes}
        IN[self.entry] = frozenset()
        work = deque([self.entry])
        kills = {n.id: _assigned_names(n) for n in self.nodes}
        while work:
            u = work.popleft()
            cur = IN[u]
            assert cur is not None
            out = cur
            k = kills[u]
            if k:
                out = frozenset(f for f in out if not (self._names(f[0]) & k))
            for v, lab in self.succ[u]:
                o = out
                if lab == "exc":
                    # the statement may not have completed: do not kill, do not add
                    o = cur
                elif isinstance(lab, tuple) and lab[0] in ("T", "F"):
                    txt = self._txt(lab[1])
                    self.fact_ast.setdefault(txt, lab[1])
                    o = o | {(txt, lab[0] == "T")}
                old = IN[v]
                new = o if old is None else (old & o)
                if old is None or new != old:
                    IN[v] = new
                    work.append(v)
        self._facts = {k: (v if v is not None else frozenset()) for k, v in IN.items()}
        self._unreached = {k for k, v in IN.items() if v is None}
        return self._facts

    _name_cache: dict[str, frozenset[str]] = field(default_factory=dict)

    def _names(self, txt: str) -> frozenset[str]:
        r = self._name_cache.get(txt)
        if r is None:
            a = self.fact_ast.get(txt)
            r = frozenset(n.id for n in ast.walk(a) if isinstance(n, ast.Name)) if a is not None else frozenset()
            self._name_cache[txt] = r
        return r

    def facts_at_ast(self, target: ast.AST) -> frozenset[Fact]:
        """Guard facts that hold whenever ``target`` (an expression inside the
        function) is evaluated: path facts of its CFG node(s) plus the facts
        imposed by the enclosing expression (IfExp arms, and/or tails,
        comprehension filters)."""
        ids = self.nodes_containing(target)
        fx = self.facts()
        if not ids:
            return frozenset()
        res: frozenset[Fact] | None = None
        for i in ids:
            f = fx[i]
            res = f if res is None else (res & f)
        assert res is not None
        extra = set()
        node = self.nodes[ids[0]]
        for e, pol in expr_guards(target, stop=node.ast):
            txt = self._txt(e)
            self.fact_ast.setdefault(txt, e)
            extra.add((txt, pol))
        return res | frozenset(extra)

    def unreachable(self) -> set[int]:
        self.facts()
        return self._unreached


def _own_walk(n: Node):
    """Walk the AST owned by a CFG node (a compound statement's node owns only
    its header expression)."""
    a = n.ast
    if a is None:
        return
    if n.kind == "test" or n.kind == "case":
        yield from ast.walk(a)
    elif n.kind == "for":
        assert isinstance(a, (ast.For, ast.AsyncFor))
        yield from ast.walk(a.iter)
        yield from ast.walk(a.target)
    elif n.kind == "with":
        assert isinstance(a, (ast.With, ast.AsyncWith))
        for it in a.items:
            yield from ast.walk(it)
    elif n.kind == "handler":
        assert isinstance(a, ast.ExceptHandler)
        if a.type is not None:
            yield from ast.walk(a.type)
    elif n.kind == "match":
        assert isinstance(a, ast.Match)
        yield from ast.walk(a.subject)
    elif isinstance(a, (ast.FunctionDef, ast.AsyncFunctionDef, ast.ClassDef)):
        yield a
        for d in a.decorator_list:
            yield from ast.walk(d)
    else:
        # simple statement: everything, but not into lambdas' bodies? keep them
        yield from ast.walk(a)


def _assigned_names(n: Node) -> frozenset[str]:
    a = n.ast
    out: set[str] = set()
    if a is None:
        return frozenset()
    if n.kind == "for":
        tg = [a.target]  # type: ignore[attr-defined]
    elif n.kind == "with":
        tg = [it.optional_vars for it in a.items if it.optional_vars is not None]  # type: ignore[attr-defined]
    elif n.kind == "handler":
        return frozenset({a.name}) if getattr(a, "name", None) else frozenset()
    elif n.kind in ("test", "case", "match"):
        tg = []
        for sub in ast.walk(a if n.kind != "match" else a.subject):  # type: ignore[attr-defined]
            if isinstance(sub, ast.NamedExpr):
                tg.append(sub.target)
            if isinstance(sub, (ast.MatchAs, ast.MatchStar)) and sub.name:
                out.add(sub.name)
    elif isinstance(a, ast.Assign):
        tg = list(a.targets)
    elif isinstance(a, (ast.AugAssign, ast.AnnAssign)):
        tg = [a.target]
    elif isinstance(a, ast.Delete):
        tg = list(a.targets)
    elif isinstance(a, (ast.FunctionDef, ast.ClassDef)):
        return frozenset({a.name})
    else:
        tg = []
        for sub in ast.walk(a):
            if isinstance(sub, ast.NamedExpr):
                tg.append(sub.target)
    for t in tg:
        for sub in ast.walk(t):
            if isinstance(sub, ast.Name):
                out.add(sub.id)
    return frozenset(out)


def expr_guards(target: ast.AST, stop: ast.AST | None) -> list[tuple[ast.AST, bool]]:
    """Facts implied by the position of ``target`` inside its expression."""
    from .loader import parent

    out: list[tuple[ast.AST, bool]] = []
    cur = target
    par = parent(cur)
    while par is not None and cur is not stop:
        if isinstance(par, ast.IfExp):
            if cur is par.body:
                out += _split(par.test, True)
            elif cur is par.orelse:
                out += _split(par.test, False)
        elif isinstance(par, ast.BoolOp):
            idx = next((i for i, v in enumerate(par.values) if v is cur), 0)
            pol = isinstance(par.op, ast.And)
            for v in par.values[:idx]:
                out += _split(v, pol)
        elif isinstance(par, ast.comprehension):
            if cur in par.ifs:
                for c in par.ifs[: par.ifs.index(cur)]:
                    out += _split(c, True)
        elif isinstance(par, (ast.ListComp, ast.SetComp, ast.GeneratorExp, ast.DictComp)):
            if cur is getattr(par, "elt", None) or cur is getattr(par, "key", None) or cur is getattr(par, "value", None):
                for g in par.generators:
                    for c in g.ifs:
                        out += _split(c, True)
        if isinstance(par, (ast.stmt,)):
            break
        cur, par = par, parent(par)
    return out


def _split(test: ast.AST, pol: bool) -> list[tuple[ast.AST, bool]]:
    """Atomic facts implied by ``test`` evaluating to ``pol``."""
    if isinstance(test, ast.UnaryOp) and isinstance(test.op, ast.Not):
        return _split(test.operand, not pol)
    if isinstance(test, ast.BoolOp):
        if isinstance(test.op, ast.And) and pol:
            return [f for v in test.values for f in _split(v, True)]
        if isinstance(test.op, ast.Or) and not pol:
            return [f for v in test.values for f in _split(v, False)]
        return [(test, pol)]
    return [(test, pol)]


# ---------------------------------------------------------------------------
def _named_conditions(fn: ast.AST) -> dict[str, ast.expr]:
    """Locals bound once to a comparison (or a not / and / or of comparisons)
    over names that are themselves never rebound after: a test of such a local
    is a test of the condition, and is built as one."""
    if not hasattr(fn, "body") or not isinstance(fn.body, list):
        return {}
    count: dict[str, int] = {}
    defs: dict[str, ast.expr] = {}
    for n in ast.walk(fn):
        if isinstance(n, (ast.FunctionDef, ast.AsyncFunctionDef, ast.Lambda)) and n is not fn:
            continue
        tg: list[ast.AST] = []
        if isinstance(n, ast.Assign):
            tg = list(n.targets)
        elif isinstance(n, (ast.AnnAssign, ast.AugAssign, ast.NamedExpr)):
            tg = [n.target]
        elif isinstance(n, (ast.For, ast.AsyncFor, ast.comprehension)):
            tg = [n.target]
        elif isinstance(n, (ast.With, ast.AsyncWith)):
            tg = [i.optional_vars for i in n.items if i.optional_vars is not None]
        elif isinstance(n, ast.ExceptHandler) and n.name:
            count[n.name] = count.get(n.name, 0) + 2
        for t in tg:
            for x in ast.walk(t):
                if isinstance(x, ast.Name):
                    simple = isinstance(n, (ast.Assign, ast.AnnAssign)) and x is t and getattr(n, "value", None) is not None and len(getattr(n, "targets", [t])) == 1
                    count[x.id] = count.get(x.id, 0) + (1 if simple else 2)
                    if simple:
                        defs[x.id] = n.value
    a = fn.args
    params = {p.arg for p in a.posonlyargs + a.args + a.kwonlyargs + ([a.vararg] if a.vararg else []) + ([a.kwarg] if a.kwarg else [])}
    # a condition named on the line before the `if` that tests it (and read nowhere else) cannot
    # have its operands rebound in between, however often they are rebound elsewhere
    adjacent: set[str] = set()
    loads: dict[str, int] = {}
    for n in ast.walk(fn):
        if isinstance(n, ast.Name) and isinstance(n.ctx, ast.Load):
            loads[n.id] = loads.get(n.id, 0) + 1
    for n in ast.walk(fn):
        for f in ("body", "orelse", "finalbody"):
            blk = getattr(n, f, None)
            if not isinstance(blk, list):
                continue
            for s1, s2 in zip(blk, blk[1:]):
                if isinstance(s1, ast.Assign) and len(s1.targets) == 1 and isinstance(s1.targets[0], ast.Name) and isinstance(s2, (ast.If, ast.While)):
                    nm = s1.targets[0].id
                    uses = sum(1 for x in ast.walk(s2.test) if isinstance(x, ast.Name) and x.id == nm)
                    if uses and loads.get(nm, 0) == uses:
                        adjacent.add(nm)
    out = {}
    for name, v in defs.items():
        if count.get(name) != 1 or name in params:
            continue
        if not (isinstance(v, (ast.Compare, ast.BoolOp)) or (isinstance(v, ast.UnaryOp) and isinstance(v.op, ast.Not))):
            continue
        if any(isinstance(x, (ast.Call, ast.NamedExpr, ast.Await, ast.Yield)) and not (isinstance(x, ast.Call) and isinstance(x.func, ast.Name) and x.func.id in ("len", "isinstance", "int", "bool", "all", "any"))
               for x in ast.walk(v)):
            continue  # evaluated once at the definition, possibly with effects: not the same as evaluating it at the test
        free = {x.id for x in ast.walk(v) if isinstance(x, ast.Name)}
        if all(count.get(f, 0) <= (0 if f in params else 1) for f in free) or name in adjacent:
            out[name] = v
    return out


class _Builder:
    def __init__(self, fn: ast.AST, noreturn: Callable[[ast.Call], bool] | None = None):
        self.g = CFG(fn)
        self.noreturn = noreturn or (lambda c: False)
        g = self.g
        g.entry = g.new("entry")
        g.exit_return = g.new("return_exit")
        g.exit_raise = g.new("raise_exit")
        # stack of exception contexts: list of (handler entry ids, catches_all)
        self.exc_stack: list[tuple[list[int], bool]] = []
        self.loop_stack: list[tuple[int, list[int]]] = []  # (continue target, break sources)
        self.named = _named_conditions(fn)

    def build(self) -> CFG:
        body = self.g.fn.body  # type: ignore[attr-defined]
        if isinstance(body, list):
            ends = self.block(body, [(self.g.entry, None)])
        else:  # lambda
            n = self.g.new("stmt", body, None)
            self.g.edge(self.g.entry, n)
            ends = [(n, None)]
        for e, lab in ends:
            self.g.edge(e, self.g.exit_return, lab)
        return self.g

    # ends: list of (node id, label for the outgoing edge)
    def connect(self, ends: list[tuple[int, object]], to: int) -> None:
        for e, lab in ends:
            self.g.edge(e, to, lab)

    def exc_targets(self) -> list[int]:
        out: list[int] = []
        for handlers, catch_all in reversed(self.exc_stack):
            out += handlers
            if catch_all:
                return out
        out.append(self.g.exit_raise)
        return out

    def add_exc(self, n: int, always: bool = False) -> None:
        node = self.g.nodes[n]
        if not always and not self.exc_stack:
            return
        if always or _may_raise_syntactically(node):
            for t in self.exc_targets():
                self.g.edge(n, t, "exc")

    def block(self, stmts: list[ast.stmt], ends: list[tuple[int, object]]) -> list[tuple[int, object]]:
        for st in stmts:
            if not ends:
                # unreachable code: still build it (disconnected) so anchors resolve
                ends = []
            ends = self.stmt(st, ends)
        return ends

    def test(self, expr: ast.AST, ends: list[tuple[int, object]], stmt: ast.stmt) -> tuple[list[tuple[int, object]], list[tuple[int, object]]]:
        """Build nodes for a branching expression; returns (true_ends, false_ends)."""
        if isinstance(expr, ast.Name) and expr.id in self.named:
            # `bad = a >= b` ... `if bad:` branches on the condition the local names
            return self.test(self.named[expr.id], ends, stmt)
        if isinstance(expr, ast.UnaryOp) and isinstance(expr.op, ast.Not):
            t, f = self.test(expr.operand, ends, stmt)
            return f, t
        if isinstance(expr, ast.BoolOp):
            if isinstance(expr.op, ast.And):
                false_ends: list[tuple[int, object]] = []
                cur = ends
                for v in expr.values:
                    t, f = self.test(v, cur, stmt)
                    false_ends += f
                    cur = t
                return cur, false_ends
            true_ends: list[tuple[int, object]] = []
            cur = ends
            for v in expr.values:
                t, f = self.test(v, cur, stmt)
                true_ends += t
                cur = f
            return true_ends, cur
        n = self.g.new("test", expr, stmt)
        self.connect(ends, n)
        self.add_exc(n)
        if isinstance(expr, ast.Constant):
            if expr.value:
                return [(n, ("T", expr))], []
            return [], [(n, ("F", expr))]
        return [(n, ("T", expr))], [(n, ("F", expr))]

    def stmt(self, st: ast.stmt, ends: list[tuple[int, object]]) -> list[tuple[int, object]]:
        g = self.g
        if isinstance(st, ast.If):
            t, f = self.test(st.test, ends, st)
            e1 = self.block(st.body, t)
            e2 = self.block(st.orelse, f) if st.orelse else f
            return e1 + e2
        if isinstance(st, ast.While):
            head = g.new("stmt", ast.Pass(lineno=st.lineno, col_offset=0), st)  # loop join
            self.connect(ends, head)
            t, f = self.test(st.test, [(head, None)], st)
            self.loop_stack.append((head, []))
            body_ends = self.block(st.body, t)
            self.connect(body_ends, head)
            _, breaks = self.loop_stack.pop()
            out = self.block(st.orelse, f) if st.orelse else f
            return out + [(b, None) for b in breaks]
        if isinstance(st, (ast.For, ast.AsyncFor)):
            head = g.new("for", st, st)
            self.connect(ends, head)
            self.add_exc(head)
            self.loop_stack.append((head, []))
            body_ends = self.block(st.body, [(head, "iter")])
            self.connect(body_ends, head)
            _, breaks = self.loop_stack.pop()
            out = [(head, "exhaust")]
            if st.orelse:
                out = self.block(st.orelse, out)
            return out + [(b, None) for b in breaks]
        if isinstance(st, ast.Try) or st.__class__.__name__ == "TryStar":
            handler_ids = []
            catch_all = False
            for h in st.handlers:
                hid = g.new("handler", h, st)
                handler_ids.append(hid)
                if h.type is None or norm(h.type) in ("Exception", "BaseException"):
                    catch_all = True
            self.exc_stack.append((handler_ids, catch_all))
            body_ends = self.block(st.body, ends)
            self.exc_stack.pop()
            if st.orelse:
                body_ends = self.block(st.orelse, body_ends)
            out = list(body_ends)
            for h, hid in zip(st.handlers, handler_ids):
                out += self.block(h.body, [(hid, None)])
            if st.finalbody:
                out = self.block(st.finalbody, out)
            return out
        if isinstance(st, (ast.With, ast.AsyncWith)):
            n = g.new("with", st, st)
            self.connect(ends, n)
            self.add_exc(n)
            suppress = any(
                isinstance(it.context_expr, ast.Call) and norm(it.context_expr.func).split(".")[-1] == "suppress"
                for it in st.items
            )
            if suppress:
                after = g.new("stmt", ast.Pass(lineno=getattr(st, "end_lineno", st.lineno), col_offset=0), st)
                self.exc_stack.append(([after], False))
                body_ends = self.block(st.body, [(n, None)])
                self.exc_stack.pop()
                self.connect(body_ends, after)
                return [(after, None)]
            return self.block(st.body, [(n, None)])
        if isinstance(st, ast.Match):
            n = g.new("match", st, st)
            self.connect(ends, n)
            self.add_exc(n)
            cur: list[tuple[int, object]] = [(n, None)]
            out: list[tuple[int, object]] = []
            for case in st.cases:
                c = g.new("case", case.pattern, st)
                self.connect(cur, c)
                t_ends: list[tuple[int, object]] = [(c, ("case", case.pattern))]
                irrefutable = isinstance(case.pattern, ast.MatchAs) and case.pattern.pattern is None
                f_ends: list[tuple[int, object]] = [] if irrefutable and case.guard is None else [(c, ("nocase", case.pattern))]
                if case.guard is not None:
                    t2, f2 = self.test(case.guard, t_ends, st)
                    t_ends = t2
                    f_ends = f_ends + f2
                out += self.block(case.body, t_ends)
                cur = f_ends
            return out + cur
        if isinstance(st, ast.Return):
            n = g.new("stmt", st, st)
            self.connect(ends, n)
            self.add_exc(n)
            g.edge(n, g.exit_return)
            return []
        if isinstance(st, ast.Raise):
            n = g.new("stmt", st, st)
            self.connect(ends, n)
            for t in self.exc_targets():
                g.edge(n, t, "exc")
            return []
        if isinstance(st, ast.Break):
            n = g.new("stmt", st, st)
            self.connect(ends, n)
            if self.loop_stack:
                self.loop_stack[-1][1].append(n)
            return []
        if isinstance(st, ast.Continue):
            n = g.new("stmt", st, st)
            self.connect(ends, n)
            if self.loop_stack:
                g.edge(n, self.loop_stack[-1][0])
            return []
        if isinstance(st, ast.Assert):
            n = g.new("stmt", st, st)
            self.connect(ends, n)
            self.add_exc(n)
            return [(n, None)]
        # simple statement (incl. nested def/class)
        n = g.new("stmt", st, st)
        self.connect(ends, n)
        if isinstance(st, ast.Expr) and isinstance(st.value, ast.Call) and self.noreturn(st.value):
            for t in self.exc_targets():
                g.edge(n, t, "exc")
            return []
        self.add_exc(n)
        return [(n, None)]


def _may_raise_syntactically(node: Node) -> bool:
    for sub in _own_walk(node):
        if isinstance(sub, (ast.Call, ast.Subscript, ast.BinOp, ast.Raise, ast.Assert, ast.Attribute, ast.Await)):
            return True
    return False


_CACHE: dict[int, CFG] = {}


def build_cfg(fn: ast.AST, noreturn: Callable[[ast.Call], bool] | None = None) -> CFG:
    key = id(fn)
    g = _CACHE.get(key)
    if g is None or g.fn is not fn:
        g = _Builder(fn, noreturn or default_noreturn).build()
        _CACHE[key] = g
    return g


_NORETURN_NAMES = {"unknown_op_code", "_fail"}


def default_noreturn(call: ast.Call) -> bool:
    f = call.func
    name = f.attr if isinstance(f, ast.Attribute) else f.id if isinstance(f, ast.Name) else ""
    return name in _NORETURN_NAMES


def set_noreturn_names(names: set[str]) -> None:
    _NORETURN_NAMES.clear()
    _NORETURN_NAMES.update(names)
    _CACHE.clear()
