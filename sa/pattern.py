"""Structural patterns with metavariables, so that a rule names parameters,
attributes and callees -- never a temporary.

    P.find(fi.node, "$m |= any(($l[$i] == $l[$i + 1] for $i in range(0, len($l) - 1, 2)))", b)

`$x` stands for one identifier (bound consistently through the dict `b`, across
several patterns of one rule); `$$e` for any expression (bound by its text);
`$_` / `$$_` match without binding. Everything else must be equal as syntax
(positions, contexts and parentheses do not count).
"""

from __future__ import annotations

import ast
import re
from typing import Iterator

from .loader import norm

_MV = "MV__"
_MVE = "MVE__"
_cache: dict[str, ast.AST] = {}


def compile_(pattern: str) -> ast.AST:
    if pattern in _cache:
        return _cache[pattern]
    src = re.sub(r"\$\$(\w+)", _MVE + r"\1", pattern)
    src = re.sub(r"\$(\w+)", _MV + r"\1", src)
    try:
        node: ast.AST = ast.parse(src, mode="eval").body
    except SyntaxError:
        body = ast.parse(src).body
        if len(body) != 1:
            raise ValueError(f"pattern is not one statement: {pattern}") from None
        node = body[0]
        if isinstance(node, ast.Expr):
            node = node.value
    _cache[pattern] = node
    return node


_SKIP = {"ctx", "type_comment", "kind", "lineno", "col_offset", "end_lineno", "end_col_offset", "type_params"}


def match(pat: ast.AST, node: ast.AST, b: dict[str, str]) -> bool:
    if isinstance(pat, ast.Name) and pat.id.startswith(_MVE):
        if not isinstance(node, ast.expr):
            return False
        key = pat.id[len(_MVE):]
        if key == "_":
            return True
        t = norm(node)
        if b.setdefault("$$" + key, t) != t:
            return False
        return True
    if isinstance(pat, ast.Name) and pat.id.startswith(_MV):
        if not isinstance(node, ast.Name):
            return False
        key = pat.id[len(_MV):]
        if key == "_":
            return True
        return b.setdefault(key, node.id) == node.id
    if type(pat) is not type(node):
        return False
    for f in pat._fields:
        if f in _SKIP:
            continue
        pv, nv = getattr(pat, f, None), getattr(node, f, None)
        if isinstance(pv, list):
            if not isinstance(nv, list) or len(pv) != len(nv):
                return False
            for x, y in zip(pv, nv):
                if isinstance(x, ast.AST):
                    if not isinstance(y, ast.AST) or not match(x, y, b):
                        return False
                elif x != y:
                    return False
        elif isinstance(pv, ast.AST):
            if not isinstance(nv, ast.AST) or not match(pv, nv, b):
                return False
        elif isinstance(pv, str) and pv.startswith(_MV) and isinstance(nv, str):
            # an identifier slot that is not a Name node (arg, keyword, attr)
            key = pv[len(_MV):]
            if key != "_" and b.setdefault(key, nv) != nv:
                return False
        elif pv != nv:
            return False
    return True


def find_all(root: ast.AST, pattern: str, b: dict[str, str] | None = None) -> Iterator[tuple[ast.AST, dict[str, str]]]:
    """Every node under root matching the pattern, with the bindings it needs
    (extending b, which is not modified)."""
    pat = compile_(pattern)
    base = dict(b or {})
    for n in ast.walk(root):
        if type(n) is not type(pat) and not (isinstance(pat, ast.Name) and pat.id.startswith((_MV, _MVE))):
            continue
        trial = dict(base)
        if match(pat, n, trial):
            yield n, trial


def find(root: ast.AST, pattern: str, b: dict[str, str] | None = None) -> ast.AST | None:
    """First match; on success the bindings are committed into b."""
    for n, trial in find_all(root, pattern, b):
        if b is not None:
            b.update(trial)
        return n
    return None


def has(root: ast.AST, pattern: str, b: dict[str, str] | None = None) -> bool:
    return find(root, pattern, b) is not None


def subst(text: str, b: dict[str, str]) -> str:
    """A pattern's text with the bound metavariables filled in (for messages and fact lookups)."""
    return re.sub(r"\$(\w+)", lambda m: b.get(m.group(1), m.group(0)), text)
