"""Structural patterns with metavariables, so that a rule names parameters,
attributes and callees -- never a temporary.

    P.find(fi.node, "$m |= any(($l[$i] == $l[$i + 1] for $i in range(0, len($l) - 1, 2)))", b)

`$x` stands for one identifier (bound consistently through the dict `b`, across
several patterns of one rule); `$$e` for any expression (bound by its text);
`$_` / `$$_` match without binding. Everything else must be equal as syntax
(positions, contexts and parentheses do not count).
"""

from __future__ import annotations

import ast
import re
from typing import Iterator

from .loader import norm

_MV = "MV__"
_MVE = "MVE__"
_cache: dict[str, ast.AST] = {}


def compile_(pattern: str) -> ast.AST:
    if pattern in _cache:
        return _cache[pattern]
    src = re.sub(r"\$\$(\w+)", _MVE + r"\1", pattern)
    src = re.sub(r"\$(\w+)", _MV + r"\1", src)
    try:
        node: ast.AST = ast.parse(src, mode="eval").body
    except SyntaxError:
        body = ast.parse(src).body
        if len(body) != 1:
            raise ValueError(f"pattern is not one statement: {pattern}") from None
        node = body[0]
        if isinstance(node, ast.Expr):
            node = node.value
    _cache[pattern] = node
    return node


_SKIP = {"ctx", "type_comment", "kind", "lineno", "col_offset", "end_lineno", "end_col_offset", "type_params"}


def match(pat: ast.AST, node: ast.AST, b: dict[str, str]) -> bool:
    if isinstance(pat, ast.Name) and pat.id.startswith(_MVE):
        if not isinstance(node, ast.expr):
            return False
        key = pat.id[len(_MVE):]
        if key == "_":
            return True
        t = norm(node)
        if b.setdefault("$$" + key, t) != t:
            return False
        return True
    if isinstance(pat, ast.Name) and pat.id.startswith(_MV):
        if not isinstance(node, ast.Name):
            return False
        key = pat.id[len(_MV):]
        if key == "_":
            return True
        loc = b.get("__locals__")
        if loc is not None and node.id not in loc:
            return False  # a renamed temporary is still a temporary: never a parameter, a global or a builtin
        return b.setdefault(key, node.id) == node.id
    if type(pat) is not type(node):
        return False
    if isinstance(pat, ast.Compare) and len(pat.ops) == 1 and isinstance(node, ast.Compare) and len(node.ops) == 1 and type(pat.ops[0]) in _FLIP:
        # a comparison is the same predicate written either way round
        trial = dict(b)
        if _match_fields(pat, node, trial):
            b.update(trial)
            return True
        if type(node.ops[0]) is _FLIP[type(pat.ops[0])]:
            trial = dict(b)
            if match(pat.left, node.comparators[0], trial) and match(pat.comparators[0], node.left, trial):
                b.update(trial)
                return True
        return False
    if isinstance(pat, ast.IfExp) and isinstance(node, ast.IfExp):
        # `a if c else b` is `b if not c else a`
        trial = dict(b)
        if _match_fields(pat, node, trial):
            b.update(trial)
            return True
        trial = dict(b)
        if _is_negation(pat.test, node.test, trial) and match(pat.body, node.orelse, trial) and match(pat.orelse, node.body, trial):
            b.update(trial)
            return True
        return False
    return _match_fields(pat, node, b)


_NEGATED = {ast.Eq: ast.NotEq, ast.NotEq: ast.Eq, ast.Lt: ast.GtE, ast.GtE: ast.Lt, ast.Gt: ast.LtE, ast.LtE: ast.Gt,
            ast.Is: ast.IsNot, ast.IsNot: ast.Is, ast.In: ast.NotIn, ast.NotIn: ast.In}


def _is_zero(e: ast.AST) -> bool:
    return isinstance(e, ast.Constant) and e.value == 0 and not isinstance(e.value, bool)


def _is_negation(pat: ast.AST, node: ast.AST, b: dict[str, str]) -> bool:
    """Whether `node` is the negation of the test `pat` (pattern variables bound along the way)."""
    if isinstance(pat, ast.Name) and pat.id.startswith(_MVE):
        # any test is the negation of *some* test: the slot is bound to it, negated
        key = pat.id[len(_MVE):]
        t = f"not ({norm(node)})"
        return key == "_" or b.setdefault("$$" + key, t) == t
    if isinstance(node, ast.UnaryOp) and isinstance(node.op, ast.Not) and match(pat, node.operand, b):
        return True
    if isinstance(pat, ast.UnaryOp) and isinstance(pat.op, ast.Not) and match(pat.operand, node, b):
        return True
    if isinstance(pat, ast.Compare) and len(pat.ops) == 1:
        if isinstance(node, ast.Compare) and len(node.ops) == 1 and type(node.ops[0]) is _NEGATED.get(type(pat.ops[0])):
            trial = dict(b)
            if match(pat.left, node.left, trial) and match(pat.comparators[0], node.comparators[0], trial):
                b.update(trial)
                return True
        # `e == 0` negated is the truthiness of e; `e != 0` negated is `not e` (handled above through match of Not)
        if isinstance(pat.ops[0], ast.Eq) and _is_zero(pat.comparators[0]) and match(pat.left, node, b):
            return True
    if isinstance(node, ast.Compare) and len(node.ops) == 1 and isinstance(node.ops[0], ast.Eq) and _is_zero(node.comparators[0]) and match(pat, node.left, b):
        return True
    return False


_FLIP = {ast.Lt: ast.Gt, ast.Gt: ast.Lt, ast.LtE: ast.GtE, ast.GtE: ast.LtE, ast.Eq: ast.Eq, ast.NotEq: ast.NotEq}


def _match_fields(pat: ast.AST, node: ast.AST, b: dict[str, str]) -> bool:
    for f in pat._fields:
        if f in _SKIP:
            continue
        pv, nv = getattr(pat, f, None), getattr(node, f, None)
        if isinstance(pv, list):
            if not isinstance(nv, list) or len(pv) != len(nv):
                return False
            for x, y in zip(pv, nv):
                if isinstance(x, ast.AST):
                    if not isinstance(y, ast.AST) or not match(x, y, b):
                        return False
                elif x != y:
                    return False
        elif isinstance(pv, ast.AST):
            if not isinstance(nv, ast.AST) or not match(pv, nv, b):
                return False
        elif isinstance(pv, str) and pv.startswith(_MV) and isinstance(nv, str):
            # an identifier slot that is not a Name node (arg, keyword, attr)
            key = pv[len(_MV):]
            if key != "_" and b.setdefault(key, nv) != nv:
                return False
        elif pv != nv:
            return False
    return True


def find_all(root: ast.AST, pattern: str, b: dict[str, str] | None = None) -> Iterator[tuple[ast.AST, dict[str, str]]]:
    """Every node under root matching the pattern, with the bindings it needs
    (extending b, which is not modified)."""
    pat = compile_(pattern)
    base = dict(b or {})
    for n in ast.walk(root):
        if type(n) is not type(pat) and not (isinstance(pat, ast.Name) and pat.id.startswith((_MV, _MVE))):
            continue
        trial = dict(base)
        if match(pat, n, trial):
            yield n, trial


def find(root: ast.AST, pattern: str, b: dict[str, str] | None = None) -> ast.AST | None:
    """First match; on success the bindings are committed into b."""
    for n, trial in find_all(root, pattern, b):
        if b is not None:
            b.update(trial)
        return n
    return None


def has(root: ast.AST, pattern: str, b: dict[str, str] | None = None) -> bool:
    return find(root, pattern, b) is not None


def subst(text: str, b: dict[str, str]) -> str:
    """A pattern's text with the bound metavariables filled in (for messages and fact lookups)."""
    return re.sub(r"\$(\w+)", lambda m: b.get(m.group(1), m.group(0)), text)


# ---------------------------------------------------------------------------
# Strings that compare up to the names of temporaries.
#
# A rule that says `"pair = sibling + root" in txt` or `c.subject == "len(members)"`
# means the construct, not the spelling of `pair`, `sibling`, `members`. S is a
# str that remembers the scope it was rendered in: an identifier of the *probe*
# that is neither a parameter of the function, nor a module-level or builtin
# name, is a temporary and matches any identifier (consistently within the
# probe). Exact text still matches first, so S is never stricter than str.

import builtins as _builtins

_BUILTINS = frozenset(dir(_builtins)) | {"self", "cls"}


class Scope:
    """What is *not* a temporary in a function: parameters (its own and the
    enclosing functions'), module-level names, builtins."""

    def __init__(self, fi) -> None:
        fixed = set(_BUILTINS)
        self.params = frozenset(fi.params())
        f = fi
        while f is not None:
            a = f.node.args
            for p in a.posonlyargs + a.args + a.kwonlyargs + ([a.vararg] if a.vararg else []) + ([a.kwarg] if a.kwarg else []):
                fixed.add(p.arg)
            f = f.parent
        mi = fi.module
        fixed |= set(getattr(mi, "imports", {}))
        fixed |= {q.rsplit(".", 1)[-1] for q in getattr(mi, "functions", {})} | set(getattr(mi, "functions", {}))
        fixed |= set(getattr(mi, "classes", {}))
        fixed |= set(getattr(mi, "assigns", {}))
        for n in mi.tree.body if hasattr(mi, "tree") else []:
            if isinstance(n, (ast.Import, ast.ImportFrom)):
                fixed |= {(x.asname or x.name).split(".")[0] for x in n.names}
        # identifiers that occur in the function as it stands: a probe's name that is still there means
        # itself (two sibling temporaries must not stand in for each other); only a name that has
        # vanished -- the temporary was renamed -- is read as "some temporary"
        present = set()
        top = fi
        while top.parent is not None:
            top = top.parent
        for n in ast.walk(top.node):
            if isinstance(n, ast.Name):
                present.add(n.id)
            elif isinstance(n, ast.arg):
                present.add(n.arg)
        self.fixed = frozenset(fixed | present)
        stored = set()
        for n in ast.walk(top.node):
            if isinstance(n, ast.Name) and isinstance(n.ctx, (ast.Store, ast.Del)):
                stored.add(n.id)
            elif isinstance(n, ast.ExceptHandler) and n.name:
                stored.add(n.name)
        self.locals = frozenset(stored - set(_BUILTINS))


_parse_cache: dict[str, ast.AST | None] = {}


def _parse_any(text: str) -> ast.AST | None:
    if text in _parse_cache:
        return _parse_cache[text]
    node: ast.AST | None
    try:
        node = ast.parse(text, mode="eval").body
    except SyntaxError:
        try:
            mod = ast.parse(text)
            node = mod if len(mod.body) != 1 else mod.body[0]
            if isinstance(node, ast.Expr):
                node = node.value
        except SyntaxError:
            node = None
    _parse_cache[text] = node
    return node





def _probe(text: str, scope: Scope, bare: bool = False) -> ast.AST | None:
    """The probe text as a pattern: temporaries become metavariables. A probe
    that is nothing but one vanished identifier is a pattern only for equality
    (`c.subject == "pos"`: the subject is *a* temporary), never for containment
    (where it may be a fragment of an attribute name)."""
    cache = scope.__dict__.setdefault("_probes_bare" if bare else "_probes", {})
    if text in cache:
        return cache[text]
    node = _parse_any(text)
    if node is None or isinstance(node, ast.Module):
        cache[text] = None
        return None
    node = ast.parse(text, mode="eval").body if isinstance(node, ast.expr) else ast.parse(text).body[0]
    if isinstance(node, ast.Expr):
        node = node.value
    free = False
    for n in ast.walk(node):
        if isinstance(n, ast.Name) and n.id not in scope.fixed:
            n.id = _MV + n.id
            free = True
    if isinstance(node, ast.Name) and not bare:
        free = False
    # a probe with a comparison is structural too: `a < b` also reads `b > a`
    if not free and any(isinstance(n, ast.Compare) and len(n.ops) == 1 and type(n.ops[0]) in _FLIP for n in ast.walk(node)):
        free = True
    cache[text] = node if free else None  # else: exact text already decided it
    return cache[text]


def _match_somewhere(pat: ast.AST, root: ast.AST, locals_: frozenset) -> bool:
    for n in ast.walk(root):
        if type(n) is type(pat) and match(pat, n, {"__locals__": locals_}):
            return True
    return False


class S(str):
    """str that equals / contains a probe up to the names of temporaries."""

    scope: Scope | None
    root: ast.AST | None

    def __new__(cls, text: str, scope: Scope | None = None, root: ast.AST | None = None):
        o = super().__new__(cls, text)
        o.scope = scope
        o.root = root
        return o

    def _tree(self) -> ast.AST | None:
        return self.root if self.root is not None else _parse_any(str.__str__(self))

    def __eq__(self, other) -> bool:  # type: ignore[override]
        r = str.__eq__(self, other)
        if r is True or self.scope is None or not isinstance(other, str) or isinstance(other, S):
            return r
        pat = _probe(other, self.scope, bare=True)
        tree = self._tree()
        if pat is None or tree is None or type(pat) is not type(tree):
            return False
        return match(pat, tree, {"__locals__": self.scope.locals})

    def __ne__(self, other) -> bool:  # type: ignore[override]
        return not self.__eq__(other)

    __hash__ = str.__hash__

    def __contains__(self, frag) -> bool:  # type: ignore[override]
        if str.__contains__(self, frag):
            return True
        if self.scope is None or not isinstance(frag, str):
            return False
        pat = _probe(frag, self.scope)
        tree = self._tree()
        if pat is None or tree is None:
            return False
        return _match_somewhere(pat, tree, self.scope.locals)

    def split(self, *a, **k):  # type: ignore[override]
        return [S(x, self.scope) for x in str.split(self, *a, **k)]

    def __add__(self, other):  # type: ignore[override]
        return S(str.__add__(self, other), self.scope)

    def strip(self, *a):  # type: ignore[override]
        return S(str.strip(self, *a), self.scope)


def text(fi, node: ast.AST | None = None) -> S:
    """Normalised text of a function (or of a node inside it) that compares up
    to the names of the function's temporaries."""
    n = node if node is not None else fi.node
    return S(norm(n), scope_of(fi), n)


def scope_of(fi) -> Scope:
    s = getattr(fi, "_scope", None)
    if s is None:
        s = Scope(fi)
        try:
            fi._scope = s
        except AttributeError:
            pass
    return s


def solve(root: ast.AST, patterns: list[str], b: dict[str, str] | None = None) -> tuple[list[ast.AST], dict[str, str]] | None:
    """Nodes matching all the patterns under one consistent binding (backtracking)."""
    def go(i: int, cur: dict[str, str], acc: list[ast.AST]):
        if i == len(patterns):
            return acc, cur
        for n, nb in find_all(root, patterns[i], cur):
            if any(n is x for x in acc):
                continue
            r = go(i + 1, nb, acc + [n])
            if r is not None:
                return r
        return None
    return go(0, dict(b or {}), [])


def fact(facts, text: str, pol: bool = True) -> bool:
    """Is (text, pol) among the branch facts -- compared with ==, so that the
    text matches up to a renamed temporary (set membership would hash)."""
    return any(p == pol and t == text for t, p in facts)
