"""L5 (part): which parameters a function may mutate (R-PURE).

Flow-approximate: statements are scanned in source order; a top-level
rebinding is a strong update, a nested one a weak update. Aliases flow through
assignment, attribute / subscript loads, iteration (for, enumerate, zip,
comprehensions), shallow copies (list, tuple, sorted, dict, reversed). Fresh
roots: deepcopy, constructors, literals, and the result of any other call
(assumption: btclib helpers do not return a mutable part of an argument other
than through the forms above -- listed in the evidence).
"""

from __future__ import annotations

import ast
from dataclasses import dataclass, field

from .ctx import Ctx
from .loader import FuncInfo, call_name, norm

MUTATORS = {"append", "extend", "insert", "pop", "remove", "clear", "sort", "reverse", "update", "setdefault",
            "popitem", "add", "discard", "__setitem__", "__delitem__"}
SHALLOW = {"list", "tuple", "sorted", "dict", "reversed", "iter", "set", "frozenset", "cast"}
ITER_WRAPPERS = {"enumerate", "zip", "reversed", "sorted", "list", "tuple", "iter"}
FRESH = {"deepcopy", "copy.deepcopy"}


@dataclass
class Summary:
    mutated: dict[str, list[tuple[int, str]]] = field(default_factory=dict)  # param -> [(line, how)]
    returns: set[str] = field(default_factory=set)  # params the return value may alias (top-level)


class Effects:
    def __init__(self, ctx: Ctx, depth: int = 4):
        self.ctx = ctx
        self.depth = depth
        self._memo: dict[str, Summary] = {}
        self._busy: set[str] = set()

    def summary(self, fi: FuncInfo, depth: int | None = None) -> Summary:
        d = self.depth if depth is None else depth
        q = fi.qualname
        if q in self._memo:
            return self._memo[q]
        if q in self._busy or d < 0:
            return Summary()
        self._busy.add(q)
        try:
            s = self._analyse(fi, d)
        finally:
            self._busy.discard(q)
        self._memo[q] = s
        return s

    # ------------------------------------------------------------------
    def _property_names(self, fi: FuncInfo, pname: str) -> set[str]:
        """Names of @property members of the class a parameter is annotated with."""
        ann = None
        a = fi.node.args
        for p in a.posonlyargs + a.args + a.kwonlyargs:
            if p.arg == pname and p.annotation is not None:
                ann = p.annotation
        cls = None
        if pname == "self" and fi.cls is not None:
            cls = fi.cls
        elif ann is not None:
            for sub in ast.walk(ann):
                if isinstance(sub, ast.Name):
                    tgt = self.ctx.prog.resolve_name(fi.module, sub, fi)
                    if tgt in self.ctx.prog.classes:
                        cls = self.ctx.prog.classes[tgt]
                        break
                if isinstance(sub, ast.Constant) and isinstance(sub.value, str):
                    tgt = self.ctx.prog.resolve_dotted(f"{fi.module.name}.{sub.value}")
                    if tgt in self.ctx.prog.classes:
                        cls = self.ctx.prog.classes[tgt]
                        break
        out = set()
        if cls is not None:
            for name, m in cls.methods.items():
                if any(d in ("property", "cached_property", "functools.cached_property") for d in m.decorators()):
                    out.add(name)
        return out

    def _analyse(self, fi: FuncInfo, depth: int) -> Summary:
        params = fi.params()
        alias: dict[str, set[str]] = {p: {p} for p in params}
        props = {p: self._property_names(fi, p) for p in params}
        s = Summary()

        def roots(e: ast.AST | None) -> set[str]:
            if e is None:
                return set()
            if isinstance(e, ast.Name):
                return set(alias.get(e.id, set()))
            if isinstance(e, ast.Attribute):
                if isinstance(e.value, ast.Name) and e.value.id in props and e.attr in props[e.value.id] \
                        and alias.get(e.value.id) == {e.value.id}:
                    return set()  # computed property: a fresh object
                return roots(e.value)
            if isinstance(e, ast.Subscript):
                return roots(e.value)
            if isinstance(e, ast.Starred):
                return roots(e.value)
            if isinstance(e, ast.IfExp):
                return roots(e.body) | roots(e.orelse)
            if isinstance(e, ast.BoolOp):
                r: set[str] = set()
                for v in e.values:
                    r |= roots(v)
                return r
            if isinstance(e, ast.NamedExpr):
                return roots(e.value)
            if isinstance(e, (ast.Tuple, ast.List)):
                r = set()
                for v in e.elts:
                    r |= roots(v)
                return r
            if isinstance(e, ast.Call):
                nm = norm(e.func)
                ln = call_name(e)
                if nm in FRESH or ln == "deepcopy":
                    return set()
                if ln in SHALLOW and isinstance(e.func, ast.Name):
                    r = set()
                    for a in e.args:
                        r |= roots(a)
                    return r
                if isinstance(e.func, ast.Attribute) and ln in ("get", "values", "items", "copy", "setdefault"):
                    return roots(e.func.value)
                # an in-package callee that returns (part of) a parameter
                tgt = self.ctx.resolve_call(fi, e)
                callee = self.ctx.prog.functions.get(tgt) if tgt else None
                if callee is not None and depth > 0:
                    cs = self.summary(callee, depth - 1)
                    r = set()
                    for pname in cs.returns:
                        arg = _arg_for(callee, e, pname)
                        if arg is not None:
                            r |= roots(arg)
                    return r
                return set()
            if isinstance(e, (ast.ListComp, ast.SetComp, ast.GeneratorExp)):
                bind_comp(e)
                return roots(e.elt)
            return set()

        def bind_target(t: ast.AST, r: set[str], strong: bool) -> None:
            if isinstance(t, ast.Name):
                if strong:
                    alias[t.id] = set(r)
                else:
                    alias[t.id] = alias.get(t.id, set()) | r
            elif isinstance(t, (ast.Tuple, ast.List)):
                for el in t.elts:
                    bind_target(el, r, strong)
            elif isinstance(t, ast.Starred):
                bind_target(t.value, r, strong)

        def iter_roots(it: ast.AST) -> set[str]:
            if isinstance(it, ast.Call) and call_name(it) in ITER_WRAPPERS and isinstance(it.func, ast.Name):
                r: set[str] = set()
                for a in it.args:
                    r |= iter_roots(a)
                return r
            return roots(it)

        def bind_iter(target: ast.AST, it: ast.AST) -> None:
            """for <target> in <it>: positional for zip / enumerate."""
            if isinstance(it, ast.Call) and isinstance(it.func, ast.Name) and isinstance(target, (ast.Tuple, ast.List)):
                if it.func.id == "zip" and len(it.args) == len(target.elts):
                    for t, a in zip(target.elts, it.args):
                        bind_iter(t, a)
                    return
                if it.func.id == "enumerate" and len(target.elts) == 2 and it.args:
                    bind_target(target.elts[0], set(), False)
                    bind_iter(target.elts[1], it.args[0])
                    return
            if isinstance(it, ast.Call) and isinstance(it.func, ast.Attribute) and it.func.attr == "items" \
                    and isinstance(target, (ast.Tuple, ast.List)) and len(target.elts) == 2:
                r = roots(it.func.value)
                bind_target(target.elts[0], r, False)
                bind_target(target.elts[1], r, False)
                return
            bind_target(target, iter_roots(it), False)

        def bind_comp(e: ast.AST) -> None:
            for g in e.generators:  # type: ignore[attr-defined]
                bind_iter(g.target, g.iter)

        def mutate(e: ast.AST, line: int, how: str) -> None:
            for r in roots(e):
                s.mutated.setdefault(r, []).append((line, how))

        def visit_expr(e: ast.AST | None) -> None:
            if e is None:
                return
            for n in ast.walk(e):
                if isinstance(n, (ast.ListComp, ast.SetComp, ast.GeneratorExp, ast.DictComp)):
                    bind_comp(n)
            for n in ast.walk(e):
                if isinstance(n, ast.NamedExpr):
                    bind_target(n.target, roots(n.value), False)
                if not isinstance(n, ast.Call):
                    continue
                ln = call_name(n)
                if isinstance(n.func, ast.Attribute) and ln in MUTATORS:
                    mutate(n.func.value, n.lineno, f".{ln}()")
                    continue
                if norm(n.func) in ("setattr", "object.__setattr__", "delattr") and n.args:
                    mutate(n.args[0], n.lineno, norm(n.func))
                    continue
                tgt = self.ctx.resolve_call(fi, n)
                callee = self.ctx.prog.functions.get(tgt) if tgt else None
                if callee is None and tgt in self.ctx.prog.classes:
                    callee = self.ctx.prog.lookup_method(self.ctx.prog.classes[tgt], "__init__")
                    if callee is not None:
                        # constructors: `self` is the new object
                        cs = self.summary(callee, depth - 1)
                        for pname, evs in cs.mutated.items():
                            if pname == "self":
                                continue
                            arg = _arg_for(callee, n, pname, ctor=True)
                            if arg is not None:
                                mutate(arg, n.lineno, f"passed to {tgt}() which mutates `{pname}`")
                    continue
                if callee is not None and depth > 0:
                    cs = self.summary(callee, depth - 1)
                    for pname in cs.mutated:
                        arg = _arg_for(callee, n, pname)
                        if arg is not None:
                            mutate(arg, n.lineno, f"passed to {callee.qualname}() which mutates `{pname}`")

        def visit(stmts: list[ast.stmt], top: bool) -> None:
            for st in stmts:
                if isinstance(st, (ast.FunctionDef, ast.AsyncFunctionDef, ast.ClassDef)):
                    continue
                if isinstance(st, ast.Assign):
                    visit_expr(st.value)
                    r = roots(st.value)
                    for t in st.targets:
                        if isinstance(t, (ast.Attribute, ast.Subscript)):
                            mutate(t.value, st.lineno, f"store {norm(t)[:40]}")
                        else:
                            bind_target(t, r, top)
                elif isinstance(st, ast.AnnAssign):
                    visit_expr(st.value)
                    if isinstance(st.target, (ast.Attribute, ast.Subscript)):
                        mutate(st.target.value, st.lineno, f"store {norm(st.target)[:40]}")
                    elif st.value is not None:
                        bind_target(st.target, roots(st.value), top)
                elif isinstance(st, ast.AugAssign):
                    visit_expr(st.value)
                    if isinstance(st.target, (ast.Attribute, ast.Subscript)):
                        mutate(st.target.value, st.lineno, f"augmented store {norm(st.target)[:40]}")
                    elif isinstance(st.target, ast.Name) and isinstance(st.op, ast.Add):
                        # x += [..] mutates a list in place; strings/ints/bytes/tuples are rebinding.
                        pass
                elif isinstance(st, ast.Delete):
                    for t in st.targets:
                        if isinstance(t, (ast.Attribute, ast.Subscript)):
                            mutate(t.value, st.lineno, f"del {norm(t)[:40]}")
                elif isinstance(st, (ast.For, ast.AsyncFor)):
                    visit_expr(st.iter)
                    bind_iter(st.target, st.iter)
                    visit(st.body, False)
                    visit(st.orelse, False)
                elif isinstance(st, ast.While):
                    visit_expr(st.test)
                    visit(st.body, False)
                    visit(st.orelse, False)
                elif isinstance(st, ast.If):
                    visit_expr(st.test)
                    visit(st.body, False)
                    visit(st.orelse, False)
                elif isinstance(st, (ast.With, ast.AsyncWith)):
                    for it in st.items:
                        visit_expr(it.context_expr)
                        if it.optional_vars is not None:
                            bind_target(it.optional_vars, roots(it.context_expr), False)
                    visit(st.body, top)
                elif isinstance(st, ast.Try):
                    visit(st.body, False)
                    for h in st.handlers:
                        visit(h.body, False)
                    visit(st.orelse, False)
                    visit(st.finalbody, False)
                elif isinstance(st, ast.Match):
                    visit_expr(st.subject)
                    for c in st.cases:
                        visit(c.body, False)
                elif isinstance(st, ast.Return):
                    visit_expr(st.value)
                    s.returns |= roots(st.value)
                elif isinstance(st, ast.Expr):
                    visit_expr(st.value)
                elif isinstance(st, (ast.Raise, ast.Assert)):
                    for sub in ast.iter_child_nodes(st):
                        visit_expr(sub)

        # two passes so that aliases created later in loops are seen
        visit(fi.node.body, True)
        return s


def _arg_for(callee: FuncInfo, call: ast.Call, pname: str, ctor: bool = False) -> ast.AST | None:
    """The argument expression bound to parameter pname of callee at call."""
    a = callee.node.args
    pos = [x.arg for x in a.posonlyargs + a.args]
    is_method = callee.cls is not None and pos and pos[0] in ("self", "cls") and \
        not any(d == "staticmethod" for d in callee.decorators())
    for k in call.keywords:
        if k.arg == pname:
            return k.value
    if pname in pos:
        idx = pos.index(pname)
        if is_method:
            if idx == 0:
                if ctor:
                    return None
                return call.func.value if isinstance(call.func, ast.Attribute) else None
            idx -= 1
        if idx < len(call.args) and not any(isinstance(x, ast.Starred) for x in call.args[: idx + 1]):
            return call.args[idx]
    return None
