"""L5 (part): which parameters a function may mutate (R-PURE).

Flow-approximate: statements are scanned in source order; a top-level
rebinding is a strong update, a nested one a weak update. Aliases flow through
assignment, attribute / subscript loads, iteration (for, enumerate, zip,
comprehensions), shallow copies (list, tuple, sorted, dict, reversed). Fresh
roots: deepcopy, constructors, literals, and the result of any other call
(assumption: btclib helpers do not return a mutable part of an argument other
than through the forms above -- listed in the evidence).
"""

from __future__ import annotations

import ast
from dataclasses import dataclass, field

from .ctx import Ctx
from .loader import FuncInfo, call_name, tnorm as norm

MUTATORS = {"append", "extend", "insert", "pop", "remove", "clear", "sort", "reverse", "update", "setdefault",
            "popitem", "add", "discard", "__setitem__", "__delitem__"}
SHALLOW = {"list", "tuple", "sorted", "dict", "reversed", "iter", "set", "frozenset", "cast"}
ITER_WRAPPERS = {"enumerate", "zip", "reversed", "sorted", "list", "tuple", "iter"}
FRESH = {"deepcopy", "copy.deepcopy"}


@dataclass
class Summary:
    mutated: dict[str, list[tuple[int, str]]] = field(default_factory=dict)  # param -> [(line, how)]
    returns: set[str] = field(default_factory=set)  # params the return value may alias (top-level)


class Effects:
    def __init__(self, ctx: Ctx, depth: int = 4):
        self.ctx = ctx
        self.depth = depth
        self._memo: dict[str, Summary] = {}
        self._busy: set[str] = set()

    def summary(self, fi: FuncInfo, depth: int | None = None) -> Summary:
        d = self.depth if depth is None else depth
        q = fi.qualname
        if q in self._memo:
            return self._memo[q]
        if q in self._busy or d < 0:
            return Summary()
        self._busy.add(q)
        try:
            s = self._analyse(fi, d)
        finally:
            self._busy.discard(q)
        self._memo[q] = s
        return s

    # ------------------------------------------------------------------
    def _property_names(self, fi: FuncInfo, pname: str) -> set[str]:
        """Names of @property members of the class a parameter is annotated with."""
        ann = None
        a = fi.node.args
        for p in a.posonlyargs + a.args + a.kwonlyargs:
            if p.arg == pname and p.annotation is not None:
                ann = p.annotation
        cls = None
        if pname == "self" and fi.cls is not None:
            cls = fi.cls
        elif ann is not None:
            for sub in ast.walk(ann):
                if isinstance(sub, ast.Name):
                    tgt = self.ctx.prog.resolve_name(fi.module, sub, fi)
                    if tgt in self.ctx.prog.classes:
                        cls = self.ctx.prog.classes[tgt]
                        break
                if isinstance(sub, ast.Constant) and isinstance(sub.value, str):
                    tgt = self.ctx.prog.resolve_dotted(f"{fi.module.name}.{sub.value}")
                    if tgt in self.ctx.prog.classes:
                        cls = self.ctx.prog.classes[tgt]
                        break
        out = set()
        if cls is not None:
            for name, m in cls.methods.items():
                if any(d in ("property", "cached_property", "functools.cached_property") for d in m.decorators()):
                    out.add(name)
        return out

    def _analyse(self, fi: FuncInfo, depth: int) -> Summary:
        params = fi.params()
        alias: dict[str, set[str]] = {p: {p} for p in params}
        props = {p: self._property_names(fi, p) for p in params}
        s = Summary()

        def roots(e: ast.AST | None) -> set[str]:
            if e is None:
                return set()
            if isinstance(e, ast.Name):
                return set(alias.get(e.id, set()))
            if isinstance(e, ast.Attribute):
                if isinstance(e.value, ast.Name) and e.value.id in props and e.attr in props[e.value.id] \
                        and alias.get(e.value.id) == {e.value.id}:
                    return set()  # computed property: a fresh object
                return roots(e.value)
            if isinstance(e, ast.Subscript):
                return roots(e.value)
            if isinstance(e, ast.Starred):
                return roots(e.value)
            if isinstance(e, ast.IfExp):
                return roots(e.body) | roots(e.orelse)
            if isinstance(e, ast.BoolOp):
                r: set[str] = set()
                for v in e.values:
                    r |= roots(v)
                return r
            if isinstance(e, ast.NamedExpr):
                return roots(e.value)
            if isinstance(e, (ast.Tuple, ast.List)):
                r = set()
                for v in e.elts:
                    r |= roots(v)
                return r
            if isinstance(e, ast.Call):
                nm = norm(e.func)
                ln = call_name(e)
                if nm in FRESH or ln == "deepcopy":
                    return set()
                if ln in SHALLOW and isinstance(e.func, ast.Name):
                    r = set()
                    for a in e.args:
                        r |= roots(a)
                    return r
                if isinstance(e.func, ast.Attribute) and ln in ("get", "values", "items", "copy", "setdefault"):
                    return roots(e.func.value)
                # an in-package callee that returns (part of) a parameter
                tgt = self.ctx.resolve_call(fi, e)
                callee = self.ctx.prog.functions.get(tgt) if tgt else None
                if callee is not None and depth > 0:
                    cs = self.summary(callee, depth - 1)
                    r = set()
                    for pname in cs.returns:
                        arg = _arg_for(callee, e, pname)
                        if arg is not None:
                            r |= roots(arg)
                    return r
                return set()
            if isinstance(e, (ast.ListComp, ast.SetComp, ast.GeneratorExp)):
                bind_comp(e)
                return roots(e.elt)
            return set()

        def bind_target(t: ast.AST, r: set[str], strong: bool) -> None:
            if isinstance(t, ast.Name):
                if strong:
                    alias[t.id] = set(r)
                else:
                    alias[t.id] = alias.get(t.id, set()) | r
            elif isinstance(t, (ast.Tuple, ast.List)):
                for el in t.elts:
                    bind_target(el, r, strong)
            elif isinstance(t, ast.Starred):
                bind_target(t.value, r, strong)

        def iter_roots(it: ast.AST) -> set[str]:
            if isinstance(it, ast.Call) and call_name(it) in ITER_WRAPPERS and isinstance(it.func, ast.Name):
                r: set[str] = set()
                for a in it.args:
                    r |= iter_roots(a)
                return r
            return roots(it)

        def bind_iter(target: ast.AST, it: ast.AST) -> None:
            """for <target> in <it>: positional for zip / enumerate."""
            if isinstance(it, ast.Call) and isinstance(it.func, ast.Name) and isinstance(target, (ast.Tuple, ast.List)):
                if it.func.id == "zip" and len(it.args) == len(target.elts):
                    for t, a in zip(target.elts, it.args):
                        bind_iter(t, a)
                    return
                if it.func.id == "enumerate" and len(target.elts) == 2 and it.args:
                    bind_target(target.elts[0], set(), False)
                    bind_iter(target.elts[1], it.args[0])
                    return
            if isinstance(it, ast.Call) and isinstance(it.func, ast.Attribute) and it.func.attr == "items" \
                    and isinstance(target, (ast.Tuple, ast.List)) and len(target.elts) == 2:
                r = roots(it.func.value)
                bind_target(target.elts[0], r, False)
                bind_target(target.elts[1], r, False)
                return
            bind_target(target, iter_roots(it), False)

        def bind_comp(e: ast.AST) -> None:
            for g in e.generators:  # type: ignore[attr-defined]
                bind_iter(g.target, g.iter)

        def mutate(e: ast.AST, line: int, how: str) -> None:
            for r in roots(e):
                s.mutated.setdefault(r, []).append((line, how))

        def visit_expr(e: ast.AST | None) -> None:
            if e is None:
                return
            for n in ast.walk(e):
                if isinstance(n, (ast.ListComp, ast.SetComp, ast.GeneratorExp, ast.DictComp)):
                    bind_comp(n)
            for n in ast.walk(e):
                if isinstance(n, ast.NamedExpr):
                    bind_target(n.target, roots(n.value), False)
                if not isinstance(n, ast.Call):
                    continue
                ln = call_name(n)
                if isinstance(n.func, ast.Attribute) and ln in MUTATORS:
                    mutate(n.func.value, n.lineno, f".{ln}()")
                    continue
                if norm(n.func) in ("setattr", "object.__setattr__", "delattr") and n.args:
                    mutate(n.args[0], n.lineno, norm(n.func))
                    continue
                tgt = self.ctx.resolve_call(fi, n)
                callee = self.ctx.prog.functions.get(tgt) if tgt else None
                if callee is None and tgt in self.ctx.prog.classes:
                    callee = self.ctx.prog.lookup_method(self.ctx.prog.classes[tgt], "__init__")
                    if callee is not None:
                        # constructors: `self` is the new object
                        cs = self.summary(callee, depth - 1)
                        for pname, evs in cs.mutated.items():
                            if pname == "self":
                                continue
                            arg = _arg_for(callee, n, pname, ctor=True)
                            if arg is not None:
                                mutate(arg, n.lineno, f"passed to {tgt}() which mutates `{pname}`")
                    continue
                if callee is not None and depth > 0:
                    cs = self.summary(callee, depth - 1)
                    for pname in cs.mutated:
                        arg = _arg_for(callee, n, pname)
                        if arg is not None:
                            mutate(arg, n.lineno, f"passed to {callee.qualname}() which mutates `{pname}`")

        def visit(stmts: list[ast.stmt], top: bool) -> None:
            for st in stmts:
                if isinstance(st, (ast.FunctionDef, ast.AsyncFunctionDef, ast.ClassDef)):
                    continue
                if isinstance(st, ast.Assign):
                    visit_expr(st.value)
                    r = roots(st.value)
                    for t in st.targets:
                        if isinstance(t, (ast.Attribute, ast.Subscript)):
                            mutate(t.value, st.lineno, f"store {norm(t)[:40]}")
                        else:
                            bind_target(t, r, top)
                elif isinstance(st, ast.AnnAssign):
                    visit_expr(st.value)
                    if isinstance(st.target, (ast.Attribute, ast.Subscript)):
                        mutate(st.target.value, st.lineno, f"store {norm(st.target)[:40]}")
                    elif st.value is not None:
                        bind_target(st.target, roots(st.value), top)
                elif isinstance(st, ast.AugAssign):
                    visit_expr(st.value)
                    if isinstance(st.target, (ast.Attribute, ast.Subscript)):
                        mutate(st.target.value, st.lineno, f"augmented store {norm(st.target)[:40]}")
                    elif isinstance(st.target, ast.Name) and isinstance(st.op, ast.Add):
                        # x += [..] mutates a list in place; strings/ints/bytes/tuples are rebinding.
                        pass
                elif isinstance(st, ast.Delete):
                    for t in st.targets:
                        if isinstance(t, (ast.Attribute, ast.Subscript)):
                            mutate(t.value, st.lineno, f"del {norm(t)[:40]}")
                elif isinstance(st, (ast.For, ast.AsyncFor)):
                    visit_expr(st.iter)
                    bind_iter(st.target, st.iter)
                    visit(st.body, False)
                    visit(st.orelse, False)
                elif isinstance(st, ast.While):
                    visit_expr(st.test)
                    visit(st.body, False)
                    visit(st.orelse, False)
                elif isinstance(st, ast.If):
                    visit_expr(st.test)
                    visit(st.body, False)
                    visit(st.orelse, False)
                elif isinstance(st, (ast.With, ast.AsyncWith)):
                    for it in st.items:
                        visit_expr(it.context_expr)
                        if it.optional_vars is not None:
                            bind_target(it.optional_vars, roots(it.context_expr), False)
                    visit(st.body, top)
                elif isinstance(st, ast.Try):
                    visit(st.body, False)
                    for h in st.handlers:
                        visit(h.body, False)
                    visit(st.orelse, False)
                    visit(st.finalbody, False)
                elif isinstance(st, ast.Match):
                    visit_expr(st.subject)
                    for c in st.cases:
                        visit(c.body, False)
                elif isinstance(st, ast.Return):
                    visit_expr(st.value)
                    s.returns |= roots(st.value)
                elif isinstance(st, ast.Expr):
                    visit_expr(st.value)
                elif isinstance(st, (ast.Raise, ast.Assert)):
                    for sub in ast.iter_child_nodes(st):
                        visit_expr(sub)

        # two passes so that aliases created later in loops are seen
        visit(fi.node.body, True)
        return s


def _arg_for(callee: FuncInfo, call: ast.Call, pname: str, ctor: bool = False) -> ast.AST | None:
    """The argument expression bound to parameter pname of callee at call."""
    a = callee.node.args
    pos = [x.arg for x in a.posonlyargs + a.args]
    is_method = callee.cls is not None and pos and pos[0] in ("self", "cls") and \
        not any(d == "staticmethod" for d in callee.decorators())
    for k in call.keywords:
        if k.arg == pname:
            return k.value
    if pname in pos:
        idx = pos.index(pname)
        if is_method:
            if idx == 0:
                if ctor:
                    return None
                return call.func.value if isinstance(call.func, ast.Attribute) else None
            idx -= 1
        if idx < len(call.args) and not any(isinstance(x, ast.Starred) for x in call.args[: idx + 1]):
            return call.args[idx]
    return None


# ---------------------------------------------------------------------------
BUILTIN_BASES = {
    "BaseException": [], "Exception": ["BaseException"], "ValueError": ["Exception"], "TypeError": ["Exception"],
    "RuntimeError": ["Exception"], "KeyError": ["LookupError"], "IndexError": ["LookupError"], "LookupError": ["Exception"],
    "OverflowError": ["ArithmeticError"], "ArithmeticError": ["Exception"], "ZeroDivisionError": ["ArithmeticError"],
    "UnicodeError": ["ValueError"], "UnicodeDecodeError": ["UnicodeError"], "UnicodeEncodeError": ["UnicodeError"],
    "AttributeError": ["Exception"], "RecursionError": ["RuntimeError"], "NotImplementedError": ["RuntimeError"],
    "StopIteration": ["Exception"], "OSError": ["Exception"], "AssertionError": ["Exception"], "UserWarning": ["Exception"],
    "binascii.Error": ["ValueError"], "json.JSONDecodeError": ["ValueError"], "decimal.InvalidOperation": ["ArithmeticError"],
    "InvalidOperation": ["ArithmeticError"],
}


class Raises:
    """Explicit-raise effect summaries: which exception classes may leave a
    function, through explicit `raise` statements in it and in the btclib
    functions it calls (resolved calls only), minus what enclosing handlers
    catch. Implicit raises of builtins are not modelled here."""

    def __init__(self, ctx: Ctx, depth: int = 6):
        self.ctx = ctx
        self.depth = depth
        self._memo: dict[str, frozenset[str]] = {}
        self._busy: set[str] = set()
        self._by_method: dict[str, list[FuncInfo]] | None = None

    # class hierarchy ---------------------------------------------------
    def bases(self, cls: str) -> list[str]:
        if cls in BUILTIN_BASES:
            return BUILTIN_BASES[cls]
        ci = self.ctx.prog.classes.get(cls)
        if ci is None:
            return ["Exception"]
        out = []
        for b in ci.node.bases:
            t = self.ctx.prog.resolve_name(ci.module, b)
            if t:
                out.append(t)
        return out

    def is_subclass(self, cls: str, sup: str, _d: int = 0) -> bool:
        if cls == sup:
            return True
        if _d > 10:
            return False
        return any(self.is_subclass(b, sup, _d + 1) for b in self.bases(cls))

    def caught_by(self, cls: str, handlers: list[str]) -> bool:
        return any(self.is_subclass(cls, h) for h in handlers)

    # summaries -----------------------------------------------------------
    def of(self, fi: FuncInfo, depth: int | None = None) -> frozenset[str]:
        d = self.depth if depth is None else depth
        q = fi.qualname
        if q in self._memo:
            return self._memo[q]
        if q in self._busy or d < 0:
            return frozenset()
        self._busy.add(q)
        try:
            out = self._stmts(fi, fi.node.body, d, [])
        finally:
            self._busy.discard(q)
        r = frozenset(out)
        if d == self.depth or not self._busy:
            self._memo[q] = r
        return r

    def _methods_named(self, name: str) -> list[FuncInfo]:
        if self._by_method is None:
            idx: dict[str, list[FuncInfo]] = {}
            for ci in self.ctx.prog.classes.values():
                for n, m in ci.methods.items():
                    idx.setdefault(n, []).append(m)
            self._by_method = idx
        return self._by_method.get(name, [])

    def callee_funcs(self, fi: FuncInfo, call: ast.Call) -> list[FuncInfo]:
        tgt = self.ctx.resolve_call(fi, call)
        prog = self.ctx.prog
        if tgt in prog.functions:
            return [prog.functions[tgt]]
        if tgt in prog.classes:
            out = []
            for nm in ("__init__", "__post_init__"):
                m = prog.lookup_method(prog.classes[tgt], nm)
                if m is not None:
                    out.append(m)
            return out
        # Class.method via a class-typed name (cls.parse, Sig.parse resolved above); unresolved receiver:
        if isinstance(call.func, ast.Attribute):
            cands = self._methods_named(call.func.attr)
            # accept when the name is specific enough: all candidates belong to <= 3 classes
            if 1 <= len(cands) <= 3 and not call.func.attr.startswith("__"):
                return cands
        return []

    def call_raises(self, fi: FuncInfo, call: ast.Call, d: int) -> set[str]:
        out: set[str] = set()
        if d <= 0:
            return out
        for callee in self.callee_funcs(fi, call):
            out |= self.of(callee, d - 1)
        return out

    def expr_raises(self, fi: FuncInfo, e: ast.AST | None, d: int) -> set[str]:
        out: set[str] = set()
        if e is None:
            return out
        for n in ast.walk(e):
            if isinstance(n, ast.Call):
                out |= self.call_raises(fi, n, d)
        return out

    def _raise_class(self, fi: FuncInfo, st: ast.Raise, handler_stack: list[list[str]]) -> set[str]:
        if st.exc is None:
            return {"<reraise>"}
        e = st.exc.func if isinstance(st.exc, ast.Call) else st.exc
        tgt = self.ctx.prog.resolve_name(fi.module, e, fi) or norm(e)
        fn = self.ctx.prog.functions.get(tgt)
        if fn is not None and fn.node.returns is not None:
            r = self.ctx.prog.resolve_name(fn.module, fn.node.returns, fn)
            if r:
                return {r}
        if isinstance(st.exc, ast.Name) and tgt not in self.ctx.prog.classes and tgt not in BUILTIN_BASES:
            return {"<reraise>"}  # raise e
        return {tgt}

    def _stmts(self, fi: FuncInfo, stmts: list[ast.stmt], d: int, hs: list[list[str]]) -> set[str]:
        out: set[str] = set()
        for st in stmts:
            if isinstance(st, (ast.FunctionDef, ast.AsyncFunctionDef, ast.ClassDef)):
                continue
            if isinstance(st, ast.Raise):
                out |= self._raise_class(fi, st, hs)
                out |= self.expr_raises(fi, st.exc, d)
            elif isinstance(st, ast.Try):
                body = self._stmts(fi, st.body, d, hs)
                caught_names: list[str] = []
                handler_out: set[str] = set()
                for h in st.handlers:
                    if h.type is None:
                        names = ["BaseException"]
                    else:
                        names = []
                        for e in (h.type.elts if isinstance(h.type, ast.Tuple) else [h.type]):
                            names.append(self.ctx.prog.resolve_name(fi.module, e, fi) or norm(e))
                    hb = self._stmts(fi, h.body, d, hs)
                    if "<reraise>" in hb:
                        hb.discard("<reraise>")
                        # what was caught by this handler leaves again
                        hb |= {c for c in body if self.caught_by(c, names) and not self.caught_by(c, caught_names)}
                    handler_out |= hb
                    caught_names += names
                out |= {c for c in body if not self.caught_by(c, caught_names)}
                out |= handler_out
                out |= self._stmts(fi, st.orelse, d, hs)
                out |= self._stmts(fi, st.finalbody, d, hs)
            elif isinstance(st, (ast.With, ast.AsyncWith)):
                sup: list[str] = []
                for it in st.items:
                    c = it.context_expr
                    out |= self.expr_raises(fi, c, d)
                    if isinstance(c, ast.Call) and norm(c.func).split(".")[-1] == "suppress":
                        sup += [self.ctx.prog.resolve_name(fi.module, a, fi) or norm(a) for a in c.args]
                body = self._stmts(fi, st.body, d, hs)
                out |= {c for c in body if not self.caught_by(c, sup)} if sup else body
            elif isinstance(st, (ast.If, ast.While)):
                out |= self.expr_raises(fi, st.test, d)
                out |= self._stmts(fi, st.body, d, hs)
                out |= self._stmts(fi, st.orelse, d, hs)
            elif isinstance(st, (ast.For, ast.AsyncFor)):
                out |= self.expr_raises(fi, st.iter, d)
                out |= self._stmts(fi, st.body, d, hs)
                out |= self._stmts(fi, st.orelse, d, hs)
            elif isinstance(st, ast.Match):
                out |= self.expr_raises(fi, st.subject, d)
                for c in st.cases:
                    out |= self._stmts(fi, c.body, d, hs)
            else:
                out |= self.expr_raises(fi, st, d)
        return out
