"""Finite case split of a straight-line builder function: constant propagation
of one enumerated variable (a hash type) through the branch conditions,
collecting the symbolic expressions appended to a tracked list / assigned to
tracked names. Nothing is executed; an unfoldable condition is answered by a
caller-supplied oracle or makes the case inconclusive.
"""

from __future__ import annotations

import ast
from typing import Any, Callable

from .consts import UNKNOWN
from .ctx import Ctx
from .loader import AnalysisError, FuncInfo, tnorm as norm


class Refused(Exception):
    def __init__(self, node: ast.AST):
        self.node = node


class Inconclusive(Exception):
    pass


def _assigned(stmts: list[ast.stmt]) -> set[str]:
    out = set()
    for st in stmts:
        for n in ast.walk(st):
            if isinstance(n, ast.Name) and isinstance(n.ctx, ast.Store):
                out.add(n.id)
            if isinstance(n, ast.Call) and isinstance(n.func, ast.Attribute) and n.func.attr in ("append", "extend") and isinstance(n.func.value, ast.Name):
                out.add(n.func.value.id)
            if isinstance(n, ast.AugAssign) and isinstance(n.target, ast.Name):
                out.add(n.target.id)
    return out


def run_case(ctx: Ctx, fi: FuncInfo, env: dict[str, Any], track: set[str],
             oracle: Callable[[str], bool | None] | None = None) -> dict[str, Any]:
    """Symbolic values of the tracked names at the function's (first) return.
    A tracked list is a python list of AST expressions; a tracked scalar is an
    AST expression. Raises Refused if the case ends in a raise."""
    env = dict(env)
    sym: dict[str, Any] = {}
    mi = fi.module

    def fold(e: ast.AST):
        return ctx.fold(e, mi, env)

    def run(stmts: list[ast.stmt]) -> bool:
        """returns True when a return was reached"""
        for st in stmts:
            if isinstance(st, ast.Expr) and isinstance(st.value, ast.Constant):
                continue
            if isinstance(st, (ast.Assign, ast.AnnAssign)):
                targets = st.targets if isinstance(st, ast.Assign) else [st.target]
                val = st.value
                if val is None:
                    continue
                for t in targets:
                    if isinstance(t, ast.Name):
                        if t.id in track:
                            sym[t.id] = list(val.elts) if isinstance(val, (ast.List, ast.Tuple)) else val
                        else:
                            v = fold(val)
                            if v is UNKNOWN:
                                env.pop(t.id, None)
                            else:
                                env[t.id] = v
                    else:
                        for n in ast.walk(t):
                            if isinstance(n, ast.Name):
                                env.pop(n.id, None)
                continue
            if isinstance(st, ast.AugAssign):
                if isinstance(st.target, ast.Name) and st.target.id in track and isinstance(st.op, ast.Add):
                    cur = sym.setdefault(st.target.id, [])
                    if isinstance(st.value, (ast.List, ast.Tuple)) and isinstance(cur, list):
                        cur.extend(st.value.elts)
                    elif isinstance(cur, list):
                        cur.append(st.value)
                    else:
                        sym[st.target.id] = ast.BinOp(left=cur, op=ast.Add(), right=st.value)
                elif isinstance(st.target, ast.Name):
                    env.pop(st.target.id, None)
                continue
            if isinstance(st, ast.Expr) and isinstance(st.value, ast.Call):
                c = st.value
                if isinstance(c.func, ast.Attribute) and isinstance(c.func.value, ast.Name) and c.func.value.id in track:
                    cur = sym.setdefault(c.func.value.id, [])
                    if c.func.attr == "append" and c.args:
                        cur.append(c.args[0])
                    elif c.func.attr == "extend" and c.args and isinstance(c.args[0], (ast.List, ast.Tuple)):
                        cur.extend(c.args[0].elts)
                    else:
                        raise Inconclusive(f"unrecognised update of {c.func.value.id}: {norm(c)}")
                continue
            if isinstance(st, ast.If):
                v = fold(st.test)
                if v is UNKNOWN and oracle is not None:
                    o = oracle(norm(st.test))
                    if o is not None:
                        v = o
                if v is UNKNOWN:
                    touched = _assigned(st.body) | _assigned(st.orelse)
                    if touched & track:
                        raise Inconclusive(f"condition `{norm(st.test)}` does not fold and guards a tracked value")
                    # a refusal we cannot decide: assume it passes (the refusing inputs are another rule's)
                    for n in touched:
                        env.pop(n, None)
                    continue
                if run(st.body if v else st.orelse):
                    return True
                continue
            if isinstance(st, ast.Return):
                sym["<return>"] = st.value
                return True
            if isinstance(st, ast.Raise):
                raise Refused(st)
            if isinstance(st, (ast.For, ast.While, ast.Try, ast.With)):
                touched = _assigned([st])
                if touched & track:
                    raise Inconclusive(f"tracked value updated inside {type(st).__name__}")
                for n in touched:
                    env.pop(n, None)
                continue
            if isinstance(st, (ast.Pass, ast.Expr, ast.Assert, ast.Global, ast.Nonlocal, ast.Import, ast.ImportFrom, ast.FunctionDef)):
                continue
            raise Inconclusive(f"statement {type(st).__name__}")
        return False

    run(fi.node.body)
    return sym


def subst_ifexp(ctx: Ctx, fi: FuncInfo, e: ast.AST, env: dict[str, Any], oracle=None) -> list[ast.AST]:
    """Alternatives of an expression after resolving conditional expressions
    whose test folds; an unfoldable test yields both arms."""
    if isinstance(e, ast.IfExp):
        v = ctx.fold(e.test, fi.module, env)
        if v is UNKNOWN and oracle is not None:
            o = oracle(norm(e.test))
            if o is not None:
                v = o
        if v is UNKNOWN:
            return subst_ifexp(ctx, fi, e.body, env, oracle) + subst_ifexp(ctx, fi, e.orelse, env, oracle)
        return subst_ifexp(ctx, fi, e.body if v else e.orelse, env, oracle)
    return [e]
