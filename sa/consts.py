"""L2: safe constant folding of module-level initialisers (no eval)."""

from __future__ import annotations

import ast
import operator
from typing import Any

from .loader import ModuleInfo, Program


class Unknown(Exception):
    pass


_BIN = {
    ast.Add: operator.add,
    ast.Sub: operator.sub,
    ast.Mult: operator.mul,
    ast.FloorDiv: operator.floordiv,
    ast.Mod: operator.mod,
    ast.Pow: operator.pow,
    ast.LShift: operator.lshift,
    ast.RShift: operator.rshift,
    ast.BitOr: operator.or_,
    ast.BitAnd: operator.and_,
    ast.BitXor: operator.xor,
}


class EnumMember:
    """Folded member of an Enum/IntEnum/IntFlag class."""

    def __init__(self, cls: str, name: str, value: Any):
        self.cls, self.name, self.value = cls, name, value

    def __repr__(self) -> str:
        return f"{self.cls}.{self.name}={self.value!r}"

    def __eq__(self, o: object) -> bool:
        return isinstance(o, EnumMember) and (self.cls, self.name) == (o.cls, o.name)

    def __hash__(self) -> int:
        return hash((self.cls, self.name))


class Folder:
    def __init__(self, prog: Program):
        self.prog = prog
        self._cache: dict[tuple[str, str], Any] = {}
        self._busy: set[tuple[str, str]] = set()

    # -- public ---------------------------------------------------------
    def module_const(self, modname: str, name: str) -> Any:
        key = (modname, name)
        if key in self._cache:
            return self._cache[key]
        if key in self._busy:
            raise Unknown(f"cycle {key}")
        mi = self.prog.modules.get(modname)
        if mi is None:
            raise Unknown(modname)
        if name not in mi.assigns:
            if name in mi.imports:
                tgt = self.prog.resolve_dotted(mi.imports[name])
                if "." in tgt:
                    m2, n2 = tgt.rsplit(".", 1)
                    if m2 in self.prog.modules:
                        return self.module_const(m2, n2)
            raise Unknown(f"{modname}.{name} not a module constant")
        vals = mi.assigns[name]
        if len(vals) != 1:
            raise Unknown(f"{modname}.{name} bound {len(vals)} times")
        self._busy.add(key)
        try:
            v = self.fold(vals[0], mi)
        finally:
            self._busy.discard(key)
        self._cache[key] = v
        return v

    def try_fold(self, node: ast.AST, mi: ModuleInfo, env: dict[str, Any] | None = None) -> Any:
        try:
            return self.fold(node, mi, env)
        except Unknown:
            return _UNK

    def enum_members(self, cls_qualname: str) -> dict[str, Any]:
        ci = self.prog.classes.get(cls_qualname)
        if ci is None:
            raise Unknown(cls_qualname)
        out: dict[str, Any] = {}
        env: dict[str, Any] = {}
        for st in ci.node.body:
            if isinstance(st, ast.Assign) and len(st.targets) == 1 and isinstance(st.targets[0], ast.Name):
                try:
                    v = self.fold(st.value, ci.module, env)
                except Unknown:
                    continue
                out[st.targets[0].id] = v
                env[st.targets[0].id] = v
        return out

    # -- folding --------------------------------------------------------
    def fold(self, node: ast.AST, mi: ModuleInfo, env: dict[str, Any] | None = None) -> Any:
        env = env or {}
        f = lambda n: self.fold(n, mi, env)  # noqa: E731
        if isinstance(node, ast.Constant):
            return node.value
        if isinstance(node, ast.Name):
            if node.id in env:
                return env[node.id]
            if node.id in ("True", "False", "None"):
                return {"True": True, "False": False, "None": None}[node.id]
            return self.module_const(mi.name, node.id)
        if isinstance(node, ast.Attribute):
            # module.CONST or Enum.MEMBER or Enum.MEMBER.value
            tgt = self.prog.resolve_name(mi, node)
            if tgt and "." in tgt:
                head, tail = tgt.rsplit(".", 1)
                if head in self.prog.modules:
                    return self.module_const(head, tail)
                if head in self.prog.classes:
                    mem = self.enum_members(head)
                    if tail in mem:
                        return mem[tail]
                if tail == "value":
                    return f(node.value)
            raise Unknown(ast.unparse(node))
        if isinstance(node, ast.UnaryOp):
            v = f(node.operand)
            if isinstance(node.op, ast.USub):
                return -v
            if isinstance(node.op, ast.Invert):
                return ~v
            if isinstance(node.op, ast.Not):
                return not v
            if isinstance(node.op, ast.UAdd):
                return +v
        if isinstance(node, ast.BinOp) and type(node.op) in _BIN:
            a, b = f(node.left), f(node.right)
            if isinstance(node.op, ast.Pow) and (not isinstance(b, int) or b > 4096 or b < 0):
                raise Unknown("pow")
            if isinstance(node.op, ast.LShift) and (not isinstance(b, int) or b > 4096):
                raise Unknown("shift")
            if isinstance(node.op, ast.Mult) and isinstance(a, (bytes, str, list, tuple)) and isinstance(b, int) and b > 1 << 20:
                raise Unknown("mult")
            try:
                return _BIN[type(node.op)](a, b)
            except Exception as e:  # noqa: BLE001
                raise Unknown(str(e)) from None
        if isinstance(node, ast.Tuple):
            return tuple(self._elts(node.elts, mi, env))
        if isinstance(node, ast.List):
            return list(self._elts(node.elts, mi, env))
        if isinstance(node, ast.Set):
            return frozenset(self._elts(node.elts, mi, env))
        if isinstance(node, ast.Dict):
            out: dict[Any, Any] = {}
            for k, v in zip(node.keys, node.values):
                if k is None:
                    sub = f(v)
                    if not isinstance(sub, dict):
                        raise Unknown("**")
                    out.update(sub)
                else:
                    out[f(k)] = self._fold_or_ref(v, mi, env)
            return out
        if isinstance(node, ast.Subscript):
            base = f(node.value)
            if isinstance(node.slice, ast.Slice):
                lo = f(node.slice.lower) if node.slice.lower else None
                hi = f(node.slice.upper) if node.slice.upper else None
                st = f(node.slice.step) if node.slice.step else None
                return base[lo:hi:st]
            idx = f(node.slice)
            try:
                return base[idx]
            except Exception as e:  # noqa: BLE001
                raise Unknown(str(e)) from None
        if isinstance(node, ast.Compare) and len(node.ops) == 1:
            a, b = f(node.left), f(node.comparators[0])
            op = node.ops[0]
            table = {ast.Eq: operator.eq, ast.NotEq: operator.ne, ast.Lt: operator.lt, ast.LtE: operator.le,
                     ast.Gt: operator.gt, ast.GtE: operator.ge}
            if type(op) in table:
                return table[type(op)](a, b)
            if isinstance(op, ast.In):
                return a in b
            if isinstance(op, ast.NotIn):
                return a not in b
        if isinstance(node, ast.Compare) and len(node.ops) > 1:
            left = node.left
            for op, right in zip(node.ops, node.comparators):
                if not f(ast.Compare(left=left, ops=[op], comparators=[right])):
                    return False
                left = right
            return True
        if isinstance(node, ast.BoolOp):
            if isinstance(node.op, ast.And):
                v = True
                for x in node.values:
                    v = f(x)
                    if not v:
                        return v
                return v
            v = False
            for x in node.values:
                v = f(x)
                if v:
                    return v
            return v
        if isinstance(node, ast.IfExp):
            return f(node.body) if f(node.test) else f(node.orelse)
        if isinstance(node, ast.Call):
            return self._call(node, mi, env)
        if isinstance(node, (ast.ListComp, ast.SetComp, ast.GeneratorExp, ast.DictComp)):
            return self._comp(node, mi, env)
        if isinstance(node, ast.JoinedStr):
            raise Unknown("fstring")
        if isinstance(node, ast.Starred):
            raise Unknown("starred")
        raise Unknown(type(node).__name__)

    def _fold_or_ref(self, v: ast.AST, mi: ModuleInfo, env: dict[str, Any]) -> Any:
        """Dict values may be function references; keep those as Ref."""
        try:
            return self.fold(v, mi, env)
        except Unknown:
            return Ref(ast.unparse(v), v)

    def _elts(self, elts: list[ast.expr], mi: ModuleInfo, env: dict[str, Any]) -> list[Any]:
        out = []
        for e in elts:
            if isinstance(e, ast.Starred):
                out.extend(self.fold(e.value, mi, env))
            else:
                out.append(self._fold_or_ref(e, mi, env))
        return out

    def _call(self, node: ast.Call, mi: ModuleInfo, env: dict[str, Any]) -> Any:
        f = lambda n: self.fold(n, mi, env)  # noqa: E731
        fn = node.func
        name = ast.unparse(fn)
        args = node.args
        if name == "bytes.fromhex" and len(args) == 1:
            s = f(args[0])
            if isinstance(s, str):
                try:
                    return bytes.fromhex(s)
                except ValueError:
                    raise Unknown("fromhex") from None
        if name in ("frozenset", "set", "tuple", "list", "sorted") and len(args) <= 1:
            if not args:
                return {"frozenset": frozenset(), "set": frozenset(), "tuple": (), "list": [], "sorted": []}[name]
            v = f(args[0])
            if isinstance(v, dict):
                v = list(v)
            if isinstance(v, range) and (v.stop - v.start) > 100000:
                raise Unknown("range too large to enumerate")
            if name in ("frozenset", "set"):
                return frozenset(v)
            if name == "tuple":
                return tuple(v)
            if name == "sorted":
                return sorted(v)
            return list(v)
        if name == "dict" and not args:
            return {k.arg: f(k.value) for k in node.keywords if k.arg}
        if name == "dict" and len(args) == 1:
            v = f(args[0])
            return dict(v)
        if name == "dict.fromkeys":
            keys = f(args[0])
            val = f(args[1]) if len(args) > 1 else None
            return dict.fromkeys(keys, val)
        if name in ("Decimal", "decimal.Decimal") and len(args) == 1 and not node.keywords:
            import decimal
            v0 = f(args[0])
            if isinstance(v0, (int, str)) and not isinstance(v0, bool):
                try:
                    return decimal.Decimal(v0)
                except Exception:  # noqa: BLE001
                    raise Unknown("Decimal") from None
        if name == "range":
            vals = [f(a) for a in args]
            if all(isinstance(v, int) for v in vals):
                return range(*vals)
        if name in ("any", "all") and len(args) == 1 and not node.keywords:
            v0 = f(args[0])
            if isinstance(v0, (list, tuple, set, frozenset)):
                return any(v0) if name == "any" else all(v0)
            raise Unknown(name)
        if name in ("len", "min", "max", "sum", "int", "bytes", "bool", "abs", "str") and args and not node.keywords:
            vals = [f(a) for a in args]
            try:
                if name == "bytes" and isinstance(vals[0], int) and vals[0] > 1 << 20:
                    raise Unknown("bytes")
                return {"len": len, "min": min, "max": max, "sum": sum, "int": int, "bytes": bytes, "bool": bool,
                        "abs": abs, "str": str}[name](*vals)
            except Unknown:
                raise
            except Exception as e:  # noqa: BLE001
                raise Unknown(str(e)) from None
        if isinstance(fn, ast.Attribute):
            if fn.attr == "to_bytes":
                base = f(fn.value)
                vals = [f(a) for a in args]
                kw = {k.arg: f(k.value) for k in node.keywords if k.arg}
                if isinstance(base, int):
                    try:
                        return base.to_bytes(*vals, **kw)
                    except Exception as e:  # noqa: BLE001
                        raise Unknown(str(e)) from None
            if fn.attr in ("keys", "values", "items") and not args:
                base = f(fn.value)
                if isinstance(base, dict):
                    return list(getattr(base, fn.attr)())
            if fn.attr in ("union",):
                base = f(fn.value)
                return frozenset(base).union(*[f(a) for a in args])
            if fn.attr == "encode" and not args:
                base = f(fn.value)
                if isinstance(base, str):
                    return base.encode()
            if fn.attr == "hex" and not args:
                base = f(fn.value)
                if isinstance(base, bytes):
                    return base.hex()
            if fn.attr in ("isdigit", "isalpha", "upper", "lower", "strip") and not args:
                base = f(fn.value)
                if isinstance(base, str):
                    return getattr(base, fn.attr)()
            if fn.attr in ("startswith", "endswith") and len(args) == 1:
                base = f(fn.value)
                a0 = f(args[0])
                if isinstance(base, (str, bytes)):
                    return getattr(base, fn.attr)(a0)
            if fn.attr == "get" and 1 <= len(args) <= 2:
                base = f(fn.value)
                if isinstance(base, dict):
                    return base.get(f(args[0]), f(args[1]) if len(args) == 2 else None)
            if fn.attr == "bit_length" and not args:
                base = f(fn.value)
                if isinstance(base, int):
                    return base.bit_length()
        # Enum member construction by call: Flag(3) etc -> unknown
        raise Unknown(f"call {name}")

    def _comp(self, node: ast.AST, mi: ModuleInfo, env: dict[str, Any]) -> Any:
        gens = node.generators  # type: ignore[attr-defined]
        results: list[Any] = []

        def rec(i: int, env2: dict[str, Any]) -> None:
            if i == len(gens):
                if isinstance(node, ast.DictComp):
                    results.append((self.fold(node.key, mi, env2), self._fold_or_ref(node.value, mi, env2)))
                else:
                    results.append(self.fold(node.elt, mi, env2))  # type: ignore[attr-defined]
                return
            g = gens[i]
            it = self.fold(g.iter, mi, env2)
            if isinstance(it, dict):
                it = list(it)
            if isinstance(it, range) and (it.stop - it.start) > 100000:
                raise Unknown("range too large to enumerate")
            n = 0
            for item in it:
                n += 1
                if n > 100000:
                    raise Unknown("comp size")
                e3 = dict(env2)
                self._bind(g.target, item, e3)
                if all(self.fold(c, mi, e3) for c in g.ifs):
                    rec(i + 1, e3)

        rec(0, dict(env))
        if isinstance(node, ast.DictComp):
            return dict(results)
        if isinstance(node, ast.SetComp):
            return frozenset(results)
        return list(results)

    def _bind(self, target: ast.AST, value: Any, env: dict[str, Any]) -> None:
        if isinstance(target, ast.Name):
            env[target.id] = value
        elif isinstance(target, (ast.Tuple, ast.List)):
            vals = list(value)
            if len(vals) != len(target.elts):
                raise Unknown("unpack")
            for t, v in zip(target.elts, vals):
                self._bind(t, v, env)
        else:
            raise Unknown("bind")


class Ref:
    """An unfolded reference kept inside a folded container (e.g. a handler
    function stored in a dispatch table)."""

    def __init__(self, text: str, node: ast.AST):
        self.text, self.node = text, node

    def __repr__(self) -> str:
        return f"Ref({self.text})"

    def __eq__(self, o: object) -> bool:
        return isinstance(o, Ref) and o.text == self.text

    def __hash__(self) -> int:
        return hash(self.text)


class _Unk:
    def __repr__(self) -> str:
        return "Unknown"

    def __bool__(self) -> bool:
        return False


_UNK = _Unk()
UNKNOWN = _UNK
