"""Analysis context: program + folder + call graph + common queries."""

from __future__ import annotations

import ast
from collections import deque
from typing import Callable, Iterable

from . import cfg as cfgmod
from .cfg import CFG, Node, build_cfg
from .consts import UNKNOWN, Folder
from .loader import AnalysisError, ClassInfo, FuncInfo, ModuleInfo, Program, call_name, calls_in, tnorm as norm, own_nodes, parent


class Ctx:
    def __init__(self, prog: Program | None = None):
        self.prog = prog or Program()
        self.folder = Folder(self.prog)
        self._callees: dict[str, list[tuple[ast.Call, str | None]]] = {}
        self._callers: dict[str, list[tuple[FuncInfo, ast.Call]]] | None = None
        self.touched: set[str] = set()  # functions the rules asked about (anchors of the run)
        nr = set()
        for fi in self.prog.functions.values():
            r = fi.node.returns
            if r is not None and norm(r) in ("NoReturn", "Never", "typing.NoReturn"):
                nr.add(fi.name)
        if nr != cfgmod._NORETURN_NAMES:
            cfgmod.set_noreturn_names(nr)

    def fork(self, modname: str, new_source: str) -> "Ctx":
        return Ctx(self.prog.with_source(modname, new_source))

    # -- basics -----------------------------------------------------------
    def func(self, q: str) -> FuncInfo:
        fi = self.prog.func(q)
        self.touched.add(fi.qualname)
        return fi

    def cls(self, q: str) -> ClassInfo:
        ci = self.prog.cls(q)
        self.touched.update(m.qualname for m in ci.methods.values())
        return ci

    def module(self, q: str) -> ModuleInfo:
        return self.prog.module(q)

    def cfg(self, fi: FuncInfo) -> CFG:
        self.touched.add(fi.qualname)
        g = build_cfg(fi.node)
        if g.scope is None:
            from .pattern import scope_of
            g.scope = scope_of(fi)
        return g

    def const(self, modname: str, name: str):
        try:
            return self.folder.module_const(modname, name)
        except Exception:  # noqa: BLE001
            return UNKNOWN

    def fold(self, node: ast.AST, mi: ModuleInfo, env=None):
        return self.folder.try_fold(node, mi, env)

    # -- call resolution --------------------------------------------------
    def resolve_call(self, fi: FuncInfo, call: ast.Call) -> str | None:
        """Qualified name of the callee if it is a btclib function/class or a
        dotted external name; None for computed callees."""
        return self.prog.resolve_name(fi.module, call.func, fi)

    def callees(self, fi: FuncInfo) -> list[tuple[ast.Call, str | None]]:
        r = self._callees.get(fi.qualname)
        if r is None:
            r = [(c, self.resolve_call(fi, c)) for c in calls_in(fi.node)]
            self._callees[fi.qualname] = r
        return r

    def callers(self, qualname: str) -> list[tuple[FuncInfo, ast.Call]]:
        if self._callers is None:
            idx: dict[str, list[tuple[FuncInfo, ast.Call]]] = {}
            for fi in self.prog.functions.values():
                for c, tgt in self.callees(fi):
                    if tgt is not None:
                        idx.setdefault(tgt, []).append((fi, c))
            # module-level code
            self._callers = idx
        return self._callers.get(qualname, [])

    def calls_to(self, fi: FuncInfo, *targets: str, last: bool = False) -> list[ast.Call]:
        """Calls inside ``fi`` whose resolved callee is one of ``targets``
        (qualified names), or, with last=True, whose last identifier matches."""
        out = []
        for c, tgt in self.callees(fi):
            if last:
                if call_name(c) in targets:
                    out.append(c)
            elif tgt in targets:
                out.append(c)
        return sorted(out, key=lambda c: (c.lineno, c.col_offset))

    def reaches(self, start: str, pred: Callable[[str], bool], depth: int = 4) -> list[str] | None:
        """Call-graph path from function ``start`` to a callee satisfying
        pred, within ``depth`` calls."""
        seen = {start}
        dq = deque([(start, [start])])
        while dq:
            q, path = dq.popleft()
            if len(path) > depth + 1:
                continue
            fi = self.prog.functions.get(q)
            if fi is None:
                continue
            for _c, tgt in self.callees(fi):
                if tgt is None:
                    continue
                if pred(tgt):
                    return path + [tgt]
                tgt2 = tgt
                if tgt in self.prog.classes:
                    init = self.prog.lookup_method(self.prog.classes[tgt], "__init__")
                    tgt2 = init.qualname if init else tgt
                if tgt2 in self.prog.functions and tgt2 not in seen:
                    seen.add(tgt2)
                    dq.append((tgt2, path + [tgt2]))
        return None

    # -- CFG helpers ---------------------------------------------------------
    def node_of(self, g: CFG, target: ast.AST) -> int:
        ids = g.nodes_containing(target)
        if not ids:
            raise AnalysisError(f"no CFG node for {norm(target)[:60]}")
        return ids[0]

    def unconditional(self, g: CFG, call: ast.AST) -> bool:
        """The call is evaluated whenever its CFG node is (not under an IfExp
        arm, and/or tail, or comprehension filter)."""
        ids = g.nodes_containing(call)
        if not ids:
            return False
        node = g.nodes[ids[0]]
        if cfgmod.expr_guards(call, stop=node.ast):
            return False
        # inside a comprehension/lambda body: evaluated zero or more times
        cur = parent(call)
        while cur is not None and cur is not node.ast:
            if isinstance(cur, (ast.Lambda, ast.ListComp, ast.SetComp, ast.GeneratorExp, ast.DictComp)):
                return False
            cur = parent(cur)
        return True

    def edge_outcomes(self, g: CFG, nid: int, label_kind: str) -> set[str]:
        """Outcomes reachable after taking the T/F edge of test node nid:
        'raise', 'return:<text>', 'fall' (implicit return)."""
        starts = [v for v, lab in g.succ[nid] if isinstance(lab, tuple) and lab[0] == label_kind]
        out: set[str] = set()
        seen: set[int] = set()
        dq = deque(starts)
        while dq:
            u = dq.popleft()
            if u in seen:
                continue
            seen.add(u)
            n = g.nodes[u]
            if u == g.exit_raise:
                out.add("raise")
                continue
            if u == g.exit_return:
                continue
            if isinstance(n.ast, ast.Return) and n.kind == "stmt":
                out.add("return:" + (norm(n.ast.value) if n.ast.value is not None else "None"))
            for v, lab in g.succ[u]:
                if v == g.exit_return and not (isinstance(n.ast, ast.Return) and n.kind == "stmt"):
                    out.add("fall")
                if lab == "exc" and not isinstance(n.ast, ast.Raise) and not _is_noreturn_stmt(n):
                    # implicit exception edges do not count as refusals
                    continue
                dq.append(v)
        return out

    def refusals(self, fi: FuncInfo, accept_return: Iterable[str] = ()) -> list[tuple[ast.AST, bool, Node]]:
        """Branch tests of ``fi`` one polarity of which leads only to a raise
        (or to ``return <v>`` for v in accept_return). Returns (test expr,
        refusing polarity, node)."""
        g = self.cfg(fi)
        acc = {f"return:{v}" for v in accept_return}
        out = []
        for n in g.nodes:
            if n.kind != "test":
                continue
            for kind, pol in (("T", True), ("F", False)):
                oc = self.edge_outcomes(g, n.id, kind)
                if oc and oc <= ({"raise"} | acc):
                    out.append((n.ast, pol, n))
                    # `bad = a >= b` ... `if bad: raise`: the refusing test is the condition the local names
                    if isinstance(n.ast, ast.Name):
                        from .canon import local_defs
                        d = local_defs(fi).get(n.ast.id)
                        if isinstance(d, ast.Compare) or (isinstance(d, ast.UnaryOp) and isinstance(d.op, ast.Not)):
                            neg = isinstance(d, ast.UnaryOp)
                            out.append((d.operand if neg else d, (not pol) if neg else pol, n))
        return out


def _is_noreturn_stmt(n: Node) -> bool:
    a = n.ast
    return isinstance(a, ast.Expr) and isinstance(a.value, ast.Call) and cfgmod.default_noreturn(a.value)


def names_in(node: ast.AST) -> set[str]:
    return {n.id for n in ast.walk(node) if isinstance(n, ast.Name)}


def attr_chain(node: ast.AST) -> str | None:
    parts = []
    cur = node
    while isinstance(cur, ast.Attribute):
        parts.append(cur.attr)
        cur = cur.value
    if isinstance(cur, ast.Name):
        parts.append(cur.id)
        return ".".join(reversed(parts))
    return None


def mentions(node: ast.AST, text: str) -> bool:
    """Does the expression contain a sub-expression whose normalised text is
    ``text`` (e.g. 'self.r', 'len(sig)')."""
    for sub in ast.walk(node):
        if isinstance(sub, (ast.Name, ast.Attribute, ast.Call, ast.Subscript)) and norm(sub) == text:
            return True
    return False
