"""Obligations, violations, known findings, evidence and exit codes."""

from __future__ import annotations

import json
import os
import time
from dataclasses import dataclass, field
from typing import Any

VERIF = os.path.dirname(os.path.dirname(os.path.abspath(__file__)))
EVIDENCE_DIR = os.path.join(VERIF, "evidence")
KNOWN_FILE = os.path.join(VERIF, "known_findings.json")


@dataclass
class Obligation:
    rule: str  # e.g. C05.codec_pairs
    instance: str  # stable key: qualname + construct (never a line number)
    held: bool
    site: str  # file:line (diagnostic only)
    detail: str  # what was found / what is missing
    extra: dict[str, Any] = field(default_factory=dict)
    status: str = "held"  # held | violation | known | inconclusive


class Report:
    def __init__(self, prop: str, tier: str, seed: int = 0):
        self.prop = prop
        self.tier = tier
        self.seed = seed
        self.t0 = time.time()
        self.obs: list[Obligation] = []
        self.inconclusive: list[dict[str, str]] = []
        self.controls: list[dict[str, Any]] = []
        self.errors: list[str] = []
        self.analysed: dict[str, Any] = {}
        self.notes: list[str] = []
        self.floors: dict[str, int] = {}
        self.assumptions: list[str] = []
        self.quiet = False

    # -- recording ------------------------------------------------------
    def ob(self, rule: str, instance: str, held: bool, site: str, detail: str, **extra: Any) -> bool:
        self.obs.append(Obligation(rule, instance, bool(held), site, detail, extra))
        return bool(held)

    def unknown(self, rule: str, instance: str, site: str, why: str) -> None:
        self.inconclusive.append({"rule": rule, "instance": instance, "site": site, "why": why})

    def floor(self, rule: str, n: int) -> None:
        """Minimum number of non-vacuous instances confirmed by hand."""
        self.floors[rule] = n

    def error(self, msg: str) -> None:
        self.errors.append(msg)

    def control(self, rule: str, name: str, fired: bool, note: str = "") -> None:
        self.controls.append({"rule": rule, "control": name, "fired": fired, "note": note})
        if not fired and note != "skipped":
            self.errors.append(f"positive control did not fire: {rule} / {name} {note}")

    def violations(self) -> list[Obligation]:
        return [o for o in self.obs if not o.held]

    # -- finishing ------------------------------------------------------
    def finish(self, write: bool = True) -> int:
        known = _load_known()
        counts: dict[str, int] = {}
        for o in self.obs:
            counts[o.rule] = counts.get(o.rule, 0) + 1
        for rule, n in self.floors.items():
            if counts.get(rule, 0) < n:
                self.errors.append(f"rule {rule} matched {counts.get(rule, 0)} instances, floor is {n}")
        new: list[Obligation] = []
        listed: list[Obligation] = []
        for o in self.obs:
            if o.held:
                continue
            if _is_known(known, self.prop, o):
                o.status = "known"
                listed.append(o)
            else:
                o.status = "violation"
                new.append(o)
        lines: list[str] = []
        for o in listed:
            lines.append(f"KNOWN-FINDING: property={self.prop} {o.rule} {o.instance} -- {o.detail}")
        replay_paths = []
        if new and write:
            vdir = os.path.join(EVIDENCE_DIR, "violations")
            os.makedirs(vdir, exist_ok=True)
        for k, o in enumerate(new):
            path = os.path.join(EVIDENCE_DIR, "violations", f"{self.prop}-{k}.json")
            if write:
                with open(path, "w") as f:
                    json.dump({"property": self.prop, "rule": o.rule, "instance": o.instance, "site": o.site,
                               "detail": o.detail, "extra": _jsonable(o.extra)}, f, indent=1)
            replay_paths.append(path)
            lines.append(f"{o.site} {o.rule} [{o.instance}] -- {o.detail}")
            lines.append(f"VIOLATION property={self.prop} replay={path}")
        for e in self.errors:
            lines.append(f"ANALYSIS-ERROR property={self.prop} {e}")
        if write:
            self._write_evidence(len(new), len(listed))
        if not self.quiet:
            held = sum(1 for o in self.obs if o.held)
            print(f"[{self.prop}/{self.tier}] obligations={len(self.obs)} held={held} known={len(listed)} "
                  f"violations={len(new)} inconclusive={len(self.inconclusive)} "
                  f"controls={sum(1 for c in self.controls if c['fired'])}/{len(self.controls)} "
                  f"wall={time.time() - self.t0:.2f}s")
            by_rule: dict[str, list[int]] = {}
            for o in self.obs:
                r = by_rule.setdefault(o.rule, [0, 0])
                r[0] += 1
                r[1] += int(o.held)
            for r, (n, h) in sorted(by_rule.items()):
                print(f"  {r}: {h}/{n}")
            st = getattr(self, "stability", None)
            if st:
                if "error" in st:
                    print(f"  stability pass did not run: {st['error']}")
                else:
                    print(f"  stability: {st['verdict_unchanged']}/{st['rewrites_applicable']} behaviour-preserving rewrites of {st['functions']} functions leave the verdict where it is")
                    for m in st["verdict_moved"][:5]:
                        print(f"    moved under `{m['rewrite']}` of {m['function']}: {m['moved'][:2]}")
            for c in self.controls:
                if not c["fired"]:
                    print(f"  control not fired: {c['rule']} / {c['control']} ({c['note']})")
            for ln in lines:
                print(ln)
        # a violation found is a violation even if the checker also tripped over itself
        if new:
            return 1
        return 2 if self.errors else 0

    def _write_evidence(self, n_viol: int, n_known: int) -> None:
        os.makedirs(EVIDENCE_DIR, exist_ok=True)
        held = [o for o in self.obs if o.held]
        distinct = len({(o.rule, o.instance) for o in self.obs if not o.extra.get("vacuous")})
        by_rule: dict[str, dict[str, int]] = {}
        for o in self.obs:
            d = by_rule.setdefault(o.rule, {"instances": 0, "held": 0})
            d["instances"] += 1
            d["held"] += int(o.held)
        samples = []
        seen_rules: dict[str, int] = {}
        for o in self.obs:
            k = seen_rules.get(o.rule, 0)
            if k < 3 or not o.held:
                samples.append({"rule": o.rule, "instance": o.instance, "site": o.site, "status": o.status,
                                "found": o.detail[:300]})
                seen_rules[o.rule] = k + 1
        ev = {
            "property_id": self.prop,
            "tier": self.tier,
            "seed": self.seed,
            "level": "other",
            "coverage": {
                "explanation": "static analysis of /repo's working tree (ast, own CFG, call graph, constant "
                "folding); obligations = rule instances found in the source on this run, discharged = "
                "instances on which the rule held; nothing from btclib was imported or executed. "
                + " ".join(self.notes),
                "obligations": len(self.obs),
                "discharged": len(held),
                "evaluations": len(self.obs),
                "distinct_nontrivial": distinct,
                "rule": "an instance is one (rule, construct) pair located in the source on this run; it is "
                "non-trivial when its anchor existed and at least one path / call site / table member was examined",
                "samples": samples[:80],
                "per_rule": by_rule,
                "analysed": self.analysed,
                "inconclusive": self.inconclusive[:50],
                "inconclusive_count": len(self.inconclusive),
                "controls": self.controls,
                "known_findings_reported": n_known,
                **({"stability": self.stability} if getattr(self, "stability", None) is not None else {}),
                "trusted_base": ["CPython ast", "transcribed spec tables under /verif/specs", "frozen rule tables under /verif/rules"],
                "exhaustive": False,
            },
            "assumptions": self.assumptions,
            "wall_s": round(time.time() - self.t0, 3),
            "violations": n_viol,
        }
        with open(os.path.join(EVIDENCE_DIR, f"{self.prop}.json"), "w") as f:
            json.dump(ev, f, indent=1)


def _jsonable(x: Any) -> Any:
    try:
        json.dumps(x)
        return x
    except TypeError:
        return repr(x)


def _load_known() -> list[dict[str, Any]]:
    if not os.path.exists(KNOWN_FILE):
        return []
    with open(KNOWN_FILE) as f:
        data = json.load(f)
    return [e for e in data.get("known", [])]


def _is_known(known: list[dict[str, Any]], prop: str, o: Obligation) -> bool:
    for e in known:
        if e.get("property") == prop and e.get("rule") == o.rule and e.get("instance") == o.instance:
            return True
    return False
