"""L0/L1: parse every btclib module, index functions/classes, resolve names.

Nothing here imports or executes btclib. All facts come from ``ast``.
"""

from __future__ import annotations

import ast
import hashlib
import os
from dataclasses import dataclass, field

REPO = os.environ.get("VERIF_REPO", "/repo")
PKG = "btclib"


class AnalysisError(Exception):
    """The checker (not the code) is broken: vanished anchor, parse failure."""


@dataclass
class FuncInfo:
    qualname: str  # btclib.ecc.dsa.Sig.assert_valid
    module: "ModuleInfo"
    node: ast.FunctionDef
    cls: "ClassInfo | None" = None
    parent: "FuncInfo | None" = None  # enclosing function for closures

    @property
    def name(self) -> str:
        return self.node.name

    @property
    def file(self) -> str:
        return self.module.relpath

    def params(self) -> list[str]:
        a = self.node.args
        names = [x.arg for x in a.posonlyargs + a.args]
        if a.vararg:
            names.append(a.vararg.arg)
        names += [x.arg for x in a.kwonlyargs]
        if a.kwarg:
            names.append(a.kwarg.arg)
        return names

    def decorators(self) -> list[str]:
        return [ast.unparse(d) for d in self.node.decorator_list]

    def where(self, node: ast.AST | None = None) -> str:
        n = node if node is not None else self.node
        return f"{self.file}:{getattr(n, 'lineno', 0)}"


@dataclass
class ClassInfo:
    qualname: str
    module: "ModuleInfo"
    node: ast.ClassDef
    methods: dict[str, FuncInfo] = field(default_factory=dict)

    @property
    def name(self) -> str:
        return self.node.name

    def base_names(self) -> list[str]:
        return [ast.unparse(b) for b in self.node.bases]

    def fields(self) -> list[str]:
        """Dataclass-style fields: annotated assignments in the class body,
        ClassVar excluded."""
        out = []
        for st in self.node.body:
            if isinstance(st, ast.AnnAssign) and isinstance(st.target, ast.Name):
                ann = ast.unparse(st.annotation)
                if "ClassVar" in ann:
                    continue
                out.append(st.target.id)
        return out

    def field_annotations(self) -> dict[str, str]:
        out = {}
        for st in self.node.body:
            if isinstance(st, ast.AnnAssign) and isinstance(st.target, ast.Name):
                ann = ast.unparse(st.annotation)
                if "ClassVar" in ann:
                    continue
                out[st.target.id] = ann
        return out


@dataclass
class ModuleInfo:
    name: str  # btclib.ecc.dsa
    path: str
    relpath: str  # btclib/ecc/dsa.py
    source: str
    tree: ast.Module
    digest: str
    is_pkg: bool
    imports: dict[str, str] = field(default_factory=dict)  # local -> dotted target
    functions: dict[str, FuncInfo] = field(default_factory=dict)  # local qual -> info
    classes: dict[str, ClassInfo] = field(default_factory=dict)
    assigns: dict[str, list[ast.AST]] = field(default_factory=dict)  # module-level name -> value nodes

    def func(self, local: str) -> FuncInfo:
        try:
            return self.functions[local]
        except KeyError:
            raise AnalysisError(f"anchor vanished: function {self.name}.{local}") from None

    def cls(self, local: str) -> ClassInfo:
        try:
            return self.classes[local]
        except KeyError:
            raise AnalysisError(f"anchor vanished: class {self.name}.{local}") from None


import os as _os
_FOLD_ARGS = _os.environ.get("VERIF_FOLD_ARGS", "1") == "1"
_FOLD_IFS = _os.environ.get("VERIF_FOLD_IFS", "1") == "1"


def _fold_returned_temporaries(tree: ast.AST) -> None:
    """`t = <expr>` immediately followed by `return t`, t a plain local bound nowhere else in
    the function, is read as `return <expr>`: the two spellings return the same value and no rule
    should tell them apart. (The package itself never writes the first form -- its linter folds
    it -- so on the tree as it stands this changes nothing; it is what makes a rule that reads a
    `return` indifferent to a result being given a name first.)

    Likewise `t = <expr>` immediately followed by a statement whose value is a call with `t` as
    its first argument, t bound once and read once: read as the call with `<expr>` in that place
    (94 sites of the tree as it stands; VERIF_FOLD_ARGS=0 switches this second fold off).

    And `if c: x = A` / `else: x = B` (one assignment to the same plain name in each arm, not the
    last arm of an elif chain) is read as `x = A if c else B` (22 sites; VERIF_FOLD_IFS=0)."""
    for fn in ast.walk(tree):
        if not isinstance(fn, (ast.FunctionDef, ast.AsyncFunctionDef)):
            continue
        stores: dict[str, int] = {}
        loads: dict[str, int] = {}
        for n in ast.walk(fn):
            if isinstance(n, ast.Name):
                d = stores if isinstance(n.ctx, (ast.Store, ast.Del)) else loads
                d[n.id] = d.get(n.id, 0) + 1
        params = {a.arg for a in fn.args.posonlyargs + fn.args.args + fn.args.kwonlyargs} | ({fn.args.vararg.arg} if fn.args.vararg else set()) | ({fn.args.kwarg.arg} if fn.args.kwarg else set())
        for holder in ast.walk(fn):
            for field in ("body", "orelse", "finalbody"):
                body = getattr(holder, field, None)
                if not isinstance(body, list):
                    continue
                if _FOLD_IFS and not (isinstance(holder, ast.If) and field == "orelse" and len(body) == 1):  # not the last arm of an elif chain
                    for j, st in enumerate(body):
                        if isinstance(st, ast.If) and len(st.body) == 1 and len(st.orelse) == 1 and all(isinstance(x, ast.Assign) and len(x.targets) == 1 and isinstance(x.targets[0], ast.Name) for x in (st.body[0], st.orelse[0])) \
                                and st.body[0].targets[0].id == st.orelse[0].targets[0].id:
                            new = ast.Assign(targets=[st.body[0].targets[0]], value=ast.IfExp(test=st.test, body=st.body[0].value, orelse=st.orelse[0].value), lineno=st.lineno, col_offset=st.col_offset,
                                             end_lineno=st.end_lineno, end_col_offset=st.end_col_offset)
                            ast.fix_missing_locations(new)
                            body[j] = new
                i = 0
                while i + 1 < len(body):
                    a, b = body[i], body[i + 1]
                    if isinstance(a, ast.Assign) and len(a.targets) == 1 and isinstance(a.targets[0], ast.Name) and isinstance(b, ast.Return) and isinstance(b.value, ast.Name) \
                            and b.value.id == a.targets[0].id and stores.get(b.value.id) == 1 and loads.get(b.value.id) == 1 and b.value.id not in params:
                        b.value = a.value
                        del body[i]
                        continue
                    if _FOLD_ARGS and isinstance(a, ast.Assign) and len(a.targets) == 1 and isinstance(a.targets[0], ast.Name) and isinstance(b, (ast.Assign, ast.Return, ast.Expr)) \
                            and isinstance(b.value, ast.Call) and b.value.args and isinstance(b.value.args[0], ast.Name) and b.value.args[0].id == a.targets[0].id \
                            and stores.get(a.targets[0].id) == 1 and loads.get(a.targets[0].id) == 1 and a.targets[0].id not in params:
                        b.value.args[0] = a.value
                        del body[i]
                        continue
                    i += 1


def _set_parents(tree: ast.AST) -> None:
    for node in ast.walk(tree):
        for child in ast.iter_child_nodes(node):
            child._parent = node  # type: ignore[attr-defined]


def parent(node: ast.AST) -> ast.AST | None:
    return getattr(node, "_parent", None)


class Program:
    """All modules of the package, parsed."""

    def __init__(self, repo: str = REPO, overrides: dict[str, str] | None = None):
        self.repo = repo
        self.modules: dict[str, ModuleInfo] = {}
        self.functions: dict[str, FuncInfo] = {}
        self.classes: dict[str, ClassInfo] = {}
        self.overrides = overrides or {}
        self._load()

    # -- loading --------------------------------------------------------
    def _load(self) -> None:
        root = os.path.join(self.repo, PKG)
        if not os.path.isdir(root):
            raise AnalysisError(f"{root} is not a directory")
        for dirpath, dirnames, filenames in os.walk(root):
            dirnames[:] = sorted(d for d in dirnames if d != "__pycache__")
            for fn in sorted(filenames):
                if not fn.endswith(".py"):
                    continue
                path = os.path.join(dirpath, fn)
                rel = os.path.relpath(path, self.repo)
                parts = rel[:-3].split(os.sep)
                is_pkg = parts[-1] == "__init__"
                if is_pkg:
                    parts = parts[:-1]
                name = ".".join(parts)
                if name in self.overrides:
                    src = self.overrides[name]
                else:
                    with open(path, encoding="utf-8") as f:
                        src = f.read()
                self._add_module(name, path, rel, src, is_pkg)

    def _add_module(self, name: str, path: str, rel: str, src: str, is_pkg: bool) -> None:
        try:
            tree = ast.parse(src, filename=rel)
        except SyntaxError as e:
            raise AnalysisError(f"cannot parse {rel}: {e}") from None
        _fold_returned_temporaries(tree)
        _set_parents(tree)
        mi = ModuleInfo(
            name=name,
            path=path,
            relpath=rel,
            source=src,
            tree=tree,
            digest=hashlib.sha256(src.encode()).hexdigest()[:16],
            is_pkg=is_pkg,
        )
        self.modules[name] = mi
        self._index(mi)

    def with_source(self, modname: str, new_source: str) -> "Program":
        """A program identical to this one except for one module's source.
        Used for in-memory positive controls; nothing is written to disk."""
        p = Program.__new__(Program)
        p.repo = self.repo
        p.modules = dict(self.modules)
        p.functions = {k: v for k, v in self.functions.items() if v.module.name != modname}
        p.classes = {k: v for k, v in self.classes.items() if v.module.name != modname}
        p.overrides = dict(self.overrides)
        old = self.modules[modname]
        p._add_module(modname, old.path, old.relpath, new_source, old.is_pkg)
        return p

    def _index(self, mi: ModuleInfo) -> None:
        pkg = mi.name if mi.is_pkg else mi.name.rsplit(".", 1)[0] if "." in mi.name else ""

        def resolve_rel(level: int, module: str | None) -> str:
            if level == 0:
                return module or ""
            base = pkg.split(".") if pkg else []
            if level > 1:
                base = base[: len(base) - (level - 1)]
            if module:
                base = base + module.split(".")
            return ".".join(base)

        for node in ast.walk(mi.tree):
            if isinstance(node, ast.Import):
                for a in node.names:
                    if a.asname:
                        mi.imports[a.asname] = a.name
                    else:
                        mi.imports[a.name.split(".")[0]] = a.name.split(".")[0]
            elif isinstance(node, ast.ImportFrom):
                base = resolve_rel(node.level, node.module)
                for a in node.names:
                    mi.imports[a.asname or a.name] = f"{base}.{a.name}" if base else a.name

        def visit(body: list[ast.stmt], prefix: str, cls: ClassInfo | None, par: FuncInfo | None) -> None:
            for st in body:
                if isinstance(st, (ast.FunctionDef, ast.AsyncFunctionDef)):
                    local = f"{prefix}{st.name}"
                    fi = FuncInfo(f"{mi.name}.{local}", mi, st, cls, par)  # type: ignore[arg-type]
                    st._fi = fi  # type: ignore[attr-defined]
                    # keep the first definition unless it is an @overload stub
                    decos = [ast.unparse(d) for d in st.decorator_list]
                    if local in mi.functions and any("overload" in d for d in decos):
                        continue
                    prev = mi.functions.get(local)
                    if prev is not None and not any("overload" in d for d in prev.decorators()):
                        # property setter etc: keep first, index second with suffix
                        local2 = f"{local}#{st.lineno}"
                        fi.qualname = f"{mi.name}.{local2}"
                        mi.functions[local2] = fi
                        self.functions[fi.qualname] = fi
                    else:
                        mi.functions[local] = fi
                        self.functions[fi.qualname] = fi
                        if cls is not None and prefix == f"{cls.name}.":
                            cls.methods[st.name] = fi
                    visit(st.body, f"{local}.", None, fi)
                elif isinstance(st, ast.ClassDef):
                    local = f"{prefix}{st.name}"
                    ci = ClassInfo(f"{mi.name}.{local}", mi, st)
                    mi.classes[local] = ci
                    self.classes[ci.qualname] = ci
                    visit(st.body, f"{local}.", ci, par)
                elif isinstance(st, (ast.If, ast.Try, ast.With, ast.For, ast.While)):
                    for sub in _sub_bodies(st):
                        visit(sub, prefix, cls, par)

        visit(mi.tree.body, "", None, None)

        def top_assigns(body: list[ast.stmt]) -> None:
            for st in body:
                if isinstance(st, ast.Assign):
                    for t in st.targets:
                        if isinstance(t, ast.Name):
                            mi.assigns.setdefault(t.id, []).append(st.value)
                elif isinstance(st, ast.AnnAssign) and isinstance(st.target, ast.Name) and st.value is not None:
                    mi.assigns.setdefault(st.target.id, []).append(st.value)
                elif isinstance(st, ast.AugAssign) and isinstance(st.target, ast.Name):
                    mi.assigns.setdefault(st.target.id, []).append(st)
                elif isinstance(st, (ast.If, ast.Try, ast.With)):
                    for sub in _sub_bodies(st):
                        top_assigns(sub)

        top_assigns(mi.tree.body)

    # -- lookup ---------------------------------------------------------
    def module(self, name: str) -> ModuleInfo:
        try:
            return self.modules[name]
        except KeyError:
            raise AnalysisError(f"anchor vanished: module {name}") from None

    def func(self, qualname: str) -> FuncInfo:
        try:
            return self.functions[qualname]
        except KeyError:
            raise AnalysisError(f"anchor vanished: function {qualname}") from None

    def cls(self, qualname: str) -> ClassInfo:
        try:
            return self.classes[qualname]
        except KeyError:
            raise AnalysisError(f"anchor vanished: class {qualname}") from None

    def has_func(self, qualname: str) -> bool:
        return qualname in self.functions

    def resolve_dotted(self, dotted: str, _depth: int = 0) -> str:
        """Follow re-exports: 'btclib.ecc.dsa.Sig' stays; a name imported into
        a module and re-exported resolves to its definition."""
        if _depth > 8:
            return dotted
        if dotted in self.functions or dotted in self.classes or dotted in self.modules:
            return dotted
        if "." not in dotted:
            return dotted
        head, tail = dotted.rsplit(".", 1)
        head_r = self.resolve_dotted(head, _depth + 1)
        if head_r in self.modules:
            mi = self.modules[head_r]
            if tail in mi.imports:
                return self.resolve_dotted(mi.imports[tail], _depth + 1)
            return f"{head_r}.{tail}"
        if head_r != head:
            return f"{head_r}.{tail}"
        return dotted

    def resolve_name(self, mi: ModuleInfo, expr: ast.AST, fi: FuncInfo | None = None) -> str | None:
        """Dotted target of a Name/Attribute chain seen in module ``mi``
        (import-aware); ``self.x`` inside a method resolves to Class.x."""
        parts: list[str] = []
        cur = expr
        while isinstance(cur, ast.Attribute):
            parts.append(cur.attr)
            cur = cur.value
        if not isinstance(cur, ast.Name):
            return None
        parts.append(cur.id)
        parts.reverse()
        head = parts[0]
        if head in ("self", "cls") and fi is not None:
            c = fi.cls
            f = fi
            while c is None and f.parent is not None:
                f = f.parent
                c = f.cls
            if c is not None and len(parts) >= 2:
                tgt = self.lookup_method(c, parts[1])
                if tgt is not None:
                    return ".".join([tgt.qualname] + parts[2:])
                return ".".join([c.qualname] + parts[1:])
            return None
        # local function scopes (closures)
        f = fi
        while f is not None:
            local = f.qualname[len(mi.name) + 1 :] + "." + head
            if local in mi.functions or local in mi.classes:
                return ".".join([f"{mi.name}.{local}"] + parts[1:])
            f = f.parent
        if head in mi.imports:
            return self.resolve_dotted(".".join([mi.imports[head]] + parts[1:]))
        if head in mi.functions or head in mi.classes or head in mi.assigns:
            return self.resolve_dotted(".".join([mi.name] + parts))
        return ".".join(parts)  # builtin or unknown local

    def lookup_method(self, ci: ClassInfo, name: str, _seen: frozenset = frozenset()) -> FuncInfo | None:
        if name in ci.methods:
            return ci.methods[name]
        if ci.qualname in _seen:
            return None
        for b in ci.node.bases:
            tgt = self.resolve_name(ci.module, b)
            if tgt and tgt in self.classes:
                r = self.lookup_method(self.classes[tgt], name, _seen | {ci.qualname})
                if r is not None:
                    return r
        return None

    def mro_fields(self, ci: ClassInfo) -> list[str]:
        out: list[str] = []
        for b in ci.node.bases:
            tgt = self.resolve_name(ci.module, b)
            if tgt and tgt in self.classes:
                out += self.mro_fields(self.classes[tgt])
        for f in ci.fields():
            if f not in out:
                out.append(f)
        return out

    def subclasses(self, ci: ClassInfo) -> list[ClassInfo]:
        out = []
        for c in self.classes.values():
            for b in c.node.bases:
                if self.resolve_name(c.module, b) == ci.qualname:
                    out.append(c)
                    out += self.subclasses(c)
        return out


def _sub_bodies(st: ast.stmt) -> list[list[ast.stmt]]:
    out = []
    for attr in ("body", "orelse", "finalbody"):
        b = getattr(st, attr, None)
        if b:
            out.append(b)
    for h in getattr(st, "handlers", []) or []:
        out.append(h.body)
    return out


def enclosing_function(node: ast.AST) -> ast.AST | None:
    cur = parent(node)
    while cur is not None and not isinstance(cur, (ast.FunctionDef, ast.AsyncFunctionDef, ast.Lambda)):
        cur = parent(cur)
    return cur


def enclosing_stmt(node: ast.AST) -> ast.stmt | None:
    cur: ast.AST | None = node
    while cur is not None and not isinstance(cur, ast.stmt):
        cur = parent(cur)
    return cur  # type: ignore[return-value]


def tnorm(node: ast.AST | str) -> str:
    """Plain normalised text (the engine's own comparisons are exact)."""
    if isinstance(node, str):
        return " ".join(node.split())
    return " ".join(ast.unparse(node).split())


def norm(node: ast.AST | str) -> str:
    """Normalised text of a construct. For a node inside a function the result
    is a `pattern.S`: a str that also equals / contains a probe whose only
    difference is the name of a temporary that no longer exists in the
    function (see sa/pattern.py) -- rules compare constructs, not spellings."""
    if isinstance(node, str):
        return " ".join(node.split())
    text = " ".join(ast.unparse(node).split())
    f = node
    while f is not None and not hasattr(f, "_fi"):
        f = getattr(f, "_parent", None)
    if f is None:
        return text
    from .pattern import S, scope_of
    return S(text, scope_of(f._fi), node)


def own_nodes(fn: ast.AST):
    """Walk a function body without descending into nested defs/classes
    (lambdas and comprehensions are part of the function)."""
    stack = list(ast.iter_child_nodes(fn))
    while stack:
        n = stack.pop()
        yield n
        if isinstance(n, (ast.FunctionDef, ast.AsyncFunctionDef, ast.ClassDef)):
            continue
        stack.extend(ast.iter_child_nodes(n))


def calls_in(fn: ast.AST) -> list[ast.Call]:
    return [n for n in own_nodes(fn) if isinstance(n, ast.Call)]


def call_name(call: ast.Call) -> str:
    """Last identifier of the callee expression: f(...) -> f, a.b.c(...) -> c."""
    f = call.func
    if isinstance(f, ast.Attribute):
        return f.attr
    if isinstance(f, ast.Name):
        return f.id
    return ""
