"""Behaviour-preserving rewrites of one function, made on the source text in
memory (nothing is written to disk, nothing is executed): every local renamed,
every two-operand comparison written the other way round, every refusing
comparison put behind a name. A rule that decides a property of the code -- and
not of its spelling -- gives the same verdict on each."""

from __future__ import annotations

import ast

def renamed_source(src: str, fnode: ast.AST) -> str | None:
    """src with the locals of fnode renamed; None when it has none to rename."""
    # the function as the source spells it, not the loader's reading of it (which folds a few
    # spellings into one and so no longer holds every occurrence of a name)
    for cand in ast.walk(ast.parse(src)):
        if isinstance(cand, type(fnode)) and cand.lineno == fnode.lineno and cand.name == fnode.name:
            fnode = cand
            break
    params, excl = set(), set()
    for n in ast.walk(fnode):
        if isinstance(n, ast.arg):
            (params if n in _own_args(fnode) else excl).add(n.arg)
        elif isinstance(n, (ast.Global, ast.Nonlocal)):
            excl |= set(n.names)
        elif isinstance(n, ast.ExceptHandler) and n.name:
            excl.add(n.name)
        elif isinstance(n, (ast.MatchAs, ast.MatchStar)) and n.name:
            excl.add(n.name)
        elif isinstance(n, ast.MatchMapping) and n.rest:
            excl.add(n.rest)
        elif isinstance(n, (ast.FunctionDef, ast.AsyncFunctionDef, ast.ClassDef)) and n is not fnode:
            excl.add(n.name)
        elif isinstance(n, (ast.Import, ast.ImportFrom)):
            excl |= {(a.asname or a.name).split(".")[0] for a in n.names}
    stored = {n.id for n in ast.walk(fnode) if isinstance(n, ast.Name) and isinstance(n.ctx, (ast.Store, ast.Del))}
    names = stored - params - excl
    if not names:
        return None
    lines = src.splitlines(keepends=True)
    edits = []
    for n in ast.walk(fnode):
        if isinstance(n, ast.Name) and n.id in names:
            edits.append((n.lineno, n.col_offset, n.end_col_offset, n.id))
    # ast columns are utf-8 byte offsets
    by_line = {}
    for ln, c0, c1, name in edits:
        by_line.setdefault(ln, []).append((c0, c1, name))
    for ln, es in by_line.items():
        b = lines[ln - 1].encode()
        for c0, c1, name in sorted(set(es), reverse=True):
            if b[c0:c1].decode() != name:
                return None  # f-string positions etc.: skip this function rather than guess
            b = b[:c0] + (name + "_rn").encode() + b[c1:]
        lines[ln - 1] = b.decode()
    return "".join(lines)


FLIP = {ast.Lt: ast.Gt, ast.Gt: ast.Lt, ast.LtE: ast.GtE, ast.GtE: ast.LtE, ast.Eq: ast.Eq, ast.NotEq: ast.NotEq}


def flipped_source(src: str, fnode: ast.AST) -> str | None:
    """src with every two-operand comparison of fnode written the other way
    round (`a < b` -> `b > a`, `a == b` -> `b == a`): the same predicate."""
    mod = ast.parse(src)
    target = None
    for n in ast.walk(mod):
        if isinstance(n, type(fnode)) and n.lineno == fnode.lineno and n.name == fnode.name:
            target = n
    if target is None:
        return None
    changed = False

    class T(ast.NodeTransformer):
        def visit_Compare(self, n: ast.Compare):
            nonlocal changed
            self.generic_visit(n)
            if len(n.ops) == 1 and type(n.ops[0]) in FLIP and not isinstance(n.left, ast.Constant) or \
                    (len(n.ops) == 1 and type(n.ops[0]) in FLIP and not isinstance(n.comparators[0], ast.Constant)):
                changed = True
                return ast.Compare(left=n.comparators[0], ops=[FLIP[type(n.ops[0])]()], comparators=[n.left])
            return n

    T().visit(target)
    if not changed:
        return None
    ast.fix_missing_locations(target)
    text = ast.unparse(target)
    first = min([target.lineno] + [d.lineno for d in target.decorator_list])
    indent = " " * target.col_offset
    lines = src.splitlines(keepends=True)
    new = "".join(indent + l + "\n" for l in text.splitlines())
    return "".join(lines[: first - 1]) + new + "".join(lines[target.end_lineno:])


def named_cond_source(src: str, fnode: ast.AST) -> str | None:
    """src with every refusing `if <comparison>: ... raise` of fnode rewritten as
    `cond_k = <comparison>` / `if cond_k: ...`: the same refusal behind a name."""
    mod = ast.parse(src)
    target = None
    for n in ast.walk(mod):
        if isinstance(n, type(fnode)) and n.lineno == fnode.lineno and n.name == fnode.name:
            target = n
    if target is None:
        return None
    k = 0

    def rewrite(body: list[ast.stmt]) -> list[ast.stmt]:
        nonlocal k
        out = []
        for st in body:
            for f in ("body", "orelse", "finalbody"):
                if hasattr(st, f) and isinstance(getattr(st, f), list) and not isinstance(st, (ast.FunctionDef, ast.AsyncFunctionDef, ast.ClassDef)):
                    setattr(st, f, rewrite(getattr(st, f)))
            if isinstance(st, ast.Try):
                for h in st.handlers:
                    h.body = rewrite(h.body)
            if isinstance(st, ast.If) and isinstance(st.test, ast.Compare) and not st.orelse and st.body and isinstance(st.body[-1], ast.Raise) \
                    and not any(isinstance(x, ast.NamedExpr) for x in ast.walk(st.test)):
                k += 1
                name = f"cond_{k}"
                out.append(ast.Assign(targets=[ast.Name(id=name, ctx=ast.Store())], value=st.test, lineno=st.lineno))
                st.test = ast.Name(id=name, ctx=ast.Load())
            out.append(st)
        return out

    target.body = rewrite(target.body)
    if not k:
        return None
    ast.fix_missing_locations(target)
    text = ast.unparse(target)
    first = min([target.lineno] + [d.lineno for d in target.decorator_list])
    indent = " " * target.col_offset
    lines = src.splitlines(keepends=True)
    new = "".join(indent + l + "\n" for l in text.splitlines())
    return "".join(lines[: first - 1]) + new + "".join(lines[target.end_lineno:])


def _own_args(fnode):
    a = fnode.args
    return set(a.posonlyargs + a.args + a.kwonlyargs + ([a.vararg] if a.vararg else []) + ([a.kwarg] if a.kwarg else []))


def extracted_source(src: str, fnode: ast.AST) -> str | None:
    """src with fnode restructured without changing what it computes: every `return <expr>`
    becomes `ret_k = <expr>` / `return ret_k`; the first argument of a call that is itself a
    call, an operation or a subscript is given a name on the line before (it is the first thing
    the call evaluates, so the order of evaluation stays); `x = a if c else b` becomes an
    `if` statement."""
    mod = ast.parse(src)
    target = None
    for n in ast.walk(mod):
        if isinstance(n, type(fnode)) and n.lineno == fnode.lineno and n.name == fnode.name:
            target = n
    if target is None:
        return None
    k = 0

    def simple_callee(f: ast.AST) -> bool:
        return isinstance(f, ast.Name) or (isinstance(f, ast.Attribute) and simple_callee(f.value))

    def rewrite(body: list[ast.stmt]) -> list[ast.stmt]:
        nonlocal k
        out: list[ast.stmt] = []
        for st in body:
            for f in ("body", "orelse", "finalbody"):
                if hasattr(st, f) and isinstance(getattr(st, f), list) and not isinstance(st, (ast.FunctionDef, ast.AsyncFunctionDef, ast.ClassDef)):
                    setattr(st, f, rewrite(getattr(st, f)))
            if isinstance(st, ast.Try):
                for h in st.handlers:
                    h.body = rewrite(h.body)
            if any(isinstance(x, (ast.NamedExpr, ast.Yield, ast.YieldFrom, ast.Await)) for x in ast.walk(st)):
                out.append(st)
                continue
            if isinstance(st, ast.Assign) and len(st.targets) == 1 and isinstance(st.targets[0], ast.Name) and isinstance(st.value, ast.IfExp):
                k += 1
                t = st.targets[0]
                out.append(ast.If(test=st.value.test, body=[ast.Assign(targets=[ast.Name(id=t.id, ctx=ast.Store())], value=st.value.body, lineno=st.lineno)],
                                  orelse=[ast.Assign(targets=[ast.Name(id=t.id, ctx=ast.Store())], value=st.value.orelse, lineno=st.lineno)], lineno=st.lineno))
                continue
            val = st.value if isinstance(st, (ast.Assign, ast.Return, ast.Expr)) else None
            if isinstance(val, ast.Call) and simple_callee(val.func) and val.args and isinstance(val.args[0], (ast.Call, ast.BinOp, ast.Subscript)) \
                    and not any(isinstance(a, ast.Starred) for a in val.args):
                k += 1
                name = f"arg_{k}"
                out.append(ast.Assign(targets=[ast.Name(id=name, ctx=ast.Store())], value=val.args[0], lineno=st.lineno))
                val.args[0] = ast.Name(id=name, ctx=ast.Load())
            if isinstance(st, ast.Return) and st.value is not None and not isinstance(st.value, (ast.Name, ast.Constant)):
                k += 1
                name = f"ret_{k}"
                out.append(ast.Assign(targets=[ast.Name(id=name, ctx=ast.Store())], value=st.value, lineno=st.lineno))
                st.value = ast.Name(id=name, ctx=ast.Load())
            out.append(st)
        return out

    target.body = rewrite(target.body)
    if not k:
        return None
    ast.fix_missing_locations(target)
    text = ast.unparse(target)
    first = min([target.lineno] + [d.lineno for d in target.decorator_list])
    indent = " " * target.col_offset
    lines = src.splitlines(keepends=True)
    new = "".join(indent + l + "\n" for l in text.splitlines())
    return "".join(lines[: first - 1]) + new + "".join(lines[target.end_lineno:])


TRANSFORMS = {"rename": renamed_source, "flip": flipped_source, "name": named_cond_source, "extract": extracted_source}
