"""C17 -- block commitments: merkle roots, proofs, filters, compact blocks, targets.

Roots, filters and targets are values: not decided. Decided: a block is valid
only past every check of the gate, root and commitment mismatches and the
duplicated-tail mutation are refused; a merkle branch refuses a negative
index, a right child equal to its sibling and a residual index; the compact
target codec's comparison-only rows; retarget clamps; BIP158 parameters;
compact-block constants.
"""

from __future__ import annotations

import ast

from sa import mutate as M
from sa.consts import UNKNOWN
from sa import pattern as PT
from sa import values as VX
from sa.ctx import Ctx
from sa.effects import Raises
from sa.loader import AnalysisError, call_name, norm, own_nodes, parent
from sa.ranges import has, has_bound, refusal_constraints
from sa.report import Report

NOTES = ("C17: decides the block validity gate, root/commitment/mutation refusals, merkle-branch refusals, compact-target "
         "corner rows, retarget clamps, BIP158 parameters and compact-block constants; the merkle root, filter contents "
         "and target values themselves are not decided.")
BL = "btclib.block.block"
H = "btclib.hashes"
PW = "btclib.block.proof_of_work"


def rule_block_gate(ctx: Ctx, rep: Report) -> None:
    """C17.block_gate: Block.assert_valid passes through every check on every path to return."""
    rule = "C17.block_gate"
    av = ctx.func(f"{BL}.Block.assert_valid")
    g = ctx.cfg(av)
    need = ["self.header.assert_valid", "self.header.assert_valid_pow", "self.assert_valid_length", "self._assert_coinbase", "self.transactions[0].assert_valid",
            "self.assert_valid_sig_op_count", "self.assert_valid_merkle_root", "self.assert_valid_witness_commitment"]
    for nm in need:
        cs = [c for c in own_nodes(av.node) if isinstance(c, ast.Call) and norm(c.func) == nm and ctx.unconditional(g, c)]
        ok = bool(cs) and g.must_pass([i for c in cs for i in g.nodes_containing(c)]) is None
        rep.ob(rule, nm.replace("self.", ""), ok, av.where(), "on every path to a normal return" if ok else f"a block can be declared valid without {nm}()")
    loop = [n for n in own_nodes(av.node) if isinstance(n, ast.For) and norm(n.iter) == "self.transactions[1:]"]
    okl = bool(loop) and any(isinstance(s, ast.Expr) and norm(s) == f"{norm(loop[0].target)}.assert_valid()" for s in loop[0].body)
    rep.ob(rule, "every_tx_validated", okl, av.where(), "every transaction after the coinbase is validated")
    rep.ob(rule, "one_coinbase", bool(loop) and any(isinstance(s, ast.If) and "is_coinbase" in norm(s.test) for s in loop[0].body), av.where(), "a second coinbase is refused")
    mr = ctx.func(f"{BL}.Block.assert_valid_merkle_root")
    cs = refusal_constraints(ctx, mr)
    rep.ob(rule, "merkle_root:mismatch", any(c.op == "!=" and "self.header.merkle_root" in c.subject + c.value_text for c in cs), mr.where(), "root != header root refused")
    rep.ob(rule, "merkle_root:mutated", any(c.subject == "mutated" and c.op == "truthy" for c in cs), mr.where(), "a duplicated-tail mutation is refused")
    wc = ctx.func(f"{BL}.Block.assert_valid_witness_commitment")
    cw = refusal_constraints(ctx, wc)
    rep.ob(rule, "witness:without_commitment", any(c.subject == "commitment" and c.op == "is" for c in cw), wc.where(), "witness data without a commitment refused")
    vx = VX.of(wc)
    mw: dict[str, str] = {}
    mismatch = vx.anywhere("_HF($$root + $$ws[0]) != $$c", mw) and "commitment" in mw.get("$$c", "")
    rep.ob(rule, "witness:mismatch", mismatch and any(c.op == "!=" for c in cw), wc.where(), "commitment mismatch refused")
    rep.ob(rule, "witness:nonce_shape", any("len(witness_stack)" in c.subject and c.op == "!=" and c.value == 1 for c in cw) and any("len(witness_stack[0])" in c.subject and c.value == 32 for c in cw), wc.where(), "exactly one 32-byte witness nonce")
    txt = PT.text(wc)
    root = mw.get("$$root", "")
    rep.ob(rule, "witness:coinbase_zero_hash", ("[b'\\x00' * 32] + [" in root or "[bytes(32)] + [" in root) and "self.transactions[1:]" in root and "include_witness=True" in root, wc.where(), "the coinbase's wtxid is 32 zero bytes")
    rep.ob(rule, "witness:commitment_hash", mismatch and "merkle_root_and_mutated_from_hashes(" in root, wc.where(), "commitment = hash(witness root || nonce)")
    rep.ob(rule, "commitment_prefix", ctx.const(BL, "_COMMITMENT_PREFIX") == bytes.fromhex("6a24aa21a9ed"), "btclib/block/block.py:1", "OP_RETURN 0x24 0xaa21a9ed")

BF = "btclib.block.block_filter"


def _anc(n: ast.AST):
    n = parent(n)
    while n is not None:
        yield n
        n = parent(n)


def rets_of(fi) -> list[ast.Return]:
    return [r for r in own_nodes(fi.node) if isinstance(r, ast.Return) and r.value is not None]


def rule_merkle(ctx: Ctx, rep: Report) -> None:
    """C17.merkle: tree construction shape and branch refusals."""
    rule = "C17.merkle"
    from sa import pattern as P
    mh = ctx.func(f"{H}.merkle_root_and_mutated_from_hashes")
    hashes_p, hf_p = mh.params()[:2]
    b: dict[str, str] = {}
    loops = [w for w in own_nodes(mh.node) if isinstance(w, ast.While)]
    step = P.find(mh.node, f"$l = [{hf_p}($l[$k] + $l[$k + 1]) for $k in range(0, len($l), 2)]", b)
    rep.ob(rule, "tree:pairs_hashed", step is not None, mh.where(step), "each level is hf(left || right) over consecutive pairs")
    lvl = b.get("l", "?")
    rep.ob(rule, "tree:empty_refused", has(refusal_constraints(ctx, mh), lvl, "falsy") is not None or has(refusal_constraints(ctx, mh), hashes_p, "falsy") is not None, mh.where(), "an empty list has no root")
    mut = P.find(mh.node, "$m |= any(($l[$i] == $l[$i + 1] for $i in range(0, len($l) - 1, 2)))", b) or \
        P.find(mh.node, "$m = $m or any(($l[$i] == $l[$i + 1] for $i in range(0, len($l) - 1, 2)))", b)
    rets = [r for r in own_nodes(mh.node) if isinstance(r, ast.Return) and isinstance(r.value, ast.Tuple) and len(r.value.elts) == 2]
    rep.ob(rule, "tree:mutation_detected", mut is not None and bool(rets) and all(norm(r.value.elts[1]) == b.get("m") for r in rets), mh.where(mut),
           "equal pairs of a level are flagged, and the flag is what is handed back")
    dup = P.find(mh.node, "if len($l) % 2:\n    $l.append($l[-1])", b) or P.find(mh.node, "if len($l) % 2 == 1:\n    $l.append($l[-1])", b) \
        or P.find(mh.node, "if len($l) % 2 != 0:\n    $l.append($l[-1])", b) or P.find(mh.node, "if len($l) & 1:\n    $l.append($l[-1])", b)
    rep.ob(rule, "tree:odd_tail_duplicated", dup is not None, mh.where(dup), "odd levels duplicate their last hash")

    def top(n):
        while n is not None and parent(n) not in loops:
            n = parent(n)
        return n
    order = [top(x) for x in (mut, dup, step)]
    ok_order = all(x is not None for x in order) and len(loops) == 1 and [loops[0].body.index(x) for x in order] == sorted(loops[0].body.index(x) for x in order) \
        and len({id(x) for x in order}) == 3
    rep.ob(rule, "tree:order", ok_order, mh.where(), "flag, then duplicate the odd tail, then hash pairs")
    mb = ctx.func(f"{H}.merkle_root_from_branch")
    leaf_p, branch_p, index_p, hf2_p = mb.params()[:4]
    cs = refusal_constraints(ctx, mb)
    g = ctx.cfg(mb)
    rep.ob(rule, "branch:negative_index", has_bound(cs, "<", 0, subject=index_p) is not None, mb.where(), "negative index refused")
    b2: dict[str, str] = {}
    right = P.find(mb.node, "$pair = $sib + $root", b2)
    left = P.find(mb.node, "$pair = $root + $sib", b2)
    hashed = P.find(mb.node, f"$root = {hf2_p}($pair)", b2)
    halved = P.find(mb.node, f"{index_p} //= 2") or P.find(mb.node, f"{index_p} = {index_p} // 2") or P.find(mb.node, f"{index_p} >>= 1")
    fors = [f for f in own_nodes(mb.node) if isinstance(f, ast.For) and norm(f.iter) == branch_p]
    in_loop = bool(fors) and all(x is not None and any(a is fors[0] for a in _anc(x)) for x in (right, left, hashed, halved))
    rep.ob(rule, "branch:pair_order", in_loop and norm(rets_of(mb)[0].value) == b2.get("root") if rets_of(mb) else False, mb.where(right),
           "per step of the branch: odd index -> sibling||node, even -> node||sibling; the node becomes hf(pair), the index halves; the last node is handed back")
    odd = {f"{index_p} % 2", f"{index_p} & 1"}
    rep.ob(rule, "branch:odd_is_right", right is not None and left is not None and any(t in odd and p for t, p in g.facts_at_ast(right.value)) and any(t in odd and not p for t, p in g.facts_at_ast(left.value)),
           mb.where(right), "the node is the right child exactly when the index is odd")
    sib, root = b2.get("sib", "?"), b2.get("root", "?")
    eq = [c for c in cs if c.op == "==" and {c.subject, c.value_text.split(" |")[0]} == {sib, root}]
    rep.ob(rule, "branch:right_child_equal_sibling", bool(eq) and any(t in odd and p for t, p in eq[0].facts), mb.where(), "a right child equal to its sibling is refused")
    # the residual index is looked at after the last step, not inside the loop
    res = [c for c in cs if c.subject == index_p and c.op == "truthy" and not c.from_fact and not (fors and any(a is fors[0] for a in _anc(c.node)))]
    rep.ob(rule, "branch:residual_index", bool(res), mb.where(), "an index too high for the branch is refused")
    pa = ctx.func("btclib.block.merkle_proof.assert_as_valid")
    cp = refusal_constraints(ctx, pa)
    rep.ob(rule, "proof:root_compared", any(c.op == "!=" and "computed" in c.subject and c.value_text == "root" for c in cp), pa.where(), "computed root != given root refused")
    call = [c for c in own_nodes(pa.node) if isinstance(c, ast.Call) and call_name(c) == "merkle_root_from_branch"]
    rep.ob(rule, "proof:inner_node_check", bool(call) and any(norm(a) == "_assert_inner_node_is_not_a_tx" for a in call[0].args), pa.where(), "64-byte inner nodes that parse as transactions are refused")
    R = Raises(ctx)
    v = ctx.func("btclib.block.merkle_proof.verify")
    esc = {x for x in R.of(v) if not R.is_subclass(x, "TypeError")}
    rep.ob(rule, "proof:verify_total", not esc, v.where(), "verify answers True/False" if not esc else f"may raise {sorted(esc)}")


def rule_pow(ctx: Ctx, rep: Report) -> None:
    """C17.pow: compact target corner rows, retarget clamps, work."""
    rule = "C17.pow"
    rep.ob(rule, "masks", ctx.const(PW, "_SIGNIFICAND_MASK") == 0x007FFFFF and ctx.const(PW, "_SIGNIFICAND_SIGN_BIT") == 0x00800000, "btclib/block/proof_of_work.py:1", "mantissa mask 0x007fffff, sign bit 0x00800000")
    rep.ob(rule, "timespan", ctx.const(PW, "POW_TARGET_TIMESPAN") == 1209600 and ctx.const(PW, "POW_TARGET_SPACING") == 600 and ctx.const(PW, "DIFFICULTY_ADJUSTMENT_INTERVAL") == 2016, "btclib/block/proof_of_work.py:1", "two weeks / ten minutes / 2016")
    rep.ob(rule, "limits", ctx.const(PW, "MAINNET_POW_LIMIT_BITS") == bytes.fromhex("1d00ffff") and ctx.const(PW, "REGTEST_POW_LIMIT_BITS") == bytes.fromhex("207fffff"), "btclib/block/proof_of_work.py:1", "0x1d00ffff / 0x207fffff")
    vb = ctx.func(f"{PW}._value_from_bits")
    txt = PT.text(vb)
    vx = VX.of(vb)
    bb: dict[str, str] = {}
    piv_ok = any(vx.returns(p_, bb) for p_ in ("$$s >> 8 * (3 - $$e) if $$e < 3 else $$s << 8 * ($$e - 3)", "$$s >> 8 * (3 - $$e) if $$e <= 3 else $$s << 8 * ($$e - 3)",
                                                "$$s << 8 * ($$e - 3) if $$e > 3 else $$s >> 8 * (3 - $$e)", "$$s << 8 * ($$e - 3) if $$e >= 3 else $$s >> 8 * (3 - $$e)"))
    rep.ob(rule, "decode:pivot", piv_ok, vb.where(), "shift right below 3, left above (equal at 3)")
    rep.ob(rule, "decode:mask", piv_ok and "& _SIGNIFICAND_MASK" in bb.get("$$s", "") and bb.get("$$e", "").endswith("[0]"), vb.where(), "the sign bit is masked off the mantissa")
    tb = ctx.func(f"{PW}.target_from_bits")
    ts = ctx.const(PW, "TARGET_SIZE")
    ct = refusal_constraints(ctx, tb)
    rep.ob(rule, "decode:overflow", ts == 32 and any(c.subject == "value" and c.op == ">=" and (c.value == 256**32) for c in ct), tb.where(), "value >= 2^256 refused")
    bt = ctx.func(f"{PW}.bits_from_target")
    txt = PT.text(bt)
    vx = VX.of(bt)
    rep.ob(rule, "encode:exponent", vx.anywhere("($$v.bit_length() + 7) // 8") or vx.anywhere("-(-$$v.bit_length() // 8)") or vx.anywhere("(7 + $$v.bit_length()) // 8"), bt.where(), "exponent = byte length of the value")
    me: dict[str, str] = {}
    vxb = VX.of(bt)
    piv = any(vxb.anywhere(p_) for p_ in ("$$v << 8 * (3 - $$e) if $$e <= 3 else $$v >> 8 * ($$e - 3)", "$$v << 8 * (3 - $$e) if $$e < 3 else $$v >> 8 * ($$e - 3)",
                                         "$$v >> 8 * ($$e - 3) if $$e > 3 else $$v << 8 * (3 - $$e)", "$$v >> 8 * ($$e - 3) if $$e >= 3 else $$v << 8 * (3 - $$e)"))
    rep.ob(rule, "encode:pivot", piv, bt.where(), "shift left at or below 3, right above")
    sb = PT.find(bt.node, "if $s & _SIGNIFICAND_SIGN_BIT:\n    $s >>= 8\n    $e += 1", me)
    rep.ob(rule, "encode:sign_bit", sb is not None, bt.where(sb), "a mantissa with the sign bit set is shifted and the exponent incremented")
    rep.ob(rule, "encode:length", any(c.subject.startswith("len(") and c.op in (">", ">=") for c in refusal_constraints(ctx, bt)), bt.where(), "targets longer than 32 bytes refused")
    nb = ctx.func(f"{PW}.next_bits")
    txt = PT.text(nb)
    vx = VX.of(nb)
    clamps = ("min(max($$a, POW_TARGET_TIMESPAN // 4), POW_TARGET_TIMESPAN * 4)", "max(min($$a, POW_TARGET_TIMESPAN * 4), POW_TARGET_TIMESPAN // 4)",
              "min(POW_TARGET_TIMESPAN * 4, max($$a, POW_TARGET_TIMESPAN // 4))", "max(POW_TARGET_TIMESPAN // 4, min($$a, POW_TARGET_TIMESPAN * 4))")
    rep.ob(rule, "retarget:clamp", any(vx.anywhere(p_) for p_ in clamps), nb.where(), "timespan clamped to [T/4, 4T]")
    rep.ob(rule, "retarget:arithmetic", any(vx.anywhere(p_) for p_ in ("min($$t * $$a % 2 ** 256 // POW_TARGET_TIMESPAN, $$l)", "min($$l, $$t * $$a % 2 ** 256 // POW_TARGET_TIMESPAN)",
                                                                        "min($$a * $$t % 2 ** 256 // POW_TARGET_TIMESPAN, $$l)")), nb.where(), "multiply (mod 2^256), divide, cap at the limit")
    rh = ctx.func(f"{PW}.retarget_first_height")
    rep.ob(rule, "retarget:height", any("(last_height + 1) % DIFFICULTY_ADJUSTMENT_INTERVAL" in c.subject and c.op == "truthy" for c in refusal_constraints(ctx, rh)), rh.where(), "only heights = k*2016 - 1 close a period")
    bw = ctx.func(f"{PW}.block_work")
    rep.ob(rule, "work:zero_target", any(c.subject == "target" and c.op == "falsy" for c in refusal_constraints(ctx, bw)), bw.where(), "a zero target has no work")
    rep.ob(rule, "work:formula", "return 2 ** 256 // (target + 1)" in norm(bw.node), bw.where(), "work = 2^256 // (target + 1)")
    hp = ctx.func("btclib.block.block_header.BlockHeader.assert_valid_pow")
    cs = refusal_constraints(ctx, hp)
    shown = [c.show() for c in cs]
    rep.ob(rule, "header:hash_vs_target", any(c.op == ">" and "target" in c.value_text + c.subject and ("hash" in c.subject.lower() or "hash" in c.value_text.lower()) for c in cs), hp.where(), f"refusals {shown}")
    rep.ob(rule, "header:target_vs_limit", any(c.op == ">" and ("limit" in c.value_text.lower() or "genesis" in c.value_text.lower() or "limit" in c.subject.lower()) for c in cs), hp.where(), f"refusals {shown}")


def rule_filter_cmpct(ctx: Ctx, rep: Report) -> None:
    """C17.filter_cmpct: BIP158 parameters; BIP152 constants and refusals."""
    rule = "C17.filter_cmpct"
    BF = "btclib.block.block_filter"
    rep.ob(rule, "bip158:P_M", ctx.const(BF, "BASIC_FILTER_P") == 19 and ctx.const(BF, "BASIC_FILTER_M") == 784931, "btclib/block/block_filter.py:1", "P = 19, M = 784931")
    rep.ob(rule, "bip158:op_return", ctx.const(BF, "_OP_RETURN") == 0x6A, "btclib/block/block_filter.py:1", "OP_RETURN = 0x6a")
    fb = ctx.func(f"{BF}.BasicBlockFilter.from_block")
    txt = PT.text(fb)
    rep.ob(rule, "bip158:exclusions", "_OP_RETURN" in txt and ("if script" in txt or "and script" in txt or "if s" in txt), fb.where(), "OP_RETURN outputs and empty scripts are excluded")
    mc_: dict[str, str] = {}
    cbx = PT.find(fb.node, "$n = sum((len($t.vin) for $t in block.transactions if not $t.is_coinbase))", mc_)
    rep.ob(rule, "bip158:coinbase_prevouts_excluded", cbx is not None, fb.where(cbx), "the coinbase's inputs spend nothing and are not counted")
    rep.ob(rule, "bip158:prevout_count", has(refusal_constraints(ctx, fb), "len(prevout_scripts)", "!=", mc_.get("n", "spent")) is not None, fb.where(), "one previous output script per spent input")
    CB = "btclib.p2p.compact_blocks"
    rep.ob(rule, "bip152:sizes", ctx.const(CB, "_SHORT_ID_SIZE") == 6 and ctx.const(CB, "_NONCE_SIZE") == 8, "btclib/p2p/compact_blocks.py:1", "6-byte short ids, 8-byte nonce")
    sk = ctx.func(f"{CB}.CmpctBlock.short_id_key")
    txt = PT.text(sk)
    rep.ob(rule, "bip152:key", "sha256(" in txt and "digest[:8]" in txt and "digest[8:16]" in txt and "'little'" in txt, sk.where(), "SipHash key = first two little-endian u64 of sha256(header || nonce)")
    si = ctx.func(f"{CB}._short_id")
    rep.ob(rule, "bip152:short_id_mask", "_MAX_SHORT_ID" in norm(si.node) or "& 281474976710655" in norm(si.node), si.where(), "short id = low 6 bytes of the SipHash")
    rc = ctx.func(f"{CB}.reconstruct")
    cr = refusal_constraints(ctx, rc)
    rep.ob(rule, "bip152:collision_refused", any(c.subject == "len(set(short_ids))" and c.op == "!=" and c.value_text == "len(short_ids)" for c in cr), rc.where(), "duplicate short ids within the block are refused")
    txt = PT.text(rc)
    mp: dict[str, str] = {}
    okpc = PT.has(rc.node, "$col.add($sid)", mp) and PT.has(rc.node, "$av[$pos[$sid]] = None", mp)
    rep.ob(rule, "bip152:pool_collision_unfilled", okpc, rc.where(), "two pool transactions under one short id leave the slot unfilled")
    rep.ob(rule, "bip152:empty_refused", any(c.subject == "count" and c.op == "falsy" for c in cr), rc.where(), "a compact block of no transactions is refused")


def rule_filter_match(ctx: Ctx, rep: Report) -> None:
    """C17.filter_match: matching a sorted list of targets against the filter's
    sorted values is a merge: for each value the target cursor is advanced
    *while* the target is below it (several targets may lie below one value).
    An `if` advances it once, and a target that sits past two smaller ones is
    never compared -- a false negative, which a Golomb-coded set must not give."""
    rule = "C17.filter_match"
    fi = ctx.func(f"{BF}.BasicBlockFilter.match_any")
    m: dict[str, str] = {}
    loops = [n for n in own_nodes(fi.node) if isinstance(n, ast.For) and isinstance(n.iter, ast.Call) and call_name(n.iter) == "_decode" and isinstance(n.target, ast.Name)]
    if not loops:
        rep.unknown(rule, "match_any", fi.where(), "no loop over self._decode(): shape not recognised")
        return
    val = loops[0].target.id
    adv = [n for n in ast.walk(loops[0]) if isinstance(n, (ast.While, ast.If)) and PT.match(PT.compile_(f"$t[$i] < {val}"), n.test, m)
           and any(isinstance(x, ast.AugAssign) and isinstance(x.target, ast.Name) and x.target.id == m.get("i") for st in n.body for x in ast.walk(st))]
    if not adv:
        rep.unknown(rule, "match_any:advance", fi.where(loops[0]), "the cursor advance is not written as `targets[index] < value`: shape not recognised")
        return
    for a in adv:
        rep.ob(rule, "match_any:advance_is_a_loop", isinstance(a, ast.While), fi.where(a), "the cursor skips every target below the value" if isinstance(a, ast.While) else
               "the cursor advances at most once per value: a target behind two smaller ones is skipped past and reported absent")
    eq = [n for n in ast.walk(loops[0]) if isinstance(n, ast.If) and PT.match(PT.compile_(f"$t[$i] == {val}"), n.test, dict(m))]
    rep.ob(rule, "match_any:equality", bool(eq), fi.where(loops[0]), "a target equal to a decoded value is a match")


def rule_same_attribute(ctx: Ctx, rep: Report) -> None:
    """C17.same_attribute: what a table remembers about an object and what it is
    later compared with are the same attribute of it: `seen[k] = tx.hash` ...
    `seen[k] != tx.id` compares a wtxid with a txid, which differ for every
    segwit transaction -- the same transaction met twice is then a collision."""
    rule = "C17.same_attribute"
    n = 0
    for modname in ("btclib.p2p.compact_blocks", "btclib.block.block_filter", "btclib.block.block", "btclib.block.merkle_proof"):
        mi = ctx.prog.modules.get(modname)
        if mi is None:
            continue
        for fi in sorted(mi.functions.values(), key=lambda f: f.qualname):
            stores: dict[str, set[str]] = {}
            for a in own_nodes(fi.node):
                if isinstance(a, ast.Assign) and len(a.targets) == 1 and isinstance(a.targets[0], ast.Subscript) and isinstance(a.targets[0].value, ast.Name) \
                        and isinstance(a.value, ast.Attribute) and isinstance(a.value.value, ast.Name):
                    stores.setdefault(a.targets[0].value.id, set()).add(a.value.attr)
            if not stores:
                continue
            for c in own_nodes(fi.node):
                if not (isinstance(c, ast.Compare) and len(c.ops) == 1 and isinstance(c.ops[0], (ast.Eq, ast.NotEq))):
                    continue
                sides = [c.left, c.comparators[0]]
                tab = [x for x in sides if isinstance(x, ast.Subscript) and isinstance(x.value, ast.Name) and x.value.id in stores]
                att = [x for x in sides if isinstance(x, ast.Attribute) and isinstance(x.value, ast.Name)]
                if len(tab) == 1 and len(att) == 1:
                    n += 1
                    ok = att[0].attr in stores[tab[0].value.id]
                    rep.ob(rule, f"{fi.qualname}:{norm(c)}", ok, fi.where(c), f"compared with the attribute that was stored ({sorted(stores[tab[0].value.id])})" if ok else
                           f"`{tab[0].value.id}` remembers .{'/.'.join(sorted(stores[tab[0].value.id]))} and is compared with .{att[0].attr}: two different identifiers of one object")
    rep.floor(rule, 1)


def rule_own_fields(ctx: Ctx, rep: Report) -> None:
    """C17.own_fields: an object hands its own fields to the functions it delegates to (see sigcommon.rule_own_fields_forwarded)."""
    from rules.sigcommon import rule_own_fields_forwarded
    rule_own_fields_forwarded(ctx, rep, "C17.own_fields", ('btclib.block.block', 'btclib.p2p.compact_blocks', 'btclib.p2p.block_filters', 'btclib.block.block_filter'), 8)


def rule_params_forwarded_(ctx: Ctx, rep: Report) -> None:
    """C17.params_forwarded: a parameter is handed on to callees that have a parameter of the same name (see sigcommon.rule_params_forwarded)."""
    from rules.sigcommon import rule_params_forwarded
    rule_params_forwarded(ctx, rep, "C17.params_forwarded", ('btclib.block', 'btclib.hashes', 'btclib.p2p.compact_blocks'), 30)


def rule_witness_kept(ctx: Ctx, rep: Report) -> None:
    """C17.witness_kept: three places where "with its witness" is the point.
    (a) A transaction sent for a compact block (`blocktxn`, a prefilled one) is
    written with its witness: what it is matched by is its wtxid-based short id
    and what it must rebuild is the block -- every `tx.serialize(...)` in the
    compact-blocks codec names include_witness=True. (b) A block is segwit when
    *any* transaction carries a witness, the coinbase included (its witness is
    the commitment's nonce): `Block.is_segwit` ranges over all transactions.
    (c) The retarget timespan is a difference of datetimes, not of
    `.timestamp()`s -- a naive datetime's timestamp reads the machine's time
    zone, and a window across a clock change is an hour off."""
    rule = "C17.witness_kept"
    cb = ctx.module("btclib.p2p.compact_blocks")
    n = 0
    for fi in sorted(cb.functions.values(), key=lambda f: f.qualname):
        if fi.name != "serialize":
            continue
        for c in own_nodes(fi.node):
            if isinstance(c, ast.Call) and call_name(c) == "serialize" and isinstance(c.func, ast.Attribute) and any(k.arg == "include_witness" for k in c.keywords):
                n += 1
                v = ctx.fold(next(k.value for k in c.keywords if k.arg == "include_witness"), cb)
                rep.ob(rule, f"{fi.qualname}:include_witness", v is True, fi.where(c), "written with its witness" if v is True else
                       "a transaction of a compact-block message is written without its witness: the receiver rebuilds another transaction (another wtxid), and the block's witness commitment fails")
    bs = ctx.func(f"{BL}.Block.is_segwit")
    its = [g_.iter for x in own_nodes(bs.node) if isinstance(x, (ast.GeneratorExp, ast.ListComp)) for g_ in x.generators] + [x.iter for x in own_nodes(bs.node) if isinstance(x, ast.For)]
    ok = bool(its) and all(str(norm(i)) == "self.transactions" for i in its)
    rep.ob(rule, "Block.is_segwit:all_transactions", ok, bs.where(), "every transaction, the coinbase included" if ok else
           f"is_segwit ranges over {[str(norm(i)) for i in its]}: a block whose only witness is the coinbase's is not segwit, and its commitment is never checked")
    nb = ctx.func(f"{PW}.next_bits")
    ts = [c for c in own_nodes(nb.node) if isinstance(c, ast.Call) and call_name(c) == "timestamp"]
    rep.ob(rule, "next_bits:timespan_is_a_datetime_difference", not ts and "total_seconds" in str(norm(nb.node)), nb.where(ts[0] if ts else None),
           "(last - first).total_seconds()" if not ts else "the timespan is computed from .timestamp() values: for naive datetimes it depends on the process time zone")
    rep.floor(rule, 4)


def rule_no_stale_cache_(ctx: Ctx, rep: Report) -> None:
    """C17.no_stale_cache: a memoized mutable answer is never handed out or edited; a cached_property lives only in a frozen dataclass (see sigcommon.rule_no_stale_cache)."""
    from rules.sigcommon import rule_no_stale_cache
    rule_no_stale_cache(ctx, rep, "C17.no_stale_cache", ('btclib.p2p', 'btclib.block'), 1)


def rule_every_node_is_parsed(ctx: Ctx, rep: Report) -> None:
    """C17.every_node_is_parsed: the CVE-2017-12842 guard asks the transaction
    parser about *every* inner node: no path through
    `_assert_inner_node_is_not_a_tx` returns before `Tx.parse` was called -- a
    fast path that waves through the nodes "not opening like a transaction"
    (version 1 or 2) lets a 64-byte transaction of version 3 be proved as a
    leaf. And the parser it asks is not restricted (`check_validity=False`)."""
    rule = "C17.every_node_is_parsed"
    fi = ctx.func("btclib.block.merkle_proof._assert_inner_node_is_not_a_tx")
    g = ctx.cfg(fi)
    calls = [c for c in own_nodes(fi.node) if isinstance(c, ast.Call) and norm(c.func) == "Tx.parse"]
    if not calls:
        rep.ob(rule, "guard:parser", False, fi.where(), "Tx.parse is not called")
        return
    ids = [i for c in calls for i in g.nodes_containing(c)]
    n = 0
    for r in own_nodes(fi.node):
        if isinstance(r, ast.Return):
            n += 1
            path = g.path_avoiding(g.nodes_containing(r), ids)
            rep.ob(rule, f"guard:return@{n}", path is None, fi.where(r), "returns only after the parser was asked" if path is None else
                   f"`{norm(r)}` at line {r.lineno} is reached without asking the parser: some inner nodes are never tested for being a transaction")
    facts = g.facts_at_ast(calls[0])
    pos = [str(t) for t, pol in facts]
    rep.ob(rule, "guard:unconditional", not pos, fi.where(calls[0]), "the parser is asked unconditionally" if not pos else f"the parser is asked only under {pos}")
    # the node is refused when it round-trips
    raises = [x for x in own_nodes(fi.node) if isinstance(x, ast.Raise)]
    rep.ob(rule, "guard:refuses", bool(raises), fi.where(), "a node that is a transaction is refused")
    rep.floor(rule, 3)


def rule_golomb_unbounded(ctx: Ctx, rep: Report) -> None:
    """C17.golomb_unbounded: BIP158's Golomb-Rice quotient is a unary run whose
    length is delta >> P, and delta is bounded only by N*M: the decoder reads it
    to its terminating zero and has no refusal of its own (what ends a run that
    is too long is the end of the data, which the bit reader refuses). A cap on
    the quotient refuses filters the encoder writes -- 31 elements can have a
    gap of 46 << 19."""
    rule = "C17.golomb_unbounded"
    fi = ctx.func("btclib.block.block_filter._golomb_decode")
    raises = [x for x in own_nodes(fi.node) if isinstance(x, ast.Raise)]
    rep.ob(rule, "_golomb_decode:no_refusal", not raises, fi.where(raises[0] if raises else None), "no refusal of its own: the unary run is read to its end" if not raises else
           f"`{norm(raises[0])[:80]}`: the decoder refuses a quotient the encoder can write")
    enc = ctx.func("btclib.block.block_filter._golomb_encode") if "btclib.block.block_filter._golomb_encode" in ctx.prog.functions else None
    if enc is not None:
        r2 = [x for x in own_nodes(enc.node) if isinstance(x, ast.Raise)]
        rep.ob(rule, "_golomb_encode:no_refusal", not r2, enc.where(), "the encoder has no refusal either")
    rep.floor(rule, 1)


def rule_one_script_per_input(ctx: Ctx, rep: Report) -> None:
    """C17.one_script_per_input: `prevout_scripts_from_utxos` answers the script each
    non-coinbase input spends, one per input -- `from_block` counts them against
    the inputs and does BIP158's own filtering (empty scripts, OP_RETURN
    outputs). The append is therefore under no test of the script itself: an
    adapter that drops the empty ones makes a block that spends an empty
    script_pub_key one whose filter cannot be built."""
    rule = "C17.one_script_per_input"
    fi = ctx.func("btclib.block.block_filter.prevout_scripts_from_utxos")
    g = ctx.cfg(fi)
    apps = [c for c in own_nodes(fi.node) if isinstance(c, ast.Call) and isinstance(c.func, ast.Attribute) and c.func.attr == "append"]
    if not apps:
        rep.unknown(rule, "prevout_scripts_from_utxos", fi.where(), "no append")
        return
    for c in apps:
        facts = [(str(t), pol) for t, pol in g.facts_at_ast(c)]
        on_script = [t for t, pol in facts if pol and ("script" in t.lower()) and "not in" not in t and " in " not in t]
        rep.ob(rule, "prevout_scripts_from_utxos:append", not on_script, fi.where(c), "every resolved previous output contributes its script" if not on_script else
               f"the script is appended only under {on_script}: the answer is no longer one script per input")
    rep.floor(rule, 1)


def rule_unary_run_unbounded(ctx: Ctx, rep: Report) -> None:
    """C17.unary_run_unbounded: the Golomb-Rice quotient is written in unary, and
    its length has no bound (delta >> P with delta up to N*M): the bits written
    for it are computed from the quotient. A *constant* written at a variable
    width (`write(0xFFFFFFFFFFFFFFFF, quotient)`) is ones only for as many
    bits as the constant has -- Core chunks its `Write(~0ULL, n)` by 64 for that
    reason -- and a quotient of 65 is written as zeros."""
    rule = "C17.unary_run_unbounded"
    n = 0
    for q, fi in sorted(ctx.prog.functions.items()):
        if not q.startswith("btclib.block.block_filter."):
            continue
        for c in own_nodes(fi.node):
            if isinstance(c, ast.Call) and isinstance(c.func, ast.Attribute) and c.func.attr == "write" and len(c.args) == 2:
                n += 1
                v, w = ctx.fold(c.args[0], fi.module), ctx.fold(c.args[1], fi.module)
                bad = isinstance(v, int) and not isinstance(v, bool) and v > 1 and not isinstance(w, int)
                rep.ob(rule, f"{q}:{norm(c)[:40]}", not bad, fi.where(c), "value and width agree" if not bad else
                       f"`{norm(c)}` writes a {v.bit_length()}-bit constant at a width computed at run time: past {v.bit_length()} bits the run of ones is zeros")
    rep.floor(rule, 2)


def rule_work_of_valid_bits_only(ctx: Ctx, rep: Report) -> None:
    """C17.work_of_valid_bits_only: Core's GetBlockProof credits no work to bits that
    are negative, that overflow, or that denote zero -- it is the gate that keeps
    an invalid header out of the chain work. `block_work` answers a number only
    past all three: the overflow refused by `target_from_bits`, a refusal of a
    zero target, and `is_negative_bits` asked before the magnitude (which
    `target_from_bits` answers with the sign masked off) is turned into work."""
    rule = "C17.work_of_valid_bits_only"
    fi = ctx.func("btclib.block.proof_of_work.block_work")
    g = ctx.cfg(fi)
    rets = [r for r in own_nodes(fi.node) if isinstance(r, ast.Return)]
    for name, what in (("is_negative_bits", "the sign"), ("target_from_bits", "the overflow")):
        calls = [c for c in own_nodes(fi.node) if isinstance(c, ast.Call) and call_name(c) == name]
        ids = [i for c in calls for i in g.nodes_containing(c)]
        ok = bool(ids) and all(g.path_avoiding(g.nodes_containing(r), ids) is None for r in rets)
        rep.ob(rule, f"block_work:{name}", ok, fi.where(calls[0] if calls else None), f"{what} is asked on every path to the answer" if ok else
               f"`block_work` answers without asking `{name}`: bits with {what} set are credited work")
    refs = ctx.refusals(fi)
    okz = any("target" in str(norm(t)) and not pol for t, pol, _ in refs) or any(str(norm(t)).startswith("not ") for t, pol, _ in refs)
    rep.ob(rule, "block_work:zero", okz or len([x for x in own_nodes(fi.node) if isinstance(x, ast.Raise)]) >= 2, fi.where(), "a zero target is refused")
    rep.floor(rule, 3)


def rule_converted_then_raw_(ctx: Ctx, rep: Report) -> None:
    """C17.converted_then_raw: a target, a hash, a header given as hex text is the
    value its bytes are: nothing in block/ and hashes measures the raw
    argument after converting it (sigcommon.converted_then_raw)."""
    from rules import sigcommon
    sigcommon.rule_converted_then_raw(ctx, rep, "C17.converted_then_raw", ("btclib.block", "btclib.hashes", "btclib.p2p"))


RULES = [
    ("C17.converted_then_raw", rule_converted_then_raw_),

    ("C17.work_of_valid_bits_only", rule_work_of_valid_bits_only),

    ("C17.one_script_per_input", rule_one_script_per_input),
    ("C17.unary_run_unbounded", rule_unary_run_unbounded),

    ("C17.every_node_is_parsed", rule_every_node_is_parsed),
    ("C17.golomb_unbounded", rule_golomb_unbounded),
    ("C17.no_stale_cache", rule_no_stale_cache_),

    ("C17.witness_kept", rule_witness_kept),
    ("C17.params_forwarded", rule_params_forwarded_),
    ("C17.own_fields", rule_own_fields),
    ("C17.filter_match", rule_filter_match),
    ("C17.same_attribute", rule_same_attribute),
    ("C17.block_gate", rule_block_gate),
    ("C17.merkle", rule_merkle),
    ("C17.pow", rule_pow),
    ("C17.filter_cmpct", rule_filter_cmpct),
]

CONTROLS = [
    {"rule": "C17.no_stale_cache", "name": "the short-id key of a mutable message is computed once", "module": "btclib.p2p.compact_blocks",
     "edit": lambda ctx: M.sub_module_expr(ctx, "btclib.p2p.compact_blocks", lambda n: isinstance(n, ast.Name) and n.id == "property" and isinstance(parent(n), ast.FunctionDef) and parent(n).name == "short_id_key",
                                           "__import__('functools').cached_property")},

    {"rule": "C17.witness_kept", "name": "blocktxn strips the witnesses", "module": "btclib.p2p.compact_blocks",
     "edit": lambda ctx: M.sub_expr(ctx, "btclib.p2p.compact_blocks.BlockTxn.serialize", lambda n: isinstance(n, ast.keyword) and n.arg == "include_witness", "include_witness=False")},
    {"rule": "C17.filter_match", "name": "the target cursor advances once per value", "module": BF,
     "edit": lambda ctx: M.sub_expr(ctx, f"{BF}.BasicBlockFilter.match_any", lambda n: isinstance(n, ast.While) and "targets[index] < value" in norm(n.test),
                                    lambda n: norm(n).replace("while ", "if ", 1) if False else "if targets[index] < value:\n                index += 1\n                if index == len(targets):\n                    return False")},
    {"rule": "C17.same_attribute", "name": "pool collision compares a wtxid with a txid", "module": "btclib.p2p.compact_blocks",
     "edit": lambda ctx: M.sub_expr(ctx, "btclib.p2p.compact_blocks.reconstruct", M.is_text("wtxid_of[short_id] != tx.hash"), "wtxid_of[short_id] != tx.id")},
    {"rule": "C17.block_gate", "name": "witness commitment no longer checked", "module": BL,
     "edit": lambda ctx: M.drop_call_stmt(ctx, f"{BL}.Block.assert_valid", "assert_valid_witness_commitment")},
    {"rule": "C17.block_gate", "name": "mutated tree accepted", "module": BL,
     "edit": lambda ctx: M.drop_if(ctx, f"{BL}.Block.assert_valid_merkle_root", lambda n: norm(n.test) == "mutated")},
    {"rule": "C17.merkle", "name": "branch residual index ignored", "module": H,
     "edit": lambda ctx: M.drop_if(ctx, f"{H}.merkle_root_from_branch", lambda n: norm(n.test) == "index")},
    {"rule": "C17.merkle", "name": "mutation flagged after duplication", "module": H,
     "edit": lambda ctx: _swap_mut(ctx)},
    {"rule": "C17.pow", "name": "timespan clamp at T/2", "module": PW,
     "edit": lambda ctx: M.sub_expr(ctx, f"{PW}.next_bits", M.is_text("POW_TARGET_TIMESPAN // 4"), "POW_TARGET_TIMESPAN // 2")},
    {"rule": "C17.pow", "name": "overflow compared with >", "module": PW,
     "edit": lambda ctx: M.sub_expr(ctx, f"{PW}.target_from_bits", M.is_text("value >= 256**TARGET_SIZE"), "value > 256**TARGET_SIZE")},
    {"rule": "C17.filter_cmpct", "name": "filter M altered", "module": "btclib.block.block_filter",
     "edit": lambda ctx: M.sub_module_expr(ctx, "btclib.block.block_filter", lambda n: isinstance(n, ast.Constant) and n.value == 784931, "784932")},
]


def _swap_mut(ctx: Ctx):
    fi = ctx.prog.functions.get(f"{H}.merkle_root_and_mutated_from_hashes")
    if fi is None:
        return None
    w = [n for n in own_nodes(fi.node) if isinstance(n, ast.While)]
    if not w or len(w[0].body) < 2:
        return None
    a, b = w[0].body[0], w[0].body[1]
    src = fi.module.source
    return M.replace_nodes(src, [(a, ast.get_source_segment(src, b)), (b, ast.get_source_segment(src, a))])
