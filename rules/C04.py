"""C04 -- the libsecp256k1 and pure-Python backends are observationally identical.

Value-level parity is not decidable statically. Decided: every use of the
bindings is reached only under the one dispatch predicate (so switching the
flag reaches all of them); the flag has one writer and is never cached; the
bindings are imported through one door; no foreign ValueError/RuntimeError
escapes a delegated arm un-translated; every dual-path function really has a
Python arm; the bindings are never handed a zero scalar / infinity.
"""

from __future__ import annotations

import ast

from sa import mutate as M
from sa.cfg import CFG
from sa import pattern as PT
from sa.ctx import Ctx
from sa.loader import AnalysisError, FuncInfo, ModuleInfo, call_name, norm, own_nodes, parent
from sa.report import Report

NOTES = ("C04: decides dispatch-guard coverage of every bindings use, single flag writer, single import door, "
         "exception translation at every bindings call, existence of both arms and expressibility guards; does not "
         "decide byte-for-byte parity of returned values.")

DOOR = "btclib._libsecp256k1"
SERVES = "btclib.curves.curve._libsecp256k1_serves"
NON_BINDINGS = {"ENABLED", "INSTALLED", "NO_LIBSECP256K1"}


def _binding_names(mi: ModuleInfo) -> dict[str, str]:
    return {k: v for k, v in mi.imports.items() if v.startswith(DOOR + ".") and v.rsplit(".", 1)[1] not in NON_BINDINGS}


def _uses(ctx: Ctx):
    """(fi, name node, binding) for every load of a bindings name inside a function."""
    for mi in sorted(ctx.prog.modules.values(), key=lambda m: m.name):
        if mi.name == DOOR:
            continue
        b = _binding_names(mi)
        if not b:
            continue
        for fi in sorted(mi.functions.values(), key=lambda f: f.qualname):
            for n in own_nodes(fi.node):
                if isinstance(n, ast.Name) and n.id in b and isinstance(n.ctx, ast.Load):
                    # annotations are not uses
                    if _in_annotation(n):
                        continue
                    yield fi, n, b[n.id]


def _in_annotation(n: ast.AST) -> bool:
    cur = n
    p = parent(cur)
    while p is not None and not isinstance(p, ast.stmt):
        if isinstance(p, ast.arg) and p.annotation is cur:
            return True
        cur, p = p, parent(p)
    if isinstance(p, ast.AnnAssign) and p.annotation is cur:
        return True
    if isinstance(p, (ast.FunctionDef, ast.AsyncFunctionDef)) and p.returns is cur:
        return True
    return False


def _is_serves_call(ctx: Ctx, fi: FuncInfo, e: ast.AST) -> bool:
    return isinstance(e, ast.Call) and ctx.resolve_call(fi, e) == SERVES


class Guards:
    """Which facts prove 'the dispatch predicate answered true'."""

    def __init__(self, ctx: Ctx):
        self.ctx = ctx
        self._token_funcs: dict[str, bool] = {}
        self._token_fields: dict[tuple[str, str], bool] = {}
        self._busy: set = set()

    def fact_is_guard(self, fi: FuncInfo, g: CFG, txt: str, pol: bool) -> bool:
        a = g.fact_ast.get(txt)
        if a is None:
            return False
        if pol and _is_serves_call(self.ctx, fi, a):
            return True
        # `X is not None` (True) / `X is None` (False) / truthiness of X where X is a token
        subj = None
        if isinstance(a, ast.Compare) and len(a.ops) == 1 and isinstance(a.comparators[0], ast.Constant) and a.comparators[0].value is None:
            if (isinstance(a.ops[0], ast.IsNot) and pol) or (isinstance(a.ops[0], ast.Is) and not pol):
                subj = a.left
        elif pol and isinstance(a, (ast.Name, ast.Attribute)):
            subj = a
        if subj is None:
            return False
        return self.is_token(fi, subj)

    def is_token(self, fi: FuncInfo, e: ast.AST) -> bool:
        """e is non-None only if the predicate answered true when it was made."""
        if isinstance(e, ast.Name):
            defs = [n for n in own_nodes(fi.node) if isinstance(n, (ast.Assign, ast.AnnAssign))
                    and any(isinstance(t, ast.Name) and t.id == e.id for t in (n.targets if isinstance(n, ast.Assign) else [n.target]))]
            if not defs or e.id in fi.params():
                return False
            return all(d.value is not None and self.value_is_token(fi, d.value) for d in defs)
        if isinstance(e, ast.Attribute) and isinstance(e.value, ast.Name) and e.value.id == "self":
            cls = fi.cls
            if cls is None:
                return False
            return self.field_is_token(cls.qualname, e.attr)
        if isinstance(e, ast.Attribute) and isinstance(e.value, ast.Name):
            # a field of a parameter whose class is annotated
            for ci in self.ctx.prog.classes.values():
                if ci.module is fi.module and e.attr in {x for st in ast.walk(ci.node) for x in _self_stores(st)}:
                    if self.field_is_token(ci.qualname, e.attr):
                        return True
        return False

    def value_is_token(self, fi: FuncInfo, v: ast.AST) -> bool:
        if isinstance(v, ast.Constant) and v.value is None:
            return True
        if isinstance(v, ast.IfExp):
            g = self.ctx.cfg(fi)
            ok_body = (isinstance(v.body, ast.Constant) and v.body.value is None) or self._guarded_expr(fi, g, v.body)
            ok_else = (isinstance(v.orelse, ast.Constant) and v.orelse.value is None) or self._guarded_expr(fi, g, v.orelse)
            return ok_body and ok_else
        if isinstance(v, ast.Call):
            tgt = self.ctx.resolve_call(fi, v)
            if tgt in self.ctx.prog.functions:
                return self.func_is_token(tgt)
        g = self.ctx.cfg(fi)
        return self._guarded_expr(fi, g, v)

    def _guarded_expr(self, fi: FuncInfo, g: CFG, e: ast.AST) -> bool:
        facts = g.facts_at_ast(e)
        return any(self.fact_is_guard(fi, g, t, p) for t, p in facts)

    def func_is_token(self, q: str) -> bool:
        """Every `return <non-None>` of q is under the guard."""
        if q in self._token_funcs:
            return self._token_funcs[q]
        if q in self._busy:
            return False
        self._busy.add(q)
        fi = self.ctx.prog.functions[q]
        g = self.ctx.cfg(fi)
        rets = [n for n in own_nodes(fi.node) if isinstance(n, ast.Return)]
        ok = bool(rets)
        for r in rets:
            if r.value is None or (isinstance(r.value, ast.Constant) and r.value.value is None):
                continue
            if not self._guarded_expr(fi, g, r.value):
                ok = False
        self._busy.discard(q)
        self._token_funcs[q] = ok
        return ok

    def field_is_token(self, cls_q: str, field: str) -> bool:
        key = (cls_q, field)
        if key in self._token_fields:
            return self._token_fields[key]
        if key in self._busy:
            return True  # optimistic inside a cycle of token fields
        self._busy.add(key)
        ci = self.ctx.prog.classes[cls_q]
        ok = False
        stores = 0
        all_ok = True
        for m in ci.methods.values():
            for n in own_nodes(m.node):
                if isinstance(n, (ast.Assign, ast.AnnAssign)):
                    tg = n.targets if isinstance(n, ast.Assign) else [n.target]
                    for t in tg:
                        if isinstance(t, ast.Attribute) and isinstance(t.value, ast.Name) and t.value.id == "self" and t.attr == field:
                            stores += 1
                            if n.value is None or not self.value_is_token(m, n.value):
                                all_ok = False
                if isinstance(n, ast.Call) and norm(n.func) == "object.__setattr__" and len(n.args) == 3 \
                        and isinstance(n.args[1], ast.Constant) and n.args[1].value == field:
                    stores += 1
                    if not self.value_is_token(m, n.args[2]):
                        all_ok = False
        ok = stores > 0 and all_ok
        self._busy.discard(key)
        self._token_fields[key] = ok
        return ok

    def guarded(self, fi: FuncInfo, node: ast.AST, depth: int = 4, seen: frozenset = frozenset()) -> tuple[bool, str]:
        """Is ``node`` (inside fi) evaluated only when the predicate answered true?"""
        g = self.ctx.cfg(fi)
        facts = g.facts_at_ast(node)
        for t, p in facts:
            if self.fact_is_guard(fi, g, t, p):
                return True, f"local guard `{t}`={p}"
        if depth == 0 or fi.qualname in seen:
            return False, "depth bound"
        callers = self.ctx.callers(fi.qualname)
        # a function referenced as a value escapes the closed world
        if not callers:
            return False, f"{fi.qualname} has no guarded caller in the package"
        why = []
        for cf, call in callers:
            ok, w = self.guarded(cf, call, depth - 1, seen | {fi.qualname})
            if not ok:
                return False, f"caller {cf.qualname}:{call.lineno} unguarded ({w})"
            why.append(cf.name)
        return True, "all callers guarded: " + ",".join(sorted(set(why)))


def _self_stores(st: ast.AST):
    if isinstance(st, ast.Attribute) and isinstance(st.ctx, ast.Store) and isinstance(st.value, ast.Name) and st.value.id == "self":
        yield st.attr


# ---------------------------------------------------------------------------
def rule_single_door(ctx: Ctx, rep: Report) -> None:
    """C04.single_door: btclib_secp256k1 is imported in one module only."""
    rule = "C04.single_door"
    n = 0
    for mi in ctx.prog.modules.values():
        for node in ast.walk(mi.tree):
            mods = []
            if isinstance(node, ast.Import):
                mods = [a.name for a in node.names]
            elif isinstance(node, ast.ImportFrom) and node.level == 0 and node.module:
                mods = [node.module]
            for m in mods:
                if m.split(".")[0] != "btclib_secp256k1":
                    continue
                n += 1
                tc = False
                p = parent(node)
                while p is not None:
                    if isinstance(p, ast.If) and "TYPE_CHECKING" in norm(p.test):
                        tc = True
                    p = parent(p)
                ok = mi.name == DOOR or tc
                rep.ob(rule, f"{mi.name}:{m}", ok, f"{mi.relpath}:{node.lineno}",
                       "the door module" if mi.name == DOOR else "types only (under TYPE_CHECKING)" if tc else
                       "imports the bindings directly: a use the dispatch predicate cannot reach")
    rep.floor(rule, 3)
    # synthetic positive control for the zero-expected part
    probe = ast.parse("import btclib_secp256k1.keys as k")
    hit = any(isinstance(x, ast.Import) and x.names[0].name.startswith("btclib_secp256k1") for x in ast.walk(probe))
    rep.control(rule, "synthetic direct import is recognised", hit)


def rule_flag_owner(ctx: Ctx, rep: Report) -> None:
    """C04.flag_owner: one writer of the flag, and the predicate reads it on every call."""
    rule = "C04.flag_owner"
    cm = ctx.module("btclib.curves.curve")
    FLAG = "_libsecp256k1_available"
    if FLAG not in cm.assigns:
        raise AnalysisError(f"flag {FLAG} vanished")
    writers = set()
    for fi in ctx.prog.functions.values():
        if fi.module is not cm:
            # another module rebinding curve._libsecp256k1_available
            for n in own_nodes(fi.node):
                if isinstance(n, ast.Attribute) and isinstance(n.ctx, ast.Store) and n.attr == FLAG:
                    writers.add(fi.qualname)
            continue
        globs = {x for n in own_nodes(fi.node) if isinstance(n, ast.Global) for x in n.names}
        if FLAG in globs:
            for n in own_nodes(fi.node):
                if isinstance(n, ast.Name) and n.id == FLAG and isinstance(n.ctx, ast.Store):
                    writers.add(fi.qualname)
    rep.ob(rule, "writers", writers == {"btclib.curves.curve.set_libsecp256k1_serving"}, f"{cm.relpath}:1",
           f"functions storing the flag: {sorted(writers)}")
    rep.ob(rule, "module_level_once", len(cm.assigns[FLAG]) == 1, f"{cm.relpath}:1", f"bound {len(cm.assigns[FLAG])} time(s) at module level")
    sv = ctx.func(SERVES)
    rep.ob(rule, "predicate_uncached", not sv.node.decorator_list, sv.where(), f"decorators: {sv.decorators()}")
    reads = [n for n in own_nodes(sv.node) if isinstance(n, ast.Name) and n.id == FLAG]
    defaults = [norm(d) for d in sv.node.args.defaults + [k for k in sv.node.args.kw_defaults if k is not None]]
    rep.ob(rule, "predicate_reads_flag", bool(reads) and not any(FLAG in d for d in defaults), sv.where(),
           "reads the module global in its body on every call")
    # the predicate refuses when the flag is off, on another curve, on another hash
    refs = ctx.cfg(sv)
    rets_false = [n for n in refs.nodes if n.kind == "test"]
    txts = sorted(norm(n.ast) for n in rets_false)
    rep.ob(rule, "predicate_conditions", any(FLAG in t for t in txts) and any("secp256k1" in t for t in txts), sv.where(), f"tests: {txts}")
    # nobody keeps the predicate's answer (or the flag) at module level or in a default argument
    n = 0
    for mi in ctx.prog.modules.values():
        for name, vals in mi.assigns.items():
            for v in vals:
                for c in ast.walk(v):
                    bad = (isinstance(c, ast.Call) and call_name(c) == "_libsecp256k1_serves") or \
                          (isinstance(c, ast.Name) and c.id == FLAG and not (mi is cm and name == FLAG))
                    if bad:
                        n += 1
                        rep.ob(rule, f"copy:{mi.name}.{name}", False, f"{mi.relpath}:{getattr(v, 'lineno', 1)}",
                               "the dispatch decision is stored in a module-level name: switching the backend does not reach it")
        for fi in mi.functions.values():
            for d in fi.node.args.defaults + [k for k in fi.node.args.kw_defaults if k is not None]:
                for c in ast.walk(d):
                    if (isinstance(c, ast.Call) and call_name(c) == "_libsecp256k1_serves") or (isinstance(c, ast.Name) and c.id == FLAG):
                        n += 1
                        rep.ob(rule, f"default:{fi.qualname}", False, fi.where(), "the dispatch decision is captured in a default argument")
            if any("cache" in d for d in fi.decorators()):
                for c in own_nodes(fi.node):
                    if isinstance(c, ast.Call) and call_name(c) == "_libsecp256k1_serves":
                        n += 1
                        rep.ob(rule, f"memoized:{fi.qualname}", False, fi.where(), "a memoized function asks the predicate: its first answer is kept")
    rep.ob(rule, "no_copies", n == 0, f"{cm.relpath}:1", f"{n} copies of the decision found")


def rule_guarded(ctx: Ctx, rep: Report) -> None:
    """C04.guarded: every use of a bindings name is control-dependent on the
    dispatch predicate (locally, through all callers, or through a token)."""
    rule = "C04.guarded"
    G = Guards(ctx)
    for fi, n, b in _uses(ctx):
        ok, why = G.guarded(fi, n)
        rep.ob(rule, f"{fi.qualname}:{b.rsplit('.', 1)[1]}", ok, fi.where(n), why)
    # objects made by the bindings and kept in fields: their uses are behind the token
    for cls_q, field in TOKEN_FIELDS:
        ci = ctx.cls(cls_q)
        rep.ob(rule, f"token:{cls_q}.{field}", G.field_is_token(cls_q, field), f"{ci.module.relpath}:{ci.node.lineno}",
               "assigned only under the predicate (or None)")
        for m in ci.methods.values():
            g = ctx.cfg(m)
            for a in own_nodes(m.node):
                if isinstance(a, ast.Attribute) and a.attr == field and isinstance(a.value, ast.Name) and a.value.id == "self" \
                        and isinstance(a.ctx, ast.Load) and isinstance(parent(a), ast.Attribute):
                    facts = g.facts_at_ast(a)
                    ok = any(G.fact_is_guard(m, g, t, p) for t, p in facts)
                    rep.ob(rule, f"token_use:{m.qualname}:{field}.{parent(a).attr}", ok, m.where(a),
                           "dereferenced under `is not None`" if ok else "token field dereferenced without the None check")
    rep.floor(rule, 45)


TOKEN_FIELDS = [
    ("btclib.ecc.dsa.Signer", "_prvkey_buffer"),
    ("btclib.ecc.dsa.Signer", "_pub_key_sec"),
    ("btclib.ecc.ssa.Signer", "_signer"),
    ("btclib.curves.curve._TweakChain", "_chain"),
]


# ---------------------------------------------------------------------------
def _bindings_calls(ctx: Ctx):
    for mi in sorted(ctx.prog.modules.values(), key=lambda m: m.name):
        if mi.name == DOOR:
            continue
        b = _binding_names(mi)
        if not b:
            continue
        for fi in sorted(mi.functions.values(), key=lambda f: f.qualname):
            for n in own_nodes(fi.node):
                if isinstance(n, ast.Call):
                    root = n.func
                    while isinstance(root, ast.Attribute):
                        root = root.value
                    if isinstance(root, ast.Name) and root.id in b and not _in_annotation(root):
                        yield fi, n


def _local_handlers(n: ast.AST) -> set[str]:
    out: set[str] = set()
    cur, p = n, parent(n)
    while p is not None and not isinstance(p, (ast.FunctionDef, ast.AsyncFunctionDef, ast.Lambda)):
        if isinstance(p, ast.Try) and any(cur is s for s in p.body):
            for h in p.handlers:
                if h.type is None:
                    out.add("BaseException")
                else:
                    for e in (h.type.elts if isinstance(h.type, ast.Tuple) else [h.type]):
                        out.add(norm(e))
        if isinstance(p, (ast.With, ast.AsyncWith)):
            for it in p.items:
                c = it.context_expr
                if isinstance(c, ast.Call) and norm(c.func).split(".")[-1] == "suppress":
                    for a in c.args:
                        out.add(norm(a))
        cur, p = p, parent(p)
    return out


CATCHES_VALUEERROR = {"ValueError", "Exception", "BaseException"}  # a BTClibValueError handler does not catch the bindings' plain ValueError

# bindings call sites with no ValueError handler on any path, read one by one
NO_HANDLER = {
    "btclib.bip32.bip32._pub_key_tweak_chain:libsecp256k1_keys.PubkeyTweakChain": "constructor over a key BIP32KeyData.assert_valid already parsed as a point",
    "btclib.curves.curve._is_x_coordinate_var:libsecp256k1_xonly_pubkey_verify": "a verdict (bool) over exactly p_size octets made by _x_octets",
    "btclib.curves.curve._mult_checked:libsecp256k1_pubkey_from_prvkey": "scalar reduced mod n and non-zero by the guard",
    "btclib.curves.curve._sum_var:libsecp256k1_pubkey_sum": "terms are points require_on_curve accepted, infinity filtered; a sum at infinity answers None",
    "btclib.curves.curve._TweakChain.__init__:Libsecp256k1PubkeyTweakChain": "base point validated by require_on_curve and not infinity by the guard",
    "btclib.curves.sec_point.bytes_from_prv_key_int:libsecp256k1_pubkey_from_prvkey": "scalar validated in 1..n-1 before the call",
    "btclib.curves.sec_point._sec_from_octets:libsecp256k1_pubkey_verify": "a verdict (bool) over octets of a checked length",
    "btclib.ecc.dh.diffie_hellman:libsecp256k1_keys.pubkey_tweak_mul": "point proved on the curve by bytes_from_point, scalar in 1..n-1",
    "btclib.ecc.dsa.sign_recoverable_:libsecp256k1_recovery.sign": "verify=True self-check: RuntimeError only on a computation fault (siblings convert it; unconstructible)",
    "btclib.ecc.dsa.Signer.__init__:libsecp256k1_ffi.new": "cffi allocation, raises nothing on a fixed-size char[]",
    "btclib.ecc.dsa.Signer.wipe:libsecp256k1_ffi.buffer": "cffi buffer view of the signer's own allocation",
    "btclib.ecc.ellswift.create_var:libsecp256k1_ellswift.create": "private key validated in range before the call",
    "btclib.ecc.ellswift.encode_var:libsecp256k1_ellswift.encode": "public key serialized by bytes_from_point (validated point)",
    "btclib.ecc.ellswift.decode_var:libsecp256k1_ellswift.decode": "every 64-octet string decodes (total by construction, BIP324)",
    "btclib.ecc.ellswift.xdh:libsecp256k1_ellswift.xdh": "64-octet encodings length-checked, private key validated before the call",
    "btclib.ecc.musig2._bindings_session:libsecp256k1_musig.Session": "inputs already validated by session_values before delegation is asked",
    "btclib.ecc.musig2._bindings_session:libsecp256k1_musig.KeyAggCache": "inputs already validated by session_values before delegation is asked",
    "btclib.ecc.ssa.Signer.__init__:libsecp256k1_ssa.Signer": "private key validated in 1..n-1 by the constructor before the call",
    "btclib.curves.curve._libsecp256k1_multi_mult_:libsecp256k1_pubkey_tweak_mul_sum": "terms are validated points not at infinity with non-zero reduced scalars (C04.expressible); the x-only caller, whose terms are unvalidated, handles ValueError itself",
    "btclib.ecc.dsa._delegated_sign_:libsecp256k1_dsa.sign": "the key buffer was validated when the Signer was built; the self-check's RuntimeError is converted (C04.runtime_converted)",
    "btclib.ecc.ssa.sign_:libsecp256k1_ssa.sign_custom": "scalar from scalar_from_prv_key is in 1..n-1; the self-check's RuntimeError is converted (C04.runtime_converted)",
    "btclib.script.taproot._tweaked_prvkey:libsecp256k1_xonly.prvkey_tweak_add": "raises only if key + tweak = 0 mod n, a hash preimage (unconstructible)",
}


RUNTIME_UNCONVERTED = {
    "btclib.ecc.dsa.sign_recoverable_:libsecp256k1_recovery.sign": "no failing input can be shown (a computation fault only); its three siblings convert",
}


def rule_no_foreign_escape(ctx: Ctx, rep: Report) -> None:
    """C04.no_foreign_escape: a bindings call's ValueError is caught and
    translated (or falls through to the Python arm) at the call, in every
    caller, or the site is in the reviewed table of calls that cannot raise."""
    rule = "C04.no_foreign_escape"
    seen_keys = set()

    def handled(fi: FuncInfo, node: ast.AST, depth: int, seen: frozenset) -> tuple[bool, str]:
        hs = _local_handlers(node)
        if hs & CATCHES_VALUEERROR:
            return True, f"handlers {sorted(hs)}"
        if depth == 0 or fi.qualname in seen:
            return False, "no handler within depth"
        callers = ctx.callers(fi.qualname)
        if not callers or not fi.name.startswith("_"):
            return False, "no handler (public or uncalled function)"
        for cf, call in callers:
            ok, w = handled(cf, call, depth - 1, seen | {fi.qualname})
            if not ok:
                return False, f"caller {cf.qualname} has none"
        return True, "every caller handles it"

    for fi, call in _bindings_calls(ctx):
        key = f"{fi.qualname}:{norm(call.func)}"
        seen_keys.add(key)
        ok, why = handled(fi, call, 3, frozenset())
        if not ok and key in NO_HANDLER:
            rep.ob(rule, key, True, fi.where(call), f"reviewed: {NO_HANDLER[key]}")
            continue
        rep.ob(rule, key, ok, fi.where(call), why if ok else
               f"{why}: a ValueError/RuntimeError of the bindings would leave this arm where the Python arm raises a library class")
    # a bindings signer asked to verify its own output reports a fault as RuntimeError: converted
    for fi, call in _bindings_calls(ctx):
        if not any(k.arg == "verify" for k in call.keywords):
            continue
        key = f"{fi.qualname}:{norm(call.func)}"
        hs = _local_handlers(call)
        if key in RUNTIME_UNCONVERTED:
            rep.ob("C04.runtime_converted", key, True, fi.where(call), f"reviewed: {RUNTIME_UNCONVERTED[key]}")
            continue
        rep.ob("C04.runtime_converted", key, bool(hs & {"RuntimeError", "Exception", "BaseException"}), fi.where(call),
               f"handlers {sorted(hs)}" if hs else "no RuntimeError handler: the self-check's failure leaves as a foreign class")
    for key in sorted(set(NO_HANDLER) - seen_keys):
        rep.unknown(rule, key, "", "stale table row: the site is gone")
    # a handler at a bindings call converts to a library class or falls through; it never re-raises the foreign class
    for fi, call in _bindings_calls(ctx):
        cur, p = call, parent(call)
        while p is not None and not isinstance(p, (ast.FunctionDef, ast.AsyncFunctionDef)):
            if isinstance(p, ast.Try) and any(cur is s for s in p.body):
                for h in p.handlers:
                    for r in [x for x in ast.walk(h) if isinstance(x, ast.Raise)]:
                        if r.exc is None:
                            rep.ob("C04.handler_translates", f"{fi.qualname}:{norm(call.func)}", False, fi.where(r),
                                   "bare `raise` re-raises the bindings' exception")
                        else:
                            cls = r.exc.func if isinstance(r.exc, ast.Call) else r.exc
                            tgt = ctx.prog.resolve_name(fi.module, cls, fi) or ""
                            fn = ctx.prog.functions.get(tgt)
                            okc = tgt.startswith("btclib.exceptions.") or (fn is not None and fn.node.returns is not None
                                                                           and "BTClib" in norm(fn.node.returns)) or "Error" not in norm(cls)
                            rep.ob("C04.handler_translates", f"{fi.qualname}:{norm(call.func)}->{norm(cls)}", okc, fi.where(r),
                                   f"handler raises {tgt or norm(cls)}")
            cur, p = p, parent(p)
    rep.floor(rule, 35)


# ---------------------------------------------------------------------------
def rule_both_arms(ctx: Ctx, rep: Report) -> None:
    """C04.both_arms: in each function that asks the predicate, the false
    answer reaches a normal return through code that uses no bindings name."""
    rule = "C04.both_arms"
    for fi in sorted(ctx.prog.functions.values(), key=lambda f: f.qualname):
        calls = [c for c in ctx.calls_to(fi, SERVES)]
        if not calls or fi.qualname == SERVES:
            continue
        b = _binding_names(fi.module)
        g = ctx.cfg(fi)
        for c in calls:
            ids = g.nodes_containing(c)
            if not ids:
                continue
            node = g.nodes[ids[0]]
            key = f"{fi.qualname}@{_nth(calls, c)}"
            if node.kind != "test":
                # conditional expression: both arms are expressions of one statement
                p = parent(c)
                while p is not None and not isinstance(p, (ast.IfExp, ast.stmt)):
                    p = parent(p)
                ok = isinstance(p, ast.IfExp)
                rep.ob(rule, key, ok, fi.where(c), "conditional expression with both arms" if ok else "predicate result not branched on")
                continue
            # nodes that use a bindings name
            bad = [n.id for n in g.nodes if n.ast is not None and n.kind not in ("entry",) and any(
                isinstance(x, ast.Name) and x.id in b for x in _own(n))]
            starts = [v for v, lab in g.succ[node.id] if isinstance(lab, tuple) and lab[0] == "F"]
            ok = False
            for s in starts:
                if s in bad:
                    continue
                par = g.reachable(s, avoid=bad)
                if g.exit_return in par:
                    ok = True
            rep.ob(rule, key, ok, fi.where(c), "the Python arm reaches a normal return without the bindings" if ok else
                   "no bindings-free path from the predicate's false answer to a return: the Python arm is gone")
    rep.floor(rule, 30)


def _own(n):
    from sa.cfg import _own_walk
    return _own_walk(n)


def _nth(calls, c) -> int:
    return sorted(calls, key=lambda x: (x.lineno, x.col_offset)).index(c)


# ---------------------------------------------------------------------------
# extra facts a delegated call needs because libsecp256k1 has no zero scalar and no infinity
EXPRESSIBLE = [
    ("btclib.curves.curve._mult_checked", "libsecp256k1_pubkey_from_prvkey", ["m"]),
    ("btclib.curves.curve._mult_checked", "_libsecp256k1_multi_mult", ["m", "Q[1]"]),
    ("btclib.curves.curve.double_mult_var", "_libsecp256k1_multi_mult", ["u", "v", "H[1]", "Q[1]"]),
    ("btclib.curves.curve._tweak_add_var", "libsecp256k1_pubkey_tweak_add", ["P[1]"]),
    ("btclib.curves.curve._TweakChain.__init__", "Libsecp256k1PubkeyTweakChain", ["base[1]"]),
    ("btclib.curves.sec_point.bytes_from_prv_key_int", "libsecp256k1_pubkey_from_prvkey", ["q"]),
    ("btclib.curves.sec_point._mult_sec_var", "libsecp256k1_pubkey_tweak_mul", ["m"]),
    ("btclib.ecc.dh.diffie_hellman", "pubkey_tweak_mul", ["d"]),
]


def rule_expressible(ctx: Ctx, rep: Report) -> None:
    """C04.expressible: a zero scalar or the point at infinity never reaches the bindings."""
    rule = "C04.expressible"
    for q, callee, need in EXPRESSIBLE:
        fi = ctx.func(q)
        g = ctx.cfg(fi)
        cs = [c for c in own_nodes(fi.node) if isinstance(c, ast.Call) and call_name(c) == callee]
        if not cs:
            raise AnalysisError(f"{q}: call of {callee} vanished")
        for c in cs:
            facts = {t for t, p in g.facts_at_ast(c) if p}
            missing = [x for x in need if not any(t == x for t in facts)]  # == and not `in`: texts compare up to a renamed temporary
            rep.ob(rule, f"{q}:{callee}", not missing, fi.where(c),
                   f"under {need}" if not missing else f"reached without the guard(s) {missing}: libsecp256k1 cannot express that operand")
    # who may call: the arithmetic wrapper that cannot express a zero scalar or infinity is called from the
    # reviewed (guarded) sites and from nowhere else -- a new call site is a site nobody read the guards of
    reviewed = {q for q, callee, _ in EXPRESSIBLE if callee == "_libsecp256k1_multi_mult"} | {"btclib.curves.curve.multi_mult_var"}
    for q2, f2 in sorted(ctx.prog.functions.items()):
        for c in own_nodes(f2.node):
            if isinstance(c, ast.Call) and call_name(c) == "_libsecp256k1_multi_mult" and f2.name != "_libsecp256k1_multi_mult":
                rep.ob(rule, f"{q2}:calls:_libsecp256k1_multi_mult", q2 in reviewed, f2.where(c), "a reviewed, guarded call site" if q2 in reviewed else
                       f"`{f2.name}` hands scalars and points to libsecp256k1 itself, past the dispatching functions and their guards: a zero coefficient or a point at infinity, which the Python arithmetic answers, is a bare ValueError here")
    # multi_mult_var: more than one term, none zero / infinity
    mm = ctx.func("btclib.curves.curve.multi_mult_var")
    g = ctx.cfg(mm)
    cs = [c for c in own_nodes(mm.node) if isinstance(c, ast.Call) and call_name(c) in ("_libsecp256k1_multi_mult", "_libsecp256k1_multi_mult_")]
    for c in cs:
        facts = [t for t, p in g.facts_at_ast(c) if p]
        ok = any(t.startswith("all(") and "[1]" in t for t in facts)
        rep.ob(rule, "btclib.curves.curve.multi_mult_var:all_terms", ok, mm.where(c), f"facts {facts}")
        # ... and what the guard walks is what is handed over: the *reduced* scalars, not the caller's spellings of them
        handed = [str(norm(a)) for a in c.args[:2]]
        walked: list[str] = []
        for t in facts:
            if str(t).startswith("all("):
                try:
                    tree = ast.parse(str(t), mode="eval")
                except SyntaxError:
                    continue
                for z in ast.walk(tree):
                    if isinstance(z, ast.Call) and call_name(z) == "zip":
                        walked = [str(norm(a)) for a in z.args[:2]]
        oks = bool(walked) and walked == handed
        rep.ob(rule, "btclib.curves.curve.multi_mult_var:guard_walks_what_is_handed", oks, mm.where(c), f"the guard walks {walked}, the bindings are handed {handed}" + ("" if oks else
               ": a scalar that is zero only after reduction (n, 2n, 32 zero bytes) passes the guard and is a ValueError in the bindings, where the Python arm drops the term"))
    sv = ctx.func("btclib.curves.curve._sum_var")
    filt = [n for n in own_nodes(sv.node) if isinstance(n, ast.comprehension) and any("[1]" in norm(i) for i in n.ifs)]
    rep.ob(rule, "btclib.curves.curve._sum_var:filters_infinity", bool(filt), sv.where(), "terms at infinity are filtered before the sum")


HF_SENSITIVE_MODULES = {"btclib.ecc.dsa", "btclib.ecc.ssa"}


def predicate_hf(ctx: Ctx, rep: Report, rule: str, only_module: str | None) -> None:
    """Every dispatch site asks the predicate with the hash function in scope
    (signature modules), or with None / sha256 where only arithmetic is delegated."""
    n = 0
    for fi in sorted(ctx.prog.functions.values(), key=lambda f: f.qualname):
        if only_module is not None and fi.module.name != only_module:
            continue
        calls = ctx.calls_to(fi, SERVES)
        if not calls or fi.qualname == SERVES:
            continue
        names = {x.id for x in own_nodes(fi.node) if isinstance(x, ast.Name)} | set(fi.params())
        attrs = {norm(x) for x in own_nodes(fi.node) if isinstance(x, ast.Attribute)}
        f = fi
        while f.parent is not None:
            f = f.parent
            names |= set(f.params())
        hf_in_scope = "hf" in names or "self._hf" in attrs or (fi.cls is not None and any("_hf" in _self_stores_of(m) for m in fi.cls.methods.values()))
        for c in calls:
            n += 1
            if len(c.args) < 2:
                rep.ob(rule, f"{fi.qualname}:arity", False, fi.where(c), "the predicate takes (ec, hf)")
                continue
            a1 = norm(c.args[1])
            # only the signature modules hand the bindings something that depends on the hash function
            # (RFC 6979 / BIP340 nonce derivation inside libsecp256k1); elsewhere the delegated call is
            # pure arithmetic and the hashing stays in Python
            if hf_in_scope and fi.module.name in HF_SENSITIVE_MODULES:
                ok = a1 in ("hf", "self._hf", "sha256")
                rep.ob(rule, f"{fi.qualname}:hf", ok, fi.where(c), f"asked with {a1}" if ok else
                       f"a hash function is in scope but the predicate is asked with `{a1}`: the bindings would serve a hash they do not implement")
            else:
                rep.ob(rule, f"{fi.qualname}:hf", a1 in ("None", "sha256", "hf", "self._hf"), fi.where(c), f"arithmetic-only delegation; asked with {a1}")


def rule_verification_failure_class(ctx: Ctx, rep: Report) -> None:
    """C04.verification_class: the delegated verify answers a bool, which the
    callers turn into BTClibRuntimeError("signature verification failed"). The
    Python arm has the arithmetic, and must reach the same class for the same
    signature on *every* failing path -- in particular for a K at infinity,
    which is a failed verification (BIP340 "Fail if is_infinite(K)", SEC 1
    4.1.4 step 5) and not a malformed input: it is refused explicitly, in that
    class, before any coordinate of K is taken (a coordinate helper asked
    about infinity raises BTClibValueError)."""
    rule = "C04.verification_class"
    for q in ("btclib.ecc.ssa._assert_as_valid_", "btclib.ecc.dsa._assert_as_valid_"):
        fi = ctx.func(q)
        g = ctx.cfg(fi)
        m: dict[str, str] = {}
        k = PT.find(fi.node, "$K = _jac_double_mult($$a, $$b, $$c, $$d, ec, $$f)", m)
        if k is None:
            rep.unknown(rule, q, fi.where(), "K is not computed by _jac_double_mult in the shape this rule reads")
            continue
        K = m["K"]
        inf = [n for t, pol, n in ctx.refusals(fi) if pol and (norm(t) == f"{K}[2] == 0" or norm(t) == f"not {K}[2]") or (not pol and norm(t) == f"{K}[2]")]
        cls_ok = False
        for n in inf:
            st = n.stmt
            rs = [x for x in ast.walk(st) if isinstance(x, ast.Raise)] if st is not None else []
            cls_ok |= any("BTClibRuntimeError" in str(norm(x)) for x in rs)
        uses = [c for c in own_nodes(fi.node) if isinstance(c, ast.Call) and call_name(c) in ("y_aff_from_jac_var", "x_aff_from_jac_var", "aff_from_jac_var")
                and any(isinstance(a, ast.Name) and a.id == K for a in c.args)]
        early = [u for u in uses if not inf or g.path_avoiding(g.nodes_containing(u), [n.id for n in inf]) is not None]
        rep.ob(rule, f"{q}:infinite_K", bool(inf) and cls_ok and not early, fi.where(inf[0].ast if inf else k),
               "an infinite K is a failed verification, raised as BTClibRuntimeError before any coordinate is taken" if inf and cls_ok and not early else
               ("K at infinity is not refused explicitly" if not inf else "K at infinity is refused in another class than the delegated arm's" if not cls_ok else
                f"`{norm(early[0])}` is reached with a K that may be infinite: the coordinate helper's BTClibValueError leaves where the delegated arm raises BTClibRuntimeError"))
    # key recovery: the bindings have one failure (a ValueError, converted); the Python arm's own raises should be of that class
    def own_classes(q: str, in_handlers: bool) -> set[str]:
        fi = ctx.func(q)
        out = set()
        for r in own_nodes(fi.node):
            if not isinstance(r, ast.Raise) or r.exc is None:
                continue
            inside = any(isinstance(a, ast.ExceptHandler) for a in _ancestors_of(r))
            if inside != in_handlers:
                continue
            c = r.exc.func if isinstance(r.exc, ast.Call) else r.exc
            out.add(str(norm(c)).split(".")[-1])
        return out
    py = own_classes("btclib.ecc.dsa._recover_pub_key_", False)
    bd = own_classes("btclib.ecc.dsa._libsecp256k1_recover_sec_", True)
    extra = sorted(py - bd - {"BTClibTypeError"})
    rep.ob(rule, "btclib.ecc.dsa.recover_pub_key_:infinite_Q_class", not extra, ctx.func("btclib.ecc.dsa._recover_pub_key_").where(),
           f"both arms fail in {sorted(bd)}" if not extra else
           f"the Python arm also raises {extra} (a recovered key at infinity, a key that does not verify) where the libsecp256k1 arm can only answer {sorted(bd)}: one signature, two exception classes")
    rep.floor(rule, 3)


def _ancestors_of(n: ast.AST):
    n = parent(n)
    while n is not None:
        yield n
        n = parent(n)


def rule_sec_prefix(ctx: Ctx, rep: Report) -> None:
    """C04.sec_prefix: libsecp256k1 parses the hybrid 0x06/0x07 SEC prefixes and
    `point_from_octets` refuses them (hybrid="no" is the library's default).
    Where one arm is handed a key's SEC octets raw and the other reads the same
    key as a parsed point, the raw arm refuses every prefix outside 02/03/04
    first -- else a hybrid key is accepted with the bindings and refused
    without them."""
    rule = "C04.sec_prefix"
    n = 0
    for fi, call in _bindings_calls(ctx):
        raw = [a for a in call.args if isinstance(a, ast.Attribute) and a.attr == "sec"]
        if not raw:
            continue
        base = norm(raw[0].value)
        if not any(isinstance(x, ast.Attribute) and x.attr == "point" and norm(x.value) == base for x in own_nodes(fi.node)):
            continue
        n += 1
        g = ctx.cfg(fi)
        from sa.ranges import refusal_constraints
        cs = refusal_constraints(ctx, fi)
        guards = [c for c in cs if str(c.subject) == f"{base}.sec[0]" and c.op == "not in" and isinstance(c.value, frozenset) and c.value <= frozenset({2, 3, 4}) and not c.from_fact]
        ids = [c.test_id for c in guards if c.test_id >= 0]
        ok = bool(ids) and g.path_avoiding(g.nodes_containing(call), ids) is None
        rep.ob(rule, f"{fi.qualname}:{norm(call.func)}({base}.sec)", ok, fi.where(call),
               "prefixes outside 02/03/04 are refused before the raw octets reach the bindings" if ok else
               f"`{base}.sec` reaches the bindings unparsed while the other arm reads `{base}.point`: a hybrid 0x06/0x07 key is accepted on this arm and refused on that one")
    rep.floor(rule, 1)


LOOSE = ("Octets", "Integer", "String", "PubKey", "PrvKey", "BinaryData", "Key")


def rule_raw_argument(ctx: Ctx, rep: Report) -> None:
    """C04.raw_argument: the library's loose argument types (Octets = bytes or
    hex text, Integer = int or octets, ...) are its own: the Python arm
    normalises them, libsecp256k1 takes bytes. A parameter of such a type
    reaches a bindings call only after it was rebound to its converted form
    on every path -- handed over raw, a hex-string hash that the Python arm
    verifies is a TypeError on the other arm."""
    rule = "C04.raw_argument"
    n = 0
    for fi, call in _bindings_calls(ctx):
        a = fi.node.args
        ann = {p_.arg: str(norm(p_.annotation)) for p_ in a.posonlyargs + a.args + a.kwonlyargs if p_.annotation is not None}
        g = ctx.cfg(fi)
        for x in list(call.args) + [k.value for k in call.keywords]:
            if not (isinstance(x, ast.Name) and x.id in ann and any(w in ann[x.id] for w in LOOSE)):
                continue
            n += 1
            binds = [s_ for s_ in own_nodes(fi.node) if isinstance(s_, ast.Assign) and any(isinstance(t, ast.Name) and t.id == x.id for t in s_.targets) and isinstance(s_.value, (ast.Call, ast.IfExp))]
            ok = bool(binds) and g.path_avoiding(g.nodes_containing(call), [i for b_ in binds for i in g.nodes_containing(b_)]) is None
            rep.ob(rule, f"{fi.qualname}:{norm(call.func)}({x.id})", ok, fi.where(call), f"`{x.id}` is rebound to its converted form before the call" if ok else
                   f"the parameter `{x.id}: {ann[x.id]}` reaches the bindings as the caller spelled it: a spelling the Python arm accepts (hex text, an int) is a TypeError / another value here")
    rep.floor(rule, 6)


def rule_predicate_args(ctx: Ctx, rep: Report) -> None:
    """C04.predicate_args: the predicate is asked with the hash function wherever
    one is in scope, and a class that keeps a token decides its arm once."""
    rule = "C04.predicate_args"
    predicate_hf(ctx, rep, rule, None)
    rep.floor(rule, 35)
    token_reask(ctx, rep, rule, None)


def token_reask(ctx: Ctx, rep: Report, rule: str, only_module: str | None) -> None:
    """Token classes decide their arm once, at construction."""
    for cls_q, field in TOKEN_FIELDS:
        if only_module is not None and not cls_q.startswith(only_module + "."):
            continue
        ci = ctx.cls(cls_q)
        for name, m in sorted(ci.methods.items()):
            if name in ("__init__", "__post_init__"):
                continue
            again = ctx.calls_to(m, SERVES)
            rep.ob(rule, f"reask:{cls_q}.{name}", not again, m.where(again[0] if again else None),
                   "the arm is selected by the token" if not again else
                   "asks the predicate again after construction: a backend switch between building the object and using it selects an arm the object's state was not laid out for")


def _self_stores_of(m: FuncInfo) -> set[str]:
    return {x.attr for x in own_nodes(m.node) if isinstance(x, ast.Attribute) and isinstance(x.ctx, ast.Store) and isinstance(x.value, ast.Name) and x.value.id == "self"}


def rule_one_comparator_(ctx: Ctx, rep: Report) -> None:
    """C04.one_comparator: the engine normalises a high s before either arm verifies; at s = n // 2 a non-strict test makes the arms disagree (C02.one_comparator, reported here too)."""
    from rules import C02
    tmp = Report("C02", rep.tier)
    tmp.quiet = True
    C02.rule_one_comparator(ctx, tmp)
    for o in tmp.obs:
        rep.ob("C04.one_comparator", o.instance, o.held, o.site, o.detail)
    rep.floor("C04.one_comparator", 5)


def rule_taproot_python_arm(ctx: Ctx, rep: Report) -> None:
    """C04.taproot_python_arm: the Python arm of the taproot tweak does what
    secp256k1_xonly_pubkey_tweak_add does -- lifts the internal key to even y,
    adds t*G, answers x and parity (C12.shapes' rows for _tweaked_pubkey /
    _tweaked_prvkey, reported here: an arm that skips the lift answers another
    output key than the bindings for every odd-y internal key)."""
    from rules import C12
    tmp = Report("C12", rep.tier)
    tmp.quiet = True
    C12.rule_shapes(ctx, tmp)
    n = 0
    for o in tmp.obs:
        if o.instance.startswith(("pubkey:", "prvkey:")):
            n += 1
            rep.ob("C04.taproot_python_arm", o.instance, o.held, o.site, o.detail)
    rep.floor("C04.taproot_python_arm", 3)


RAW_KEY_PROVED_OK = {
    "btclib.curves.sec_point._mult_sec_var": "private; both callers (silent_payments, ecies) hand it the octets pub_keyinfo_from_pub_key answered, which point_from_octets has already refused if hybrid",
}


def rule_raw_key_admission(ctx: Ctx, rep: Report) -> None:
    """C04.raw_key_admission: libsecp256k1's ec_pubkey_parse admits the hybrid
    06/07 prefixes always; `point_from_octets` admits them only when asked
    (`hybrid=True`). Where the bindings arm is handed a key parameter's octets
    as they came and the Python arm parses the same parameter itself, the
    Python arm asks for them -- else CHECKSIG with a hybrid key (valid wherever
    STRICTENC is off) succeeds with the bindings and fails without."""
    rule = "C04.raw_key_admission"
    n = 0
    for q, fi in sorted(ctx.prog.functions.items()):
        ifs = [i for i in own_nodes(fi.node) if isinstance(i, ast.If) and any(isinstance(c, ast.Call) and call_name(c) == "_libsecp256k1_serves" for c in ast.walk(i.test))]
        if not ifs:
            continue
        params = set(fi.params())
        for i in ifs:
            inside = {id(x) for s_ in i.body for x in ast.walk(s_)}
            raw = {a.id for s_ in i.body for c in ast.walk(s_) if isinstance(c, ast.Call) for a in c.args if isinstance(a, ast.Name) and a.id in params}
            for c in own_nodes(fi.node):
                if isinstance(c, ast.Call) and call_name(c) == "point_from_octets" and id(c) not in inside and c.args and isinstance(c.args[0], ast.Name) and c.args[0].id in raw:
                    n += 1
                    ok = any(k.arg == "hybrid" and isinstance(k.value, ast.Constant) and k.value.value is True for k in c.keywords)
                    if not ok and q in RAW_KEY_PROVED_OK:
                        rep.ob(rule, f"{q}:{c.args[0].id}", True, fi.where(c), f"reviewed: {RAW_KEY_PROVED_OK[q]}")
                        continue
                    rep.ob(rule, f"{q}:{c.args[0].id}", ok, fi.where(c), "the Python arm parses the key with hybrid=True, as ec_pubkey_parse does" if ok else
                           f"`{norm(c)}`: the bindings arm is handed `{c.args[0].id}` raw and parses 06/07 keys; this arm refuses them -- the two arms give different verdicts on a hybrid key")
    rep.floor(rule, 1)


def rule_fixed_size_library_args(ctx: Ctx, rep: Report) -> None:
    """C04.fixed_size_library_args: `libsecp256k1_xonly.tweak_add_check` takes a
    32-byte output key and raises ValueError for any other length, where the
    Python arm compares integers and answers a bool for every length. Its
    handler attributes every ValueError to the *internal* key, so the call is
    made only where the output key's length is known to be 32 (a test of
    `len(q) == 32` on the path)."""
    rule = "C04.fixed_size_library_args"
    n = 0
    for fi, call in _bindings_calls(ctx):
        if not norm(call.func).endswith("tweak_add_check") or not call.args or not isinstance(call.args[0], ast.Name):
            continue
        n += 1
        x = call.args[0].id
        facts = ctx.cfg(fi).facts_at_ast(call)
        ok = any(pol and str(t).replace(" ", "") in (f"len({x})==32", f"32==len({x})") for t, pol in facts)
        rep.ob(rule, f"{fi.qualname}:{x}", ok, fi.where(call), f"called only where len({x}) == 32" if ok else
               f"`{norm(call)[:70]}` is reached with `{x}` of any length: the bindings raise where the Python arm answers, and the handler blames the internal key")
    rep.floor(rule, 1)


def rule_unproven_octets_screened(ctx: Ctx, rep: Report) -> None:
    """C04.unproven_octets_screened: `_sec_from_pub_key` answers a key's SEC
    octets *unproven*, for callers whose next step -- a bindings call -- parses
    them anyway. That parse (ec_pubkey_parse) admits the hybrid 06/07 prefixes,
    which the Python arm's `point_from_octets` refuses: the octets it hands on
    from a byte spelling are screened for them first, or dsa.verify of a hybrid
    key is True with the bindings and False without."""
    from sa.ranges import refusal_constraints
    rule = "C04.unproven_octets_screened"
    fi = ctx.func("btclib.to_pub_key._sec_from_pub_key")
    cs = refusal_constraints(ctx, fi)
    hyb = frozenset({b"\x06", b"\x07"})
    ok_set = frozenset({2, 3, 4})
    screens = [c for c in cs if not c.from_fact and ((c.op == "in" and isinstance(c.value, frozenset) and c.value == hyb) or
                                                     (c.op == "in" and isinstance(c.value, frozenset) and c.value == frozenset({6, 7})) or
                                                     (c.op == "not in" and isinstance(c.value, frozenset) and (c.value <= ok_set or c.value <= frozenset({b"\x02", b"\x03", b"\x04"}))))]
    rep.ob(rule, "_sec_from_pub_key:screen", bool(screens), fi.where(), f"the hybrid prefixes are refused: `{screens[0].show()}`" if screens else
           f"no refusal of the 06/07 prefixes (refusals: {[c.show() for c in cs][:4]}): a hybrid key is a key on the bindings arm and not on the Python arm")
    if screens and screens[0].test_id >= 0:
        g = ctx.cfg(fi)
        # every return of octets that came from a byte spelling passes the screen
        for r in own_nodes(fi.node):
            if isinstance(r, ast.Return) and r.value is not None and any(isinstance(x, ast.Call) and call_name(x) == "_pub_keyinfo_from_pub_key" for x in ast.walk(r.value)):
                rep.ob(rule, "_sec_from_pub_key:unscreened_return", False, fi.where(r), f"`{norm(r)[:70]}` answers the unproven octets directly, past no screen")
    rep.floor(rule, 1)


def rule_points_compared_whole_(ctx: Ctx, rep: Report) -> None:
    """C04.points_compared_whole: a verification equation compares points on both coordinates (see sigcommon.rule_points_compared_whole)."""
    from rules.sigcommon import rule_points_compared_whole
    rule_points_compared_whole(ctx, rep, "C04.points_compared_whole", ('btclib.ecc', 'btclib.psbt', 'btclib.script'), 1)


def rule_hashable_membership_(ctx: Ctx, rep: Report) -> None:
    """C04.hashable_membership: no prefix test hashes a slice of octets that may be a bytearray (see sigcommon.rule_hashable_membership)."""
    from rules.sigcommon import rule_hashable_membership
    rule_hashable_membership(ctx, rep, "C04.hashable_membership", ('btclib.to_pub_key', 'btclib.ecc', 'btclib.curves', 'btclib.script'))


UNHONOURED = {"nonce": "the bindings derive their own RFC 6979 nonce", "lower_s": "the bindings always answer a low s", "commit_hash": "the bindings cannot tweak the nonce they derive"}


def rule_dispatch_honours_flags(ctx: Ctx, rep: Report) -> None:
    """C04.dispatch_honours_flags: libsecp256k1's signing derives its own nonce and
    always normalises s. A signing function that takes a caller's `nonce`, a
    `lower_s` flag or a commitment hands the work over only when those are at
    their defaults -- the dispatch test names each of them it has as a
    parameter -- or hands the parameter itself to the bindings call. With
    `lower_s` dropped from the test, `lower_s=False` is honoured on the Python
    arm and ignored on the other: two different (s, key_id) for one call."""
    rule = "C04.dispatch_honours_flags"
    n = 0
    for q, fi in sorted(ctx.prog.functions.items()):
        if not q.startswith(("btclib.ecc.dsa.", "btclib.ecc.ssa.", "btclib.ecc.bms.")):
            continue
        mine = [p_ for p_ in fi.params() if p_ in UNHONOURED]
        if not mine or "sign" not in fi.name:  # verification checks a commitment after either arm; it is signing that cannot delegate one
            continue
        for i in own_nodes(fi.node):
            if not (isinstance(i, ast.If) and any(isinstance(c, ast.Call) and call_name(c) == "_libsecp256k1_serves" for c in ast.walk(i.test))):
                continue
            tnames = {x.id for x in ast.walk(i.test) if isinstance(x, ast.Name)}
            handed = {x.id for s_ in i.body for c in ast.walk(s_) if isinstance(c, ast.Call) for a_ in list(c.args) + [k.value for k in c.keywords] for x in ast.walk(a_) if isinstance(x, ast.Name)}
            for p_ in mine:
                n += 1
                ok = p_ in tnames or p_ in handed
                rep.ob(rule, f"{q}:{p_}", ok, fi.where(i), f"`{p_}` gates the dispatch (or is handed to the bindings)" if ok else
                       f"the dispatch of `{fi.name}` does not ask about `{p_}`, and the bindings call is not given it: {UNHONOURED[p_]}, so the caller's `{p_}` is honoured on one arm only")
    rep.floor(rule, 5)


def rule_arms_answer_in_one_order(ctx: Ctx, rep: Report) -> None:
    """C04.arms_answer_in_one_order: `output_keys` derives the keys group by group on
    either arm and re-maps them to the order of the addresses afterwards; an arm
    that returns before the re-mapping answers in another order than the other
    (C16.keys_in_address_order, every return of the function, reported here for
    the two arms giving one answer)."""
    from rules import C16
    tmp = Report("C16", rep.tier)
    tmp.quiet = True
    C16.rule_keys_in_address_order(ctx, tmp)
    for o in tmp.obs:
        rep.ob("C04.arms_answer_in_one_order", o.instance, o.held, o.site, o.detail)
    rep.floor("C04.arms_answer_in_one_order", 1)


def rule_scan_takes_outputs_in_order(ctx: Ctx, rep: Report) -> None:
    """C04.scan_takes_outputs_in_order: BIP352's scan, and libsecp256k1's, walk the
    outputs in order and take the first one that is P_k itself *or* P_k plus a
    label. The Python arm does the same in one loop over the remaining outputs:
    the direct test `candidate == output` is made inside that loop, beside the
    label test -- a membership test of the candidate in the whole collection,
    made first, prefers the unlabelled output wherever it stands, and the two
    arms name different outputs when a labelled one precedes it."""
    rule = "C04.scan_takes_outputs_in_order"
    fi = ctx.func("btclib.silent_payments.scan_outputs")
    loops = [lp for lp in own_nodes(fi.node) if isinstance(lp, ast.For) and isinstance(lp.iter, ast.Name) and isinstance(lp.target, ast.Name)
             and any(isinstance(c, ast.Compare) and isinstance(c.ops[0], ast.Eq) and any(isinstance(x, ast.Name) and x.id == lp.target.id for x in ast.walk(c)) for c in ast.walk(lp))]
    rep.ob(rule, "scan_outputs:direct_test_in_loop", bool(loops), fi.where(loops[0] if loops else None), "the direct match is tested output by output" if loops else
           "no loop over the outputs compares the candidate with each output: the direct match is not taken in the outputs' order")
    coll = {lp.iter.id for lp in own_nodes(fi.node) if isinstance(lp, ast.For) and isinstance(lp.iter, ast.Name)} | \
           {lp.iter.body.id for lp in own_nodes(fi.node) if isinstance(lp, ast.For) and isinstance(lp.iter, ast.IfExp) and isinstance(lp.iter.body, ast.Name)}
    short = [c for c in own_nodes(fi.node) if isinstance(c, ast.Compare) and isinstance(c.ops[0], ast.In) and isinstance(c.comparators[0], ast.Name) and c.comparators[0].id in coll and isinstance(c.left, ast.Name)]
    rep.ob(rule, "scan_outputs:no_membership_shortcut", not short, fi.where(short[0] if short else None), "no membership shortcut over the whole collection" if not short else
           f"`{norm(short[0])}` asks the whole collection at once: the unlabelled match is preferred wherever it stands")
    rep.floor(rule, 2)


def rule_schnorr_key_range_on_both_arms(ctx: Ctx, rep: Report) -> None:
    """C04.schnorr_key_range_on_both_arms: the bindings refuse a BIP340 key outside the
    field with a ValueError the caller turns into False; on the Python arm the
    lift (`_y_even_var`) is that range check and comes before the key is
    written at a fixed width (C03.verify_range, reported here) -- else an
    integer key of 2**256 or more is an OverflowError without the bindings and
    False with them."""
    from rules import C03
    tmp = Report("C03", rep.tier)
    tmp.quiet = True
    C03.rule_verify_range(ctx, tmp)
    for o in tmp.obs:
        rep.ob("C04.schnorr_key_range_on_both_arms", o.instance, o.held, o.site, o.detail)
    rep.floor("C04.schnorr_key_range_on_both_arms", 1)


def rule_one_private_key_reader(ctx: Ctx, rep: Report) -> None:
    """C04.one_private_key_reader: the library has a wide reader of private keys
    (`int_from_prv_key`: int, octets, hex, WIF, xprv) and a narrow one
    (`scalar_from_prv_key`), and a module's two arms sit in the same module:
    each module reads private keys with one of the two, never both -- a
    bindings arm on the narrow reader refuses the WIF its Python sibling
    signs with."""
    rule = "C04.one_private_key_reader"
    n = 0
    for mname, mi in sorted(ctx.prog.modules.items()):
        used: dict[str, ast.Call] = {}
        for q, fi in sorted(ctx.prog.functions.items()):
            if fi.module is not mi:
                continue
            for c in own_nodes(fi.node):
                if isinstance(c, ast.Call) and call_name(c) in ("int_from_prv_key", "scalar_from_prv_key") and call_name(c) != fi.node.name:
                    used.setdefault(call_name(c), c)
        if not used or mname == "btclib.to_prv_key":
            continue
        n += 1
        ok = len(used) == 1
        first = sorted(used.items(), key=lambda kv: kv[1].lineno)[-1][1]
        rep.ob(rule, mname, ok, f"{mi.relpath}:{first.lineno}", f"reads private keys with `{next(iter(used))}` throughout" if ok else
               f"reads private keys with both `int_from_prv_key` and `scalar_from_prv_key`: the spellings one accepts and the other refuses (WIF, xprv) are accepted on one arm and refused on the other")
    rep.floor(rule, 10)


RULES = [
    ("C04.one_private_key_reader", rule_one_private_key_reader),

    ("C04.schnorr_key_range_on_both_arms", rule_schnorr_key_range_on_both_arms),

    ("C04.scan_takes_outputs_in_order", rule_scan_takes_outputs_in_order),

    ("C04.dispatch_honours_flags", rule_dispatch_honours_flags),
    ("C04.arms_answer_in_one_order", rule_arms_answer_in_one_order),

    ("C04.hashable_membership", rule_hashable_membership_),

    ("C04.points_compared_whole", rule_points_compared_whole_),
    ("C04.unproven_octets_screened", rule_unproven_octets_screened),
    ("C04.raw_key_admission", rule_raw_key_admission),
    ("C04.fixed_size_library_args", rule_fixed_size_library_args),
    ("C04.taproot_python_arm", rule_taproot_python_arm),
    ("C04.one_comparator", rule_one_comparator_),
    ("C04.single_door", rule_single_door),
    ("C04.flag_owner", rule_flag_owner),
    ("C04.guarded", rule_guarded),
    ("C04.no_foreign_escape", rule_no_foreign_escape),
    ("C04.both_arms", rule_both_arms),
    ("C04.expressible", rule_expressible),
    ("C04.predicate_args", rule_predicate_args),
    ("C04.verification_class", rule_verification_failure_class),
    ("C04.sec_prefix", rule_sec_prefix),
    ("C04.raw_argument", rule_raw_argument),
]

CONTROLS = [
    {"rule": "C04.raw_argument", "name": "the delegated ECDSA verify is handed the hash as the caller spelled it", "module": "btclib.ecc.dsa",
     "edit": lambda ctx: M.sub_expr(ctx, "btclib.ecc.dsa.assert_as_valid_", lambda n: isinstance(n, ast.Name) and n.id == "msg_hash_bytes" and isinstance(parent(n), ast.Call) and "verify" in norm(parent(n).func), "msg_hash")},
    {"rule": "C04.sec_prefix", "name": "the taproot tweak hands a hybrid key to the bindings (F17)", "module": "btclib.script.taproot",
     "edit": lambda ctx: M.drop_if(ctx, "btclib.script.taproot._tweaked_pubkey", lambda n: "pub_key.sec[0] not in" in norm(n.test))},
    {"rule": "C04.verification_class", "name": "an infinite K is asked for its y (F15)", "module": "btclib.ecc.ssa",
     "edit": lambda ctx: M.drop_if(ctx, "btclib.ecc.ssa._assert_as_valid_", lambda n: "KJ[2] == 0" in norm(n.test))},
    {"rule": "C04.single_door", "name": "dh imports the bindings directly", "module": "btclib.ecc.dh",
     "edit": lambda ctx: ctx.module("btclib.ecc.dh").source + "\nfrom btclib_secp256k1 import keys as _k\n"},
    {"rule": "C04.flag_owner", "name": "taproot caches the decision at import", "module": "btclib.script.taproot",
     "edit": lambda ctx: ctx.module("btclib.script.taproot").source + "\n_DELEGATE = _libsecp256k1_serves(secp256k1, None)\n"},
    {"rule": "C04.guarded", "name": "dh.diffie_hellman calls the bindings unconditionally", "module": "btclib.ecc.dh",
     "edit": lambda ctx: M.sub_expr(ctx, "btclib.ecc.dh.diffie_hellman", lambda n: isinstance(n, ast.Call) and call_name(n) == "_libsecp256k1_serves", "True")},
    {"rule": "C04.guarded", "name": "ssa.Signer builds the bindings signer whatever the flag says", "module": "btclib.ecc.ssa",
     "edit": lambda ctx: M.sub_expr(ctx, "btclib.ecc.ssa.Signer.__init__", lambda n: isinstance(n, ast.Call) and call_name(n) == "_libsecp256k1_serves", "True")},
    {"rule": "C04.no_foreign_escape", "name": "tapscript ssa_verify loses its ValueError handler", "module": "btclib.script.engine.tapscript",
     "edit": lambda ctx: M.sub_expr(ctx, "btclib.script.engine.tapscript.ssa_verify", lambda n: isinstance(n, ast.ExceptHandler), lambda n: norm(n).replace("ValueError", "KeyError", 1))},
    {"rule": "C04.no_foreign_escape", "name": "ssa.sign_ no longer converts the self-check's RuntimeError", "module": "btclib.ecc.ssa",
     "edit": lambda ctx: M.sub_expr(ctx, "btclib.ecc.ssa.sign_", lambda n: isinstance(n, ast.ExceptHandler), lambda n: norm(n).replace("RuntimeError", "KeyError", 1))},
    {"rule": "C04.both_arms", "name": "commit_nonce_ python arm replaced by a raise", "module": "btclib.ecc.commit_nonce",
     "edit": lambda ctx: _kill_python_arm(ctx, "btclib.ecc.commit_nonce.commit_nonce_")},
    {"rule": "C04.predicate_args", "name": "dsa.Signer asks the predicate without its hash function", "module": "btclib.ecc.dsa",
     "edit": lambda ctx: M.sub_expr(ctx, "btclib.ecc.dsa.Signer.__init__", lambda n: isinstance(n, ast.Call) and call_name(n) == "_libsecp256k1_serves", "_libsecp256k1_serves(ec, None)")},
    {"rule": "C04.predicate_args", "name": "ssa.Signer.sign_ re-asks the predicate", "module": "btclib.ecc.ssa",
     "edit": lambda ctx: M.sub_expr(ctx, "btclib.ecc.ssa.Signer.sign_", M.is_text("self._signer is None"), "not _libsecp256k1_serves(self._ec, self._hf)")},
    {"rule": "C04.expressible", "name": "_mult_checked delegates a zero scalar", "module": "btclib.curves.curve",
     "edit": lambda ctx: M.sub_expr(ctx, "btclib.curves.curve._mult_checked", M.is_text("m and _libsecp256k1_serves(ec, None)"), "_libsecp256k1_serves(ec, None)")},
]


def _kill_python_arm(ctx: Ctx, q: str):
    fi = ctx.prog.functions.get(q)
    if fi is None:
        return None
    ifs = [n for n in fi.node.body if isinstance(n, ast.If) and "_libsecp256k1_serves" in norm(n.test)]
    if not ifs:
        return None
    idx = fi.node.body.index(ifs[0])
    rest = fi.node.body[idx + 1:]
    if not rest:
        return None
    src = fi.module.source
    edits = [(rest[0], "raise BTClibValueError('no python arm')")] + [(s, "pass") for s in rest[1:]]
    return M.replace_nodes(src, edits)
