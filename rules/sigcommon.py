"""Rules shared by C02 (ECDSA) and C03 (BIP340): signature normalisation,
boolean totality of the verify wrappers."""

from __future__ import annotations

import ast

from sa.ctx import Ctx
from sa.effects import Raises
from sa.loader import FuncInfo, call_name, norm, own_nodes, parent
from sa.report import Report


def sig_params(fi: FuncInfo) -> list[str]:
    out = []
    a = fi.node.args
    for p in a.posonlyargs + a.args + a.kwonlyargs:
        if p.annotation is None:
            continue
        t = norm(p.annotation)
        if any(w in t for w in ("Sequence", "list", "Iterable", "tuple", "Mapping", "dict")):
            continue
        if "Sig" in t.replace("SigHash", "") and any(w in t for w in ("Octets", "String", "bytes", "str")):
            out.append(p.arg)
    return out


def rule_normalise(ctx: Ctx, rep: Report, rule: str, modules: list[str], floor: int) -> None:
    """Every function that takes `Sig | Octets` validates (assert_valid) or
    parses (with validation) the signature before its first use of r / s."""
    n = 0
    for m in modules:
        mi = ctx.module(m)
        for name, fi in sorted(mi.functions.items()):
            for p in sig_params(fi):
                g = ctx.cfg(fi)
                through = []
                for c in own_nodes(fi.node):
                    if not isinstance(c, ast.Call):
                        continue
                    # sig.assert_valid()
                    if isinstance(c.func, ast.Attribute) and c.func.attr == "assert_valid" and norm(c.func.value) == p and ctx.unconditional(g, c):
                        through += g.nodes_containing(c)
                    # sig = Sig.parse(sig) / Sig.b64decode(sig) without check_validity=False
                    if call_name(c) in ("parse", "b64decode", "b58decode") and c.args and norm(c.args[0]) == p:
                        off = any(k.arg == "check_validity" and isinstance(k.value, ast.Constant) and k.value.value is False for k in c.keywords)
                        par = parent(c)
                        if not off and isinstance(par, ast.Assign) and norm(par.targets[0]) == p:
                            through += g.nodes_containing(c)
                # delegating wrappers: pass sig on to a function that normalises
                uses = []
                deleg = []
                for x in own_nodes(fi.node):
                    if isinstance(x, ast.Attribute) and isinstance(x.value, ast.Name) and x.value.id == p and x.attr in ("r", "s", "rf", "dsa_sig") and isinstance(x.ctx, ast.Load):
                        uses.append(x)
                    if isinstance(x, ast.Call) and call_name(x) in ("_compact",) and any(norm(a) == p for a in x.args):
                        uses.append(x)
                    if isinstance(x, ast.Call) and any(isinstance(a, ast.Name) and a.id == p for a in x.args) and call_name(x) not in ("isinstance", "parse", "b64decode", "_compact", "type"):
                        deleg.append(x)
                key = f"{fi.qualname}({p})"
                if not uses:
                    if deleg:
                        # must hand it to a function that itself has a Sig|Octets parameter (checked there)
                        ok = all((lambda t: t in ctx.prog.functions and bool(sig_params(ctx.prog.functions[t])))(ctx.resolve_call(fi, d) or "") for d in deleg)
                        rep.ob(rule, key, ok, fi.where(), "passes the signature on to a function that normalises it" if ok else
                               f"hands an unvalidated signature to {[norm(d.func) for d in deleg]}")
                        n += 1
                    continue
                n += 1
                targets = [i for u in uses for i in g.nodes_containing(u)]
                path = g.path_avoiding(targets, through) if through else [g.entry]
                rep.ob(rule, key, path is None, fi.where(),
                       f"{p}.assert_valid() / Sig.parse({p}) dominates every read of its scalars" if path is None else
                       f"a read of {p}.r/.s is reachable without validation: a Sig built with check_validity=False (r, s out of range) is verified as is")
    rep.floor(rule, floor)


def rule_bool_total(ctx: Ctx, rep: Report, rule: str, quals: list[str]) -> None:
    R = Raises(ctx)
    for q in quals:
        fi = ctx.func(q)
        esc = {x for x in R.of(fi) if not R.is_subclass(x, "TypeError")}
        rep.ob(rule, q, not esc, fi.where(), "answers True/False: only a type error can leave" if not esc else
               f"may raise {sorted(x.replace('btclib.exceptions.', '') for x in esc)} instead of answering False")
        # the handler answers False
        tr = [n for n in own_nodes(fi.node) if isinstance(n, ast.Try)]
        for t in tr:
            for h in t.handlers:
                rets = [r for r in ast.walk(h) if isinstance(r, ast.Return)]
                ok = bool(rets) and all(isinstance(r.value, ast.Constant) and r.value.value is False for r in rets)
                rep.ob(rule, f"{q}:handler_false", ok, fi.where(h), "the handler returns False")


def rule_config_forwarded(ctx: Ctx, rep: Report, rule: str, cls_qual: str, fields: dict[str, str], floor: int, fallback_pkg: str | None = None) -> None:
    """A signer object holds the curve and the hash function it was built
    with (`self._ec`, `self._hf`); every call it makes to a btclib function
    that has a parameter of that meaning (`ec`, `hf`) hands its own over --
    an omitted argument falls back to the callee's default (secp256k1 /
    sha256), and the object then signs under another scheme than the one it
    was asked for."""
    ci = ctx.cls(cls_qual)
    n = 0
    for mname, fi in sorted(ci.methods.items()):
        if not fi.params() or fi.params()[0] != "self":
            continue  # an alternative constructor has no object yet: it forwards its own arguments
        for c in own_nodes(fi.node):
            if not isinstance(c, ast.Call):
                continue
            q = ctx.resolve_call(fi, c)
            callee = ctx.prog.functions.get(q or "")
            if callee is None and isinstance(c.func, ast.Attribute) and not (isinstance(c.func.value, ast.Name) and c.func.value.id == "self"):
                # a method on a receiver the resolver cannot type: judged when every definition of that
                # name in the receiver's package takes the parameter -- then some argument must be the field
                pkg = ci.qualname.rsplit(".", 3)[0] if fallback_pkg is None else fallback_pkg
                cands = [f for f in ctx.prog.functions.values() if f.cls is not None and f.qualname.startswith(pkg + ".") and f.qualname.rsplit(".", 1)[1] == c.func.attr]
                for fld, pname in fields.items():
                    if cands and all(pname in f.params() for f in cands):
                        n += 1
                        okk = any(norm(a) == f"self.{fld}" for a in c.args) or any(k.arg == pname and norm(k.value) == f"self.{fld}" for k in c.keywords)
                        rep.ob(rule, f"{ci.name}.{mname}->{c.func.attr}({pname})@{c.lineno - fi.node.lineno}", okk, fi.where(c),
                               f"hands over self.{fld}" if okk else f"`{pname}` is not handed over: the callee's default stands in for the object's own {fld}")
                continue
            if callee is None or callee.cls is ci:
                continue
            ps = callee.params()
            if ps and ps[0] in ("self", "cls"):
                ps = ps[1:]
            a = callee.node.args
            kwonly = {x.arg for x in a.kwonlyargs}
            for fld, pname in fields.items():
                if pname not in ps:
                    continue
                n += 1
                given = None
                for k in c.keywords:
                    if k.arg == pname:
                        given = k.value
                if given is None and pname not in kwonly:
                    pos = ps.index(pname)
                    if pos < len(c.args) and not any(isinstance(x, ast.Starred) for x in c.args[: pos + 1]):
                        given = c.args[pos]
                key = f"{ci.name}.{mname}->{callee.qualname.rsplit('.', 1)[1]}({pname})"
                if given is None:
                    rep.ob(rule, key, False, fi.where(c), f"`{pname}` is not handed over: the callee's default stands in for the signer's own {fld}")
                else:
                    # the constructor's own parameter, which is what it stores in the field
                    stored = {norm(x.value) for x in own_nodes(fi.node) if isinstance(x, ast.Assign) and any(norm(t) == f"self.{fld}" for t in x.targets)}
                    ok = norm(given) == f"self.{fld}" or f"self.{fld}" in norm(given) or norm(given) in stored
                    rep.ob(rule, key, ok, fi.where(c), f"{pname}={norm(given)}" + ("" if ok else f": not the signer's own {fld}"))
    rep.floor(rule, floor)


OWN_FIELD_NOT_FORWARDED_OK = {
    ("btclib.bip32.key_origin.BIP32KeyOrigin.to_dict", "str_from_der_path", "master_fingerprint"):
        "the dict carries the fingerprint under its own key; the path is written without it",
}


def rule_own_fields_forwarded(ctx: Ctx, rep: Report, rule: str, module_prefixes: tuple[str, ...], floor: int) -> None:
    """An object that holds a value under a name (a dataclass field, or an
    attribute its constructor stores from a same-named parameter: `network`,
    `ec`, `hf`, `psbt_version`, `compressed`, ...) and calls a function that
    has a parameter of that name hands its own value over -- an omitted
    argument means the callee's default is in force where the caller's choice
    should be. Inferred over the package: 157 such call sites, 1 reviewed
    exception; the instances are re-derived from the source on every run."""
    n = 0
    for cq, ci in sorted(ctx.prog.classes.items()):
        if not any(cq.startswith(p_) for p_ in module_prefixes):
            continue
        init = ci.methods.get("__init__") or ci.methods.get("__post_init__")
        fields: dict[str, str] = {}
        if init is not None:
            for a in own_nodes(init.node):
                if isinstance(a, ast.Assign) and isinstance(a.value, ast.Name) and a.value.id in init.params():
                    for t in a.targets:
                        if isinstance(t, ast.Attribute) and isinstance(t.value, ast.Name) and t.value.id == "self":
                            fields[t.attr] = a.value.id
        for f in ci.fields():
            fields.setdefault(f, f)
        if not fields:
            continue
        for mname, fi in sorted(ci.methods.items()):
            if not fi.params() or fi.params()[0] != "self":
                continue
            for c in own_nodes(fi.node):
                if not isinstance(c, ast.Call):
                    continue
                callee = ctx.prog.functions.get(ctx.resolve_call(fi, c) or "")
                if callee is None or callee.cls is ci:
                    continue
                ps = callee.params()
                if ps and ps[0] in ("self", "cls"):
                    ps = ps[1:]
                kwonly = {x.arg for x in callee.node.args.kwonlyargs}
                if any(isinstance(x, ast.Starred) for x in c.args) or any(k.arg is None for k in c.keywords):
                    continue
                for fld, pname in sorted(fields.items()):
                    if pname not in ps or pname in fi.params():
                        continue  # the method has its own parameter of that name: the caller of the method decides
                    n += 1
                    given = any(k.arg == pname for k in c.keywords) or (pname not in kwonly and ps.index(pname) < len(c.args))
                    key = f"{ci.name}.{mname}->{callee.qualname.rsplit('.', 1)[1]}({pname})@{c.lineno - fi.node.lineno}"
                    why = OWN_FIELD_NOT_FORWARDED_OK.get((fi.qualname, callee.qualname.rsplit(".", 1)[1], pname))
                    rep.ob(rule, key, given or why is not None, fi.where(c),
                           "handed over" if given else f"reviewed: {why}" if why else
                           f"`{callee.qualname.rsplit('.', 1)[1]}` has a parameter `{pname}` and {ci.name} holds self.{fld}, but the call leaves it out: the callee's default is in force, not the object's own value")
    rep.floor(rule, floor)


# (caller, callee's name, parameter) -> why the caller rightly does not hand its same-named parameter on. Read one by one.
PARAM_NOT_FORWARDED_OK = {
    ("btclib.b58.wif_from_prv_key", "prv_keyinfo_from_prv_key", "network"): "asked without it on purpose: what the key itself says comes back, and the caller's choice is applied after (comment at the call)",
    ("btclib.b58.wif_from_prv_key", "prv_keyinfo_from_prv_key", "compressed"): "same call, same reason",
    ("btclib.descriptors.key_expression._parse_key", "KeyExpression", "x_only"): "x_only selects the parser of the key text; the KeyExpression field of that name is derived by the constructor from the key",
    ("btclib.ecc.bms.gen_keys", "p2pkh", "network"): "the address is computed from the WIF just built, which carries network and compression",
    ("btclib.ecc.bms.gen_keys", "p2pkh", "compressed"): "same call, same reason",
    ("btclib.p2p.handshake.Version.__init__", "NetworkAddress", "services"): "the default address of an unset field; Version.services is the sender's own service bits, not the address's",
    ("btclib.psbt_signer.SoftwareSigner.sign_ecdsa", "sign_", "pub_key", ): "pub_key names the key to sign *for* (looked up in the signer); dsa.sign_'s optional pub_key is a precomputed public key of the private one",
    ("btclib.script.engine.verify_input", "verify_script", "precomputed"): "the legacy scriptSig / scriptPubKey / redeem-script runs take no BIP143/341 precomputation: only the witness program does",
    ("btclib.wallet.key_wallet.KeyWallet.__init__", "add", "script_type"): "add() reads self.script_type, which __init__ has just stored",
}
NOT_CONFIG = {"check_validity"}  # when to validate, not what to compute: forwarded or not by each constructor's own design (14 reviewed sites differ)


def all_fields(ctx: Ctx, ci, _seen=None) -> list[str]:
    """Dataclass fields of a class, inherited ones first (the synthesized __init__'s parameters)."""
    _seen = _seen or set()
    if ci.qualname in _seen:
        return []
    _seen.add(ci.qualname)
    out: list[str] = []
    for b in (ci.base_names() if callable(getattr(ci, "base_names", None)) else getattr(ci, "base_names", [])):
        try:
            q = ctx.prog.resolve_name(ci.module, ast.parse(b, mode="eval").body)
        except SyntaxError:
            q = None
        base = ctx.prog.classes.get(q or "")
        if base is not None:
            out += [f for f in all_fields(ctx, base, _seen) if f not in out]
    out += [f for f in ci.fields() if f not in out]
    return out


def rule_params_forwarded(ctx: Ctx, rep: Report, rule: str, module_prefixes: tuple[str, ...], floor: int) -> None:
    """A function that takes a parameter and calls a btclib function (or
    constructor) with a parameter of the same name hands it on. Across the
    package that holds at 2 556 of 2 568 call sites (the 12 others are read
    and listed above); the remaining way to write such a call is to forget the
    argument -- and then the callee's default (`secp256k1`, `sha256`,
    `"mainnet"`, `b""`, `None`) silently replaces what the caller was told."""
    n = 0
    for q, fi in sorted(ctx.prog.functions.items()):
        if fi.parent is not None or not any(q.startswith(p_) for p_ in module_prefixes):
            continue
        fps = [p_ for p_ in fi.params() if p_ not in ("self", "cls") and p_ not in NOT_CONFIG]
        if not fps:
            continue
        for c in own_nodes(fi.node):
            if not isinstance(c, ast.Call):
                continue
            tq = ctx.resolve_call(fi, c)
            callee = ctx.prog.functions.get(tq or "")
            if callee is None:
                ci = ctx.prog.classes.get(tq or "")
                if ci is None and norm(c.func) == "cls" and fi.cls is not None:
                    ci = fi.cls
                if ci is None:
                    continue
                init = ci.methods.get("__init__")
                if init is None:
                    ps, kwonly = all_fields(ctx, ci), set(all_fields(ctx, ci)) - set(ci.fields())  # inherited fields: by keyword (order across bases is theirs)
                else:
                    ps, kwonly = init.params()[1:], {x.arg for x in init.node.args.kwonlyargs}
                cname = ci.name
            else:
                if callee is fi:
                    continue
                ps = callee.params()
                if ps and ps[0] in ("self", "cls"):
                    ps = ps[1:]
                kwonly = {x.arg for x in callee.node.args.kwonlyargs}
                cname = callee.qualname.rsplit(".", 1)[1]
            if any(isinstance(x, ast.Starred) for x in c.args) or any(k.arg is None for k in c.keywords):
                continue
            for p_ in fps:
                if p_ not in ps:
                    continue
                n += 1
                given = any(k.arg == p_ for k in c.keywords) or (p_ not in kwonly and ps.index(p_) < len(c.args))
                why = PARAM_NOT_FORWARDED_OK.get((q, cname, p_))
                if given or why is not None:
                    if not given:
                        rep.ob(rule, f"{q}->{cname}({p_})", True, fi.where(c), f"reviewed: {why}")
                    continue
                rep.ob(rule, f"{q}->{cname}({p_})@{c.lineno - fi.node.lineno}", False, fi.where(c),
                       f"`{fi.name}` takes `{p_}` and calls `{cname}`, which has a parameter `{p_}`, without handing it on: the callee's default stands in for the caller's value")
    # one held obligation per rule run keeps the evidence readable: the count of sites examined
    if n < floor:
        from sa.loader import AnalysisError
        raise AnalysisError(f"{rule}: only {n} call sites with a same-named parameter were found, {floor} expected")
    rep.ob(rule, "sites_examined", True, "btclib:1", f"{n} call sites with a same-named parameter examined; those not listed as violations forward it (or are reviewed)")
    rep.floor(rule, 1)


def _alias_arms(e: ast.AST) -> list[ast.AST]:
    if isinstance(e, (ast.Name, ast.Attribute)):
        return [e]
    if isinstance(e, ast.IfExp):
        return _alias_arms(e.body) + _alias_arms(e.orelse)
    if isinstance(e, ast.BoolOp):
        return [a for v in e.values for a in _alias_arms(v)]
    return []


def _int_typed(ctx: Ctx, fi: FuncInfo, e: ast.AST) -> bool:
    """Is the aliased source an int by its declaration (a parameter or a dataclass field annotated int)? `+=` rebinds an int."""
    if isinstance(e, ast.Name):
        a = fi.node.args
        for p_ in a.posonlyargs + a.args + a.kwonlyargs:
            if p_.arg == e.id and p_.annotation is not None:
                return str(norm(p_.annotation)).replace(" ", "") in ("int", "int|None", "Integer") and "Integer" not in str(norm(p_.annotation)) or str(norm(p_.annotation)) == "int"
    if isinstance(e, ast.Attribute) and isinstance(e.value, ast.Name) and e.value.id == "self" and fi.cls is not None:
        ann = getattr(fi.cls, "field_annotations", None)
        ann = ann() if callable(ann) else ann
        if isinstance(ann, dict) and e.attr in ann:
            return str(ann[e.attr]).replace(" ", "") in ("int", "int|None")
        for st in fi.cls.node.body:
            if isinstance(st, ast.AnnAssign) and isinstance(st.target, ast.Name) and st.target.id == e.attr:
                return str(norm(st.annotation)).replace(" ", "") in ("int", "int|None")
    return False


def rule_no_inplace_growth(ctx: Ctx, rep: Report, rule: str, module_prefixes: tuple[str, ...], floor: int) -> None:
    """`x = <parameter or a field of one>` followed by `x += ...` grows the
    caller's own object whenever it is a mutable buffer -- every Octets
    argument and every bytes field may be a bytearray. The function then
    changes what it was handed (a key gains four bytes, a message's magic
    becomes 32 bytes long), answers differently the second time, and may hand
    back the caller's own buffer. A local that is later grown in place starts
    from a fresh object (`bytes(x)`, `x + y`, a slice), or is of a type `+=`
    cannot mutate (reviewed table: ints)."""
    n = 0
    for q, fi in sorted(ctx.prog.functions.items()):
        if not any(q.startswith(p_) for p_ in module_prefixes):
            continue
        params = set(fi.params())
        grown = {a.target.id: a for a in own_nodes(fi.node) if isinstance(a, ast.AugAssign) and isinstance(a.op, (ast.Add, ast.BitOr, ast.Mult)) and isinstance(a.target, ast.Name)}
        for nm, aug in sorted(grown.items()):
            for d in own_nodes(fi.node):
                if not (isinstance(d, ast.Assign) and any(isinstance(t, ast.Name) and t.id == nm for t in d.targets)):
                    continue
                arms = [r for r in _alias_arms(d.value) if (isinstance(r, ast.Name) and r.id in params) or
                        (isinstance(r, ast.Attribute) and isinstance(r.value, ast.Name) and r.value.id in params)]
                if not arms:
                    continue
                n += 1
                why = "an int by its declaration: += rebinds it" if all(_int_typed(ctx, fi, r) for r in arms) else None
                rep.ob(rule, f"{q}:{norm(arms[0])}+=", why is not None, fi.where(aug), why if why else
                       f"`{norm(d)[:60]}` then `{norm(aug)[:40]}`: when `{norm(arms[0])}` is a bytearray the += extends the caller's own object")
    rep.ob(rule, "scanned", True, "btclib:1", f"{n} grown aliases of parameters or their fields found in {module_prefixes}")
    rep.floor(rule, floor)


SUM_CALLEES = {"multi_mult_var", "_multi_mult_var", "nonce_agg", "pub_key_sum", "prv_key_sum", "key_agg", "partial_sig_agg", "partial_sigs_agg"}
POSITION_KEYED = {"eligible_pub_keys": "returns dict[int, Point] keyed by input index: one entry per eligible input"}


def rule_terms_are_a_multiset(ctx: Ctx, rep: Report, rule: str, module_prefixes: tuple[str, ...], floor: int) -> None:
    """What is handed to a sum over terms (a multi-scalar multiplication, a nonce
    / key / share aggregation) is one term per seat: two equal terms are two
    terms. The argument is therefore never built through a set, or through a
    dict keyed by the term (`dict(zip(points, scalars))`, `{x: ...}`), whose
    construction keeps one of the equal terms and drops the rest -- the sum is
    then another sum, silently. `.values()` of a dict keyed by position is
    fine and is a reviewed table."""
    from sa.canon import expand
    n = 0
    for q, fi in sorted(ctx.prog.functions.items()):
        if not any(q.startswith(p_) for p_ in module_prefixes):
            continue
        for c in own_nodes(fi.node):
            if not (isinstance(c, ast.Call) and call_name(c) in SUM_CALLEES and c.args):
                continue
            for a in c.args[:2]:
                if isinstance(a, ast.Constant):
                    continue
                n += 1
                text = str(expand(fi, a))
                try:
                    tree = ast.parse(text, mode="eval")
                except SyntaxError:
                    continue
                bad = [x for x in ast.walk(tree) if isinstance(x, (ast.Set, ast.SetComp, ast.DictComp)) or
                       (isinstance(x, ast.Call) and call_name(x) in ("set", "frozenset", "dict", "fromkeys", "values", "keys", "items"))]
                # `.values()` of a dict keyed by position (annotated dict[int, ...] by the function that builds it) is one per seat
                why = None
                vals = [x for x in bad if isinstance(x, ast.Call) and call_name(x) in ("values",)]
                if bad and len(vals) == len(bad):
                    srcs = [call_name(x.func.value) if isinstance(x.func, ast.Attribute) and isinstance(x.func.value, ast.Call) else None for x in vals]
                    if all(s_ in POSITION_KEYED for s_ in srcs):
                        why = POSITION_KEYED[srcs[0]]
                key = f"{q}:{call_name(c)}({str(norm(a))[:40]})"
                if bad and why is None:
                    rep.ob(rule, key, False, fi.where(c), f"the terms pass through `{norm(bad[0])[:60]}`: equal terms collapse into one and the sum is short")
                else:
                    rep.ob(rule, key, True, fi.where(c), f"reviewed: {why}" if bad else "one term per seat")
    rep.floor(rule, floor)


MUTABLE_CONTAINERS = {"list", "dict", "set", "bytearray", "List", "Dict", "Set", "deque", "defaultdict"}
CACHE_DECORATORS = {"lru_cache", "cache"}
UNHASHABLE = {"bytearray", "memoryview", "list", "dict", "set", "List", "Dict", "Set", "Sequence", "Iterable", "Mapping", "MutableSequence", "BytesIO", "BinaryIO"}
CONSUMERS = {"list", "tuple", "sorted", "set", "frozenset", "any", "all", "sum", "max", "min", "dict", "enumerate", "zip", "map", "filter", "reversed", "iter", "next"}


def _decorator_names(fn: ast.AST) -> set[str]:
    out = set()
    for d in getattr(fn, "decorator_list", []):
        f = d.func if isinstance(d, ast.Call) else d
        out.add(f.attr if isinstance(f, ast.Attribute) else f.id if isinstance(f, ast.Name) else "")
    return out


def _alias_value(ctx: Ctx, name: str) -> ast.AST | None:
    """The definition of a type alias: in btclib.alias, or (PubKey, PrvKey, BIP32Key, ...) at the
    top level of the module that owns it -- an assignment whose value is a union / subscript / name."""
    cache = getattr(ctx, "_alias_cache", None)
    if cache is None:
        cache = {}
        for mq, mi in sorted(ctx.prog.modules.items(), key=lambda kv: (kv[0] != "btclib.alias", kv[0])):
            for st in mi.tree.body:
                if isinstance(st, ast.Assign) and len(st.targets) == 1 and isinstance(st.targets[0], ast.Name) and st.targets[0].id[:1].isupper() \
                        and (isinstance(st.value, ast.Subscript) or (isinstance(st.value, ast.BinOp) and isinstance(st.value.op, ast.BitOr))):
                    cache.setdefault(st.targets[0].id, st.value)
        try:
            ctx._alias_cache = cache
        except AttributeError:
            pass
    return cache.get(name)


def _annotation_names(ctx: Ctx, ann: ast.AST | None, _depth: int = 0) -> set[str]:
    """The type names an annotation mentions, aliases of btclib.alias opened."""
    if ann is None:
        return set()
    if isinstance(ann, ast.Constant) and isinstance(ann.value, str):
        try:
            ann = ast.parse(ann.value, mode="eval").body
        except SyntaxError:
            return set()
    out: set[str] = set()
    for n in ast.walk(ann):
        nm = n.id if isinstance(n, ast.Name) else n.attr if isinstance(n, ast.Attribute) else None
        if nm is None:
            continue
        out.add(nm)
        if _depth < 4:
            v = _alias_value(ctx, nm)
            if v is not None:
                out |= _annotation_names(ctx, v, _depth + 1)
    return out


IMMUTABLE_TYPES = {"int", "bytes", "str", "bool", "float", "tuple", "frozenset", "None", "Optional", "Literal", "Decimal", "Union", "ClassVar", "Final"}


def _is_frozen_dc(ci) -> bool:
    return any(isinstance(d, ast.Call) and any(k.arg == "frozen" and isinstance(k.value, ast.Constant) and k.value.value is True for k in d.keywords)
               for d in ci.node.decorator_list)


def _deeply_frozen(ctx: Ctx, ci, _seen: frozenset = frozenset()) -> tuple[bool, str]:
    """The class is a frozen dataclass whose fields are of immutable types (or of
    deeply frozen classes themselves): nothing reachable from an instance can change."""
    if not _is_frozen_dc(ci):
        return False, "whose fields can be assigned"
    for st in ci.node.body:
        if not (isinstance(st, ast.AnnAssign) and isinstance(st.target, ast.Name)):
            continue
        for nm in sorted(_annotation_names(ctx, st.annotation)):
            if nm in IMMUTABLE_TYPES:
                continue
            if _alias_value(ctx, nm) is not None:
                continue  # an alias: what it opens to is in the set already
            cands = [c for q, c in ctx.prog.classes.items() if q.rsplit(".", 1)[-1] == nm]
            if cands and nm not in _seen and all(_deeply_frozen(ctx, c, _seen | {nm})[0] for c in cands):
                continue
            return False, f"whose field `{st.target.id}` holds a `{nm}`, which can change under it"
    return True, ""


def rule_no_stale_cache(ctx: Ctx, rep: Report, rule: str, module_prefixes: tuple[str, ...], floor: int) -> None:
    """A memoized answer is the same object on every call. (a) A function under
    `lru_cache` / `cache` whose answer is, or holds, a mutable container never
    lets it out: no caller returns it, stores it, or grows it -- one caller's
    edit would be every later caller's answer. (b) A `cached_property` lives
    only in a frozen dataclass: in a mutable one the cached value outlives the
    fields it was computed from."""
    n = 0
    cached: dict[str, FuncInfo] = {}
    for q, fi in sorted(ctx.prog.functions.items()):
        decs = _decorator_names(fi.node)
        if decs & CACHE_DECORATORS:
            names = _annotation_names(ctx, fi.node.returns)
            if names & MUTABLE_CONTAINERS:
                cached[q.rsplit(".", 1)[-1]] = fi
    # (c) the arguments of a memoized function are its cache key: where a parameter of it admits an
    # unhashable spelling, no caller hands it its own loose parameter as it came
    loose_cached: dict[str, tuple[FuncInfo, list[int]]] = {}
    for q, fi in sorted(ctx.prog.functions.items()):
        if _decorator_names(fi.node) & CACHE_DECORATORS:
            a = fi.node.args
            idx = [i for i, p_ in enumerate(a.posonlyargs + a.args) if _annotation_names(ctx, p_.annotation) & UNHASHABLE]
            if idx:
                loose_cached[q.rsplit(".", 1)[-1]] = (fi, idx)
    for q, fi in sorted(ctx.prog.functions.items()):
        if not any(q.startswith(p_) for p_ in module_prefixes):
            continue
        a = fi.node.args
        mine = {p_.arg for p_ in a.posonlyargs + a.args + a.kwonlyargs if _annotation_names(ctx, p_.annotation) & UNHASHABLE}
        for c in own_nodes(fi.node):
            if not (isinstance(c, ast.Call) and call_name(c) in loose_cached):
                continue
            cf, idx = loose_cached[call_name(c)]
            for i in idx:
                if i >= len(c.args):
                    continue
                x = c.args[i]
                n += 1
                raw = isinstance(x, ast.Name) and x.id in mine and not _rebound_before(fi, x.id, c) and not any(
                    pol and str(t).replace(" ", "").startswith(f"isinstance({x.id},") for t, pol in ctx.cfg(fi).facts_at_ast(c))
                rep.ob(rule, f"{q}->{cf.name}[{i}]:hashable", not raw, fi.where(c), "the memo's key is a converted (hashable) value" if not raw else
                       f"`{norm(x)}` reaches the memoized `{cf.name}` as the caller spelled it, and `{_ann_text((a.posonlyargs + a.args + a.kwonlyargs)[[p_.arg for p_ in a.posonlyargs + a.args + a.kwonlyargs].index(x.id)].annotation)}` admits unhashable spellings: a bytearray key is a TypeError, a writable memoryview a ValueError read as 'does not verify'")
    for mq, mi in sorted(ctx.prog.modules.items()):
        if not any(mq.startswith(p_) for p_ in module_prefixes):
            continue
        for cname, ci in sorted(mi.classes.items()):
            cps = [m for m in ci.methods.values() if "cached_property" in _decorator_names(m.node)]
            if not cps:
                continue
            frozen, why_not = _deeply_frozen(ctx, ci)
            for m in cps:
                n += 1
                mut = _annotation_names(ctx, m.node.returns) & MUTABLE_CONTAINERS
                rep.ob(rule, f"{mq}.{cname}.{m.node.name}:immutable_answer", not mut, m.where(),
                       "the cached value is of an immutable type" if not mut else
                       f"a cached_property answering a {'list' if 'list' in mut else sorted(mut)[0]}: every read hands out the one cached object, and a caller's edit is every later read's answer")
                rep.ob(rule, f"{mq}.{cname}.{m.node.name}:frozen_owner", frozen, m.where(),
                       "cached_property of a frozen dataclass of immutable fields" if frozen else
                       f"cached_property in {cname}, {why_not}: the value computed once is answered after what it was computed from has changed")
    for q, fi in sorted(ctx.prog.functions.items()):
        if not any(q.startswith(p_) for p_ in module_prefixes):
            continue
        for a in own_nodes(fi.node):
            if not (isinstance(a, (ast.Assign, ast.Return)) and a.value is not None):
                continue
            calls = [c for c in ast.walk(a.value) if isinstance(c, ast.Call) and call_name(c) in cached]
            if not calls:
                continue
            c = calls[0]
            n += 1
            if isinstance(a, ast.Return):
                direct = a.value is c
                rep.ob(rule, f"{q}:returns:{call_name(c)}", not direct, fi.where(a),
                       "the cached container is read, not handed out" if not direct else f"returns the very object {call_name(c)} memoizes: the caller's edit is every later caller's answer")
                continue
            if a.value is not c:
                continue
            bound: set[str] = set()
            for t in a.targets:
                for x in ast.walk(t):
                    if isinstance(x, ast.Name):
                        bound.add(x.id)
            leaks = []
            for r in own_nodes(fi.node):
                if isinstance(r, ast.Return) and r.value is not None:
                    vals = r.value.elts if isinstance(r.value, ast.Tuple) else [r.value]
                    leaks += [v for v in vals if isinstance(v, ast.Name) and v.id in bound]
                if isinstance(r, ast.AugAssign) and isinstance(r.target, ast.Name) and r.target.id in bound:
                    leaks.append(r)
                if isinstance(r, ast.Call) and isinstance(r.func, ast.Attribute) and isinstance(r.func.value, ast.Name) and r.func.value.id in bound \
                        and r.func.attr in {"append", "extend", "insert", "pop", "remove", "clear", "sort", "reverse", "update", "setdefault", "add"}:
                    leaks.append(r)
            rep.ob(rule, f"{q}:holds:{call_name(c)}", not leaks, fi.where(leaks[0] if leaks else a),
                   "the cached container is read, not handed out or edited" if not leaks else
                   f"`{norm(leaks[0])[:60]}`: the object {call_name(c)} memoizes is handed out or edited -- one caller's edit is every later caller's answer")
    # (d) a memo kept by hand in the instance __dict__ (a frozen dataclass has no other place) is
    # the same thing: what is stored there and is a mutable container is answered as a copy
    for q, fi in sorted(ctx.prog.functions.items()):
        if not any(q.startswith(p_) for p_ in module_prefixes) or fi.cls is None:
            continue
        kept = set()
        for a in own_nodes(fi.node):
            if isinstance(a, ast.Assign):
                tg = [t for t in a.targets for t in ast.walk(t)]
                if any(isinstance(t, ast.Subscript) and str(norm(t.value)).endswith(".__dict__") for t in tg) or "__dict__" in str(norm(a.value)):
                    kept |= {t.id for t in a.targets if isinstance(t, ast.Name)}
                    kept |= {t.id for t in tg if isinstance(t, ast.Name)}
        if not kept or not (_annotation_names(ctx, fi.node.returns) & MUTABLE_CONTAINERS):
            continue
        for r in own_nodes(fi.node):
            if isinstance(r, ast.Return) and r.value is not None:
                n += 1
                direct = isinstance(r.value, ast.Name) and r.value.id in kept
                rep.ob(rule, f"{q}:hand_kept_memo", not direct, fi.where(r), "the kept value is answered as a copy" if not direct else
                       f"`{norm(r)}` answers the very object kept in the instance __dict__: a caller's edit of it is every later read's answer")
    rep.ob(rule, "scanned", True, "btclib:1", f"{len(cached)} memoized functions answering mutable containers; {n} uses and cached properties in {module_prefixes}")
    rep.floor(rule, floor)


def _iterable_params(ctx: Ctx, fi: FuncInfo) -> set[str]:
    """Parameters the function admits as a bare Iterable: by annotation, or by its own
    `assert_type(p, Iterable, ...)` / `isinstance(p, Iterable)`."""
    out = set()
    a = fi.node.args
    for p_ in a.posonlyargs + a.args + a.kwonlyargs:
        names = _annotation_names(ctx, p_.annotation)
        if names & {"Iterable", "Iterator"}:
            out.add(p_.arg)
    params = set(fi.params())
    for c in own_nodes(fi.node):
        if isinstance(c, ast.Call) and call_name(c) in {"assert_type", "isinstance"} and len(c.args) >= 2 and isinstance(c.args[0], ast.Name) \
                and c.args[0].id in params and any(isinstance(x, ast.Name) and x.id in {"Iterable", "Iterator"} for x in ast.walk(c.args[1])):
            out.add(c.args[0].id)
    return out


def _admits_iterable(ctx: Ctx, fi: FuncInfo, pname: str, depth: int = 0, _seen: frozenset = frozenset()) -> bool:
    """`pname` of `fi` may be a one-shot iterable: by the function's own admission, or because the
    function hands it on, as it came, to a btclib function that admits one (followed four calls deep)."""
    if pname in _iterable_params(ctx, fi):
        return True
    if depth >= 4 or (fi.qualname, pname) in _seen:
        return False
    for c in own_nodes(fi.node):
        if not isinstance(c, ast.Call):
            continue
        callee = ctx.prog.functions.get(ctx.resolve_call(fi, c) or "")
        if callee is None or callee is fi:
            continue
        ca = callee.node.args
        pos = ca.posonlyargs + ca.args
        if pos and pos[0].arg in ("self", "cls"):
            pos = pos[1:]
        for i, a_ in enumerate(c.args):
            if isinstance(a_, ast.Name) and a_.id == pname and i < len(pos) and not _rebound_before(fi, pname, c):
                if _admits_iterable(ctx, callee, pos[i].arg, depth + 1, _seen | {(fi.qualname, pname)}):
                    return True
    return False


def _handoffs(ctx: Ctx, fi: FuncInfo, pname: str) -> list[ast.Call]:
    """Calls that hand `pname`, as it came, to a btclib function that may walk it."""
    out = []
    for c in own_nodes(fi.node):
        if not isinstance(c, ast.Call) or call_name(c) in CONSUMERS:
            continue
        callee = ctx.prog.functions.get(ctx.resolve_call(fi, c) or "")
        if callee is None or callee is fi:
            continue
        ca = callee.node.args
        pos = ca.posonlyargs + ca.args
        if pos and pos[0].arg in ("self", "cls"):
            pos = pos[1:]
        for i, a_ in enumerate(c.args):
            if isinstance(a_, ast.Name) and a_.id == pname and i < len(pos) and _admits_iterable(ctx, callee, pos[i].arg, 1):
                out.append(c)
    return out


def rule_single_pass(ctx: Ctx, rep: Report, rule: str, module_prefixes: tuple[str, ...], floor: int) -> None:
    """An Iterable can be walked once: a generator, a map, a reversed() is empty
    the second time. A parameter the function admits as an Iterable is therefore
    consumed at most once on any path -- copied (`list(p)`) and the copy used,
    or walked once. A second walk sees nothing, silently: a path checked in one
    loop and copied in the next derives the key itself."""
    n = 0
    for q, fi in sorted(ctx.prog.functions.items()):
        if not any(q.startswith(p_) for p_ in module_prefixes):
            continue
        own = _iterable_params(ctx, fi)
        handed = {p_ for p_ in fi.params() if p_ not in own and p_ not in ("self", "cls") and len(_handoffs(ctx, fi, p_)) >= 1 and _admits_iterable(ctx, fi, p_)}
        for p_ in sorted(own | handed):
            uses: list[ast.AST] = list(_handoffs(ctx, fi, p_))
            rebound_at = None
            for st in own_nodes(fi.node):
                if isinstance(st, ast.Assign) and any(isinstance(t, ast.Name) and t.id == p_ for t in st.targets):
                    if rebound_at is None or st.lineno < rebound_at:
                        rebound_at = st.lineno
            for x in own_nodes(fi.node):
                if isinstance(x, (ast.For, ast.comprehension)) and isinstance(x.iter, ast.Name) and x.iter.id == p_:
                    uses.append(x.iter)
                elif isinstance(x, ast.Call) and call_name(x) in CONSUMERS and any(isinstance(a_, ast.Name) and a_.id == p_ for a_ in x.args):
                    uses.append(x)
                elif isinstance(x, ast.Starred) and isinstance(x.value, ast.Name) and x.value.id == p_:
                    uses.append(x)
            # uses after the parameter was rebound (to its own copy) walk the copy
            live = sorted([u for u in uses if rebound_at is None or u.lineno <= rebound_at], key=lambda u: (u.lineno, getattr(u, "col_offset", 0)))
            n += 1
            # two uses in the two arms of one `if` are one use per path
            ok = len(live) <= 1 or _exclusive(fi, live)
            rep.ob(rule, f"{q}:{p_}", ok, fi.where(live[1] if len(live) > 1 else fi.node),
                   f"`{p_}` is walked at most once per path ({len(live)} walks)" if ok else
                   f"`{p_}` is admitted as an Iterable and walked {len(live)} times (lines {[u.lineno for u in live]}): a generator is empty the second time")
    rep.floor(rule, floor)


def _exclusive(fi: FuncInfo, uses: list[ast.AST]) -> bool:
    """Every two of the uses sit in different arms of one if/elif/else (or one of them is followed by a return in its arm)."""
    def arms(u: ast.AST) -> list[tuple[int, str]]:
        out = []
        cur, prev = parent(u), u
        while cur is not None and cur is not fi.node:
            if isinstance(cur, ast.If):
                out.append((id(cur), "body" if any(prev is s for s in cur.body) else "orelse" if any(prev is s for s in cur.orelse) else "test"))
            prev, cur = cur, parent(cur)
        return out

    def returns_after(u: ast.AST) -> bool:
        cur, prev = parent(u), u
        while cur is not None and cur is not fi.node:
            for fld in ("body", "orelse"):
                blk = getattr(cur, fld, None)
                if isinstance(blk, list) and any(prev is s for s in blk):
                    i = [k for k, s in enumerate(blk) if s is prev][0]
                    if any(isinstance(s, (ast.Return, ast.Raise)) for s in blk[i:]):
                        return True
            prev, cur = cur, parent(cur)
        return isinstance(prev, ast.Return)

    for i, a in enumerate(uses):
        for b in uses[i + 1:]:
            aa, bb = dict(arms(a)), dict(arms(b))
            if any(k in bb and bb[k] != v and "test" not in (v, bb[k]) for k, v in aa.items()):
                continue
            if returns_after(a) and a.lineno < b.lineno and any(k not in bb for k in aa):
                continue
            return False
    return True


def coarse_memos(fn: ast.AST) -> list[tuple[ast.If, str, set[str]]]:
    """`if X is None: X = f(... v ...)` inside a loop over v, where X was set to None
    *outside* that loop: the value computed for the first v is answered for every later one."""
    out = []
    for i in own_nodes(fn):
        if not (isinstance(i, ast.If) and isinstance(i.test, ast.Compare) and isinstance(i.test.left, ast.Name) and len(i.test.ops) == 1
                and isinstance(i.test.ops[0], ast.Is) and isinstance(i.test.comparators[0], ast.Constant) and i.test.comparators[0].value is None
                and len(i.body) == 1 and isinstance(i.body[0], ast.Assign) and any(isinstance(t, ast.Name) and t.id == i.test.left.id for t in i.body[0].targets)):
            continue
        x = i.test.left.id
        used = {n.id for n in ast.walk(i.body[0].value) if isinstance(n, ast.Name)}
        cur = parent(i)
        while cur is not None and cur is not fn:
            if isinstance(cur, (ast.For, ast.AsyncFor)):
                tv = {n.id for n in ast.walk(cur.target) if isinstance(n, ast.Name)}
                # locals derived from the loop variable inside this loop count as the loop variable
                for a in ast.walk(cur):
                    if isinstance(a, ast.Assign) and {n.id for n in ast.walk(a.value) if isinstance(n, ast.Name)} & tv:
                        tv |= {t.id for t in a.targets if isinstance(t, ast.Name)} - {x}
                reset_inside = any(isinstance(a, (ast.Assign, ast.AnnAssign)) and a is not i.body[0] and isinstance(getattr(a, "value", None), ast.Constant) and a.value.value is None
                                   and any(isinstance(t, ast.Name) and t.id == x for t in (a.targets if isinstance(a, ast.Assign) else [a.target]))
                                   for s_ in cur.body for a in ast.walk(s_))
                if used & tv and not reset_inside:
                    out.append((i, x, used & tv))
                    break
            cur = parent(cur)
    return out


_MEMO_SAMPLE = '''
def f(items, leaves):
    for k in items:
        h = None
        for leaf in leaves:
            if h is None:
                h = digest(k, leaf)
            use(h)
'''


def rule_memo_key_complete(ctx: Ctx, rep: Report, rule: str, module_prefixes: tuple[str, ...]) -> None:
    """A value computed once and kept (`if X is None: X = f(...)`) is kept only
    across iterations that cannot change what it was computed from: the memo is
    reset inside every loop whose variable the computation reads. Otherwise the
    first iteration's value is answered for all -- a taproot script-path hash
    computed for one leaf and signed for every leaf of the key."""
    from sa.loader import _set_parents
    sample = ast.parse(_MEMO_SAMPLE)
    _set_parents(sample)
    rep.ob(rule, "selftest:sample", len(coarse_memos(sample.body[0])) == 1, "rules/sigcommon.py:1", "the detector fires on its own sample of the defect (expected count on the tree is zero)")
    n = 0
    for q, fi in sorted(ctx.prog.functions.items()):
        if not any(q.startswith(p_) for p_ in module_prefixes):
            continue
        n += 1
        for i, x, tv in coarse_memos(fi.node):
            rep.ob(rule, f"{q}:{x}", False, fi.where(i), f"`{norm(i.body[0])[:80]}` is kept across the loop over {sorted(tv)}, which it reads: every iteration after the first is answered the first one's value")
    rep.ob(rule, "scanned", True, "btclib:1", f"{n} functions in {module_prefixes}: no memo is kept across a loop whose variable it reads")
    rep.floor(rule, 2)


LOOSE_ALIASES = {"Octets": "bytes", "String": "str", "Integer": "int", "BinaryData": "bytes", "PrvKey": "int", "Key": "bytes", "PubKey": "bytes"}
STRICT = {"bytes", "int", "str"}


def _ann_text(a: ast.AST | None) -> str:
    return "" if a is None else str(norm(a)).replace(" ", "")


def _rebound_before(fi: FuncInfo, name: str, at: ast.AST) -> bool:
    """`name` is assigned somewhere before `at` (by line): what reaches `at` may be the converted form."""
    for s_ in own_nodes(fi.node):
        if isinstance(s_, (ast.Assign, ast.AnnAssign, ast.AugAssign)):
            tg = s_.targets if isinstance(s_, ast.Assign) else [s_.target]
            if any(isinstance(x, ast.Name) and x.id == name for t in tg for x in ast.walk(t)) and s_.lineno <= at.lineno:
                return True
        if isinstance(s_, (ast.For, ast.comprehension)) and any(isinstance(x, ast.Name) and x.id == name for x in ast.walk(s_.target)):
            return True
        if isinstance(s_, ast.NamedExpr) and s_.target.id == name:
            return True
    return False


def rule_loose_to_strict(ctx: Ctx, rep: Report, rule: str, module_prefixes: tuple[str, ...], floor: int) -> None:
    """The loose argument types (Octets = bytes or hex text, String = str or
    bytes, Integer = int or octets or hex, ...) belong to the public surface; a
    private helper annotated `bytes` / `int` / `str` takes the converted form.
    A parameter of a loose type is therefore never handed *as it came* to a
    btclib function whose parameter is strict: the hex spelling the docstring
    accepts would be hashed as text, sized as characters, or be a TypeError."""
    n = 0
    for q, fi in sorted(ctx.prog.functions.items()):
        if not any(q.startswith(p_) for p_ in module_prefixes):
            continue
        a = fi.node.args
        loose = {p_.arg: _ann_text(p_.annotation) for p_ in a.posonlyargs + a.args + a.kwonlyargs
                 if p_.annotation is not None and _ann_text(p_.annotation).split("|")[0] in LOOSE_ALIASES and "|" not in _ann_text(p_.annotation).replace("|None", "")}
        if not loose:
            continue
        for c in own_nodes(fi.node):
            if not isinstance(c, ast.Call) or any(isinstance(x, ast.Starred) for x in c.args):
                continue
            pairs: list[tuple[str, ast.AST]] = []
            named = [(i, x) for i, x in enumerate(c.args) if isinstance(x, ast.Name) and x.id in loose] + [(k.arg, k.value) for k in c.keywords if k.arg and isinstance(k.value, ast.Name) and k.value.id in loose]
            if not named:
                continue
            callee = ctx.prog.functions.get(ctx.resolve_call(fi, c) or "")
            if callee is None or callee is fi:
                continue
            ca = callee.node.args
            pos = ca.posonlyargs + ca.args
            if pos and pos[0].arg in ("self", "cls"):
                pos = pos[1:]
            byname = {p_.arg: p_ for p_ in pos + ca.kwonlyargs}
            for key, x in named:
                tp = pos[key] if isinstance(key, int) and key < len(pos) else byname.get(key) if isinstance(key, str) else None
                if tp is None or tp.annotation is None:
                    continue
                want = _ann_text(tp.annotation)
                if want not in STRICT:
                    continue
                n += 1
                ok = _rebound_before(fi, x.id, c)
                if not ok:
                    # narrowed by an isinstance test on the path: the strict type is what reaches the call
                    ok = any(pol and str(t).replace(" ", "").startswith(f"isinstance({x.id},") for t, pol in ctx.cfg(fi).facts_at_ast(c))
                rep.ob(rule, f"{q}->{callee.name}({x.id})", ok, fi.where(c), f"`{x.id}` was rebound to its converted form (or narrowed by isinstance) before the call" if ok else
                       f"`{x.id}: {loose[x.id]}` is handed as it came to `{callee.name}({tp.arg}: {want})`: the other spellings `{loose[x.id].split('|')[0]}` admits are not {want}")
    rep.ob(rule, "scanned", True, "btclib:1", f"{n} loose parameters handed to strict parameters in {module_prefixes}, each after its conversion")
    rep.floor(rule, floor)


# the conversions of btclib.utils from a loose spelling to the one strict type: called for the value
SPELLING_COERCIONS = {"bytes_from_octets", "str_from_string", "bytesio_from_binarydata", "int_from_integer", "int_from_bits"}

_COERCION_SAMPLE = '''
def f(script, n):
    bytes_from_octets(script)
    if script:
        return g(script)
'''


def discarded_coercions(fn: ast.AST, params: set[str]) -> list[ast.Expr]:
    out = []
    for st in own_nodes(fn):
        if isinstance(st, ast.Expr) and isinstance(st.value, ast.Call) and st.value.args and isinstance(st.value.args[0], ast.Name) and st.value.args[0].id in params:
            nm = call_name(st.value) or ""
            if nm not in SPELLING_COERCIONS:
                continue
            p_ = st.value.args[0].id
            later = any(isinstance(x, ast.Name) and x.id == p_ and isinstance(x.ctx, ast.Load) and x.lineno > st.lineno for x in own_nodes(fn))
            if later:
                out.append(st)
    return out


def rule_coercion_used(ctx: Ctx, rep: Report, rule: str, module_prefixes: tuple[str, ...]) -> None:
    """A conversion (`bytes_from_octets`, `str_from_string`, `..._from_...`) is
    called for its value: a call whose answer is dropped, the raw parameter
    being read afterwards, checked one spelling and then computed with another
    -- hex text that converts to an empty script is still a truthy string."""
    from sa.loader import _set_parents
    sample = ast.parse(_COERCION_SAMPLE)
    _set_parents(sample)
    rep.ob(rule, "selftest:sample", len(discarded_coercions(sample.body[0], {"script", "n"})) == 1, "rules/sigcommon.py:1", "the detector fires on its own sample (expected count on the tree is zero)")
    n = 0
    for q, fi in sorted(ctx.prog.functions.items()):
        if not any(q.startswith(p_) for p_ in module_prefixes):
            continue
        n += 1
        for st in discarded_coercions(fi.node, set(fi.params())):
            rep.ob(rule, f"{q}:{norm(st)[:50]}", False, fi.where(st), f"`{norm(st)[:70]}` converts and drops the answer, and `{st.value.args[0].id}` is read raw afterwards")
    rep.ob(rule, "scanned", True, "btclib:1", f"{n} functions in {module_prefixes}: every conversion of a parameter that is read again is kept")
    rep.floor(rule, 2)


_TEXT_SAMPLE = '''
def f(addr: String):
    s = "".join(str_from_string(addr, "address").split())
    return decode(s)
'''


def inner_text_edits(ctx: Ctx | None, fn: ast.AST) -> list[ast.Call]:
    """Calls that take characters out of the *inside* of a text derived from a String parameter."""
    a = fn.args
    sp = {p_.arg for p_ in a.posonlyargs + a.args + a.kwonlyargs if p_.annotation is not None and _ann_text(p_.annotation).split("|")[0] == "String"}
    if not sp:
        return []
    derived = set(sp)
    for _ in range(3):
        for s_ in own_nodes(fn):
            if isinstance(s_, ast.Assign) and {x.id for x in ast.walk(s_.value) if isinstance(x, ast.Name)} & derived:
                derived |= {t.id for t in s_.targets if isinstance(t, ast.Name)}
    out = []
    for c in own_nodes(fn):
        if isinstance(c, ast.Call) and isinstance(c.func, ast.Attribute) and c.func.attr in ("split", "replace", "translate", "splitlines", "removeprefix", "removesuffix", "lstrip", "rstrip") \
                and {x.id for x in ast.walk(c.func.value) if isinstance(x, ast.Name)} & derived:
            if c.func.attr in ("lstrip", "rstrip") and not c.args:
                continue
            out.append(c)
        # a lenient transcoding drops (or replaces) the characters it cannot map: the same edit, spelled as a codec option
        if isinstance(c, ast.Call) and isinstance(c.func, ast.Attribute) and c.func.attr in ("encode", "decode") \
                and {x.id for x in ast.walk(c.func.value) if isinstance(x, ast.Name)} & derived:
            errs = [a for a in c.args[1:2]] + [k.value for k in c.keywords if k.arg == "errors"]
            if any(isinstance(e, ast.Constant) and e.value in ("ignore", "replace", "backslashreplace", "xmlcharrefreplace", "namereplace", "surrogateescape") for e in errs):
                out.append(c)
    return out


def rule_text_admission(ctx: Ctx, rep: Report, rule: str, modules: tuple[str, ...], floor: int) -> None:
    """An address is the characters of its encoding: what reaches the decoder is
    the argument with, at most, the blanks around it removed (`.strip()`) --
    never with characters taken out of its inside (`split`, `replace`,
    `translate`, a prefix removed). "bc1q... ...xyz" with a blank in the middle
    is not an address; joined up, it decodes as one the sender never wrote."""
    from sa.loader import _set_parents
    sample = ast.parse(_TEXT_SAMPLE)
    _set_parents(sample)
    rep.ob(rule, "selftest:sample", len(inner_text_edits(None, sample.body[0])) == 1, "rules/sigcommon.py:1", "the detector fires on its own sample (expected count on the tree is zero)")
    n = 0
    for q, fi in sorted(ctx.prog.functions.items()):
        if fi.module.name not in modules:
            continue
        n += 1
        for c in inner_text_edits(ctx, fi.node):
            rep.ob(rule, f"{q}:{norm(c)[:50]}", False, fi.where(c), f"`{norm(c)[:70]}` edits the inside of the text it was handed before decoding it")
    rep.ob(rule, "scanned", True, "btclib:1", f"{n} functions of {modules}: a String argument reaches the decoder with nothing but its ends trimmed")
    rep.floor(rule, floor)


def rule_length_dispatch(ctx: Ctx, rep: Report, rule: str, module_prefixes: tuple[str, ...], floor: int) -> None:
    """`x = bytes_from_octets(arg, sizes)` admits the sizes it lists, and a branch
    taken on `len(x) == E` afterwards names one of them: E is, as an expression,
    one of the admitted sizes. A constant that equals one of them on secp256k1
    only (32 for `ec.p_size`) sends every other curve's x-only key down the
    branch for another encoding."""
    n = 0
    for q, fi in sorted(ctx.prog.functions.items()):
        if not any(q.startswith(p_) for p_ in module_prefixes):
            continue
        for a in own_nodes(fi.node):
            if not (isinstance(a, ast.Assign) and isinstance(a.targets[0], ast.Name) and isinstance(a.value, ast.Call) and call_name(a.value) == "bytes_from_octets" and len(a.value.args) == 2):
                continue
            x = a.targets[0].id
            sz = a.value.args[1]
            if isinstance(sz, ast.Name):
                d = [s_ for s_ in own_nodes(fi.node) if isinstance(s_, ast.Assign) and isinstance(s_.targets[0], ast.Name) and s_.targets[0].id == sz.id]
                if len(d) != 1:
                    continue
                sz = d[0].value
            if not isinstance(sz, (ast.Tuple, ast.List, ast.Set)):
                continue
            admitted = {str(norm(e)).replace(" ", "") for e in sz.elts}
            symbolic = any(not isinstance(e, ast.Constant) for e in sz.elts)
            if not symbolic:
                continue
            for c in own_nodes(fi.node):
                if isinstance(c, ast.Compare) and len(c.ops) == 1 and isinstance(c.ops[0], (ast.Eq, ast.NotEq)) and c.lineno >= a.lineno:
                    l, r = c.left, c.comparators[0]
                    for lenside, other in ((l, r), (r, l)):
                        if isinstance(lenside, ast.Call) and call_name(lenside) == "len" and lenside.args and isinstance(lenside.args[0], ast.Name) and lenside.args[0].id == x:
                            n += 1
                            e = str(norm(other)).replace(" ", "")
                            ok = e in admitted
                            rep.ob(rule, f"{q}:len({x})=={e}", ok, fi.where(c), f"`{norm(c)}` names one of the admitted sizes {sorted(admitted)}" if ok else
                                   f"`{norm(c)}`: `{norm(other)}` is not one of the sizes {sorted(admitted)} the value was admitted at -- equal to one of them on some curves only")
    rep.ob(rule, "scanned", True, "btclib:1", f"{n} length dispatches after a multi-size admission in {module_prefixes}")
    rep.floor(rule, floor)


def overwritten_flags(fn: ast.AST) -> list[tuple[ast.Assign, str]]:
    """`v = False` ... `for/while: ... v = <test>` ... `if v:` after the loop, where <test> does not
    mention v and no break follows the assignment: the last iteration's answer overwrites the others'."""
    out = []
    body_nodes = list(own_nodes(fn))
    inits = {}
    for a in body_nodes:
        if isinstance(a, ast.Assign) and len(a.targets) == 1 and isinstance(a.targets[0], ast.Name) and isinstance(a.value, ast.Constant) and a.value.value is False:
            inits.setdefault(a.targets[0].id, a)
    for v, init in inits.items():
        for lp in body_nodes:
            if not isinstance(lp, (ast.For, ast.While)) or lp.lineno < init.lineno:
                continue
            # the flag is initialised outside this loop
            if any(x is init for x in ast.walk(lp)):
                continue
            for a in ast.walk(lp):
                if not (isinstance(a, ast.Assign) and len(a.targets) == 1 and isinstance(a.targets[0], ast.Name) and a.targets[0].id == v):
                    continue
                if isinstance(a.value, ast.Constant) or any(isinstance(x, ast.Name) and x.id == v for x in ast.walk(a.value)):
                    continue
                # a break / return / raise right after it (in its own block) makes it the only answer
                blk = getattr(parent(a), "body", None)
                sibs = [blk_ for fld in ("body", "orelse", "finalbody") for blk_ in [getattr(parent(a), fld, None)] if isinstance(blk_, list) and any(s_ is a for s_ in blk_)]
                after = sibs[0][[i for i, s_ in enumerate(sibs[0]) if s_ is a][0] + 1:] if sibs else []
                if any(isinstance(s_, (ast.Break, ast.Return, ast.Raise)) for s_ in after):
                    continue
                # read after the loop
                end = getattr(lp, "end_lineno", lp.lineno)
                read_after = any(isinstance(x, ast.Name) and x.id == v and isinstance(x.ctx, ast.Load) and x.lineno > end for x in body_nodes)
                if read_after:
                    out.append((a, v))
    return out


_FLAG_SAMPLE = '''
def f(items):
    bad = False
    for x in items:
        bad = len(x) > 520
    if bad:
        raise ValueError
'''


def rule_sticky_flags(ctx: Ctx, rep: Report, rule: str, module_prefixes: tuple[str, ...]) -> None:
    """A flag raised inside a loop and asked about after it is *accumulated*
    (`flag |= test`, `flag = flag or test`, `flag = True` under the test): a plain
    `flag = test` keeps the last iteration's answer and forgets the others --
    a script whose oversized push is followed by any other push passes a size
    limit that is enforced nowhere else."""
    from sa.loader import _set_parents
    sample = ast.parse(_FLAG_SAMPLE)
    _set_parents(sample)
    rep.ob(rule, "selftest:sample", len(overwritten_flags(sample.body[0])) == 1, "rules/sigcommon.py:1", "the detector fires on its own sample (expected count on the tree is zero)")
    n = 0
    for q, fi in sorted(ctx.prog.functions.items()):
        if not any(q.startswith(p_) for p_ in module_prefixes):
            continue
        n += 1
        for a, v in overwritten_flags(fi.node):
            rep.ob(rule, f"{q}:{v}", False, fi.where(a), f"`{norm(a)[:70]}` inside a loop overwrites `{v}`, which is read after the loop: only the last iteration decides")
    rep.ob(rule, "scanned", True, "btclib:1", f"{n} functions in {module_prefixes}: every flag read after a loop is accumulated in it")
    rep.floor(rule, 2)


def rule_points_compared_whole(ctx: Ctx, rep: Report, rule: str, module_prefixes: tuple[str, ...], floor: int) -> None:
    """A verification equation is an equality of curve points, both coordinates:
    `lhs == rhs`. Compared on x alone (`lhs[0] == rhs[0]`) it also holds for
    -rhs, so the negation n - s of a valid (partial) signature verifies on this
    arm and not on the other. Where a function that verifies compares the x of
    two point-valued locals, it compares their y too (BIP340's `R.x == r` with
    an even-y test is the other legitimate form: one side is not a point)."""
    n = 0
    for q, fi in sorted(ctx.prog.functions.items()):
        if not any(q.startswith(p_) for p_ in module_prefixes) or "verify" not in fi.name:
            continue
        cmps = [c for c in own_nodes(fi.node) if isinstance(c, ast.Compare) and len(c.ops) == 1 and isinstance(c.ops[0], (ast.Eq, ast.NotEq))]
        whole = [c for c in cmps if isinstance(c.left, ast.Name) and isinstance(c.comparators[0], ast.Name)]
        for c in cmps:
            l, r = c.left, c.comparators[0]
            if all(isinstance(x, ast.Subscript) and isinstance(x.value, ast.Name) and isinstance(x.slice, ast.Constant) and x.slice.value == 0 for x in (l, r)):
                n += 1
                a, b = l.value.id, r.value.id
                y_too = any(isinstance(c2.left, ast.Subscript) and isinstance(c2.comparators[0], ast.Subscript) and {getattr(c2.left.value, "id", None), getattr(c2.comparators[0].value, "id", None)} == {a, b}
                            and isinstance(c2.left.slice, ast.Constant) and c2.left.slice.value == 1 for c2 in cmps)
                rep.ob(rule, f"{q}:{norm(c)}", y_too, fi.where(c), "x and y are both compared" if y_too else
                       f"`{norm(c)}` compares two points on x alone: the equation also holds for the negated point, and this arm accepts what the other refuses")
        for c in whole:
            n += 1
            rep.ob(rule, f"{q}:{norm(c)}", True, fi.where(c), "compared whole")
    rep.ob(rule, "scanned", True, "btclib:1", f"{n} point / name equalities in verifying functions of {module_prefixes}")
    rep.floor(rule, floor)


CONFIG_PARAMS = {"ec", "hf", "network"}
HASH_PARAM_OK = {
    ("btclib.ecc.dsa.anti_exfil_host_verify", "commit_hash", "rho"): "rho is the host's 32-byte commitment itself, not a message to be hashed (anti-exfil protocol)",
}


def rule_config_not_replaced(ctx: Ctx, rep: Report, rule: str, module_prefixes: tuple[str, ...], floor: int) -> None:
    """A function that takes the curve, the hash function or the network and calls
    a btclib function with a parameter of that name hands it *its own*: the
    argument is the parameter (or something computed from it, or a local) -- never
    a module-level constant (`sha256`, `secp256k1`, "mainnet"). With `sha256`
    written where `hf` is in scope, a signer asked for sha512 derives its nonce
    with another hash than the one it was told, silently. The dispatch
    predicate, asked with `None` where only arithmetic is delegated, is C04's
    to judge and is left out."""
    n = 0
    for q, fi in sorted(ctx.prog.functions.items()):
        if not any(q.startswith(p_) for p_ in module_prefixes):
            continue
        params = {p_ for p_ in fi.params() if p_ in CONFIG_PARAMS}
        if not params:
            continue
        local = {t.id for a in own_nodes(fi.node) if isinstance(a, (ast.Assign, ast.AnnAssign)) for t in (a.targets if isinstance(a, ast.Assign) else [a.target]) for t in ast.walk(t) if isinstance(t, ast.Name)}
        local |= {x.id for lp in own_nodes(fi.node) if isinstance(lp, (ast.For, ast.comprehension)) for x in ast.walk(lp.target) if isinstance(x, ast.Name)}
        for c in own_nodes(fi.node):
            if not isinstance(c, ast.Call) or any(isinstance(x, ast.Starred) for x in c.args):
                continue
            callee = ctx.prog.functions.get(ctx.resolve_call(fi, c) or "")
            if callee is None or callee is fi or callee.name == "_libsecp256k1_serves":
                continue
            ca = callee.node.args
            pos = ca.posonlyargs + ca.args
            if pos and pos[0].arg in ("self", "cls"):
                pos = pos[1:]
            pairs = [(pos[i].arg, a) for i, a in enumerate(c.args) if i < len(pos)] + [(k.arg, k.value) for k in c.keywords if k.arg]
            for pn, a in pairs:
                if pn not in params:
                    continue
                n += 1
                names = {x.id for x in ast.walk(a) if isinstance(x, ast.Name)}
                own = pn in names or bool(names & (local | set(fi.params())))
                ok = own or not (isinstance(a, (ast.Name, ast.Constant, ast.Attribute)))
                rep.ob(rule, f"{q}->{callee.name}({pn})@{c.lineno - fi.node.lineno}", ok, fi.where(c), f"`{pn}` is handed on" if ok else
                       f"`{callee.name}` is given `{pn}={norm(a)}` where `{fi.name}` has a `{pn}` of its own: the caller's choice is silently replaced")
    rep.ob(rule, "scanned", True, "btclib:1", f"{n} config arguments examined in {module_prefixes}")
    rep.floor(rule, floor)


def rule_hash_params(ctx: Ctx, rep: Report, rule: str, module_prefixes: tuple[str, ...], floor: int) -> None:
    """A parameter named `..._hash` (msg_hash, commit_hash) takes a hash: the
    public spellings reduce a message with `reduce_to_hlen` and hand the digest
    to the underscore spellings. A caller's own parameter that is not itself a
    hash (msg, commit) is never handed to a `..._hash` parameter as it came --
    the commitment would be verified against the text instead of its digest.
    (One reviewed exception, in the table.)"""
    n = 0
    for q, fi in sorted(ctx.prog.functions.items()):
        if not any(q.startswith(p_) for p_ in module_prefixes):
            continue
        params = set(fi.params())
        for c in own_nodes(fi.node):
            if not isinstance(c, ast.Call) or any(isinstance(x, ast.Starred) for x in c.args):
                continue
            callee = ctx.prog.functions.get(ctx.resolve_call(fi, c) or "")
            if callee is None:
                continue
            ca = callee.node.args
            pos = ca.posonlyargs + ca.args
            if pos and pos[0].arg in ("self", "cls"):
                pos = pos[1:]
            pairs = [(pos[i].arg, a) for i, a in enumerate(c.args) if i < len(pos)] + [(k.arg, k.value) for k in c.keywords if k.arg]
            for pn, a in pairs:
                if not pn.endswith("_hash"):
                    continue
                n += 1
                raw = isinstance(a, ast.Name) and a.id in params and "hash" not in a.id and not _rebound_before(fi, a.id, c)
                why = HASH_PARAM_OK.get((q, pn, a.id if isinstance(a, ast.Name) else ""))
                rep.ob(rule, f"{q}->{callee.name}({pn})@{c.lineno - fi.node.lineno}", not raw or why is not None, fi.where(c),
                       (f"reviewed: {why}" if why else "a digest (or a value of the caller's that is one) is handed over") if (not raw or why) else
                       f"`{callee.name}` is given `{pn}={a.id}`, the caller's own `{a.id}` as it came: it is the text, not its hash")
    rep.ob(rule, "scanned", True, "btclib:1", f"{n} arguments to ..._hash parameters examined in {module_prefixes}")
    rep.floor(rule, floor)


def rule_ctor_copies_containers(ctx: Ctx, rep: Report, rule: str, module_prefixes: tuple[str, ...], floor: int) -> None:
    """A constructor that takes a sequence or a mapping stores *its own* container:
    `list(inputs)`, `dict(...)`, a decoder's answer -- never the caller's object,
    on any arm of a conditional. Held as it came, the caller's list is the
    object's: appending an input to it afterwards changes a psbt that was built
    and funded before (44 of 44 sites on the unchanged tree copy)."""
    n = 0
    for q, fi in sorted(ctx.prog.functions.items()):
        if fi.name != "__init__" or not any(q.startswith(p_) for p_ in module_prefixes):
            continue
        a = fi.node.args
        seqp = {p_.arg for p_ in a.posonlyargs + a.args + a.kwonlyargs if p_.annotation is not None and any(w in str(norm(p_.annotation)) for w in ("Sequence", "list[", "Mapping", "dict[", "Iterable"))}
        if not seqp:
            continue
        for st in own_nodes(fi.node):
            tg = val = None
            if isinstance(st, ast.Assign) and isinstance(st.targets[0], ast.Attribute) and isinstance(st.targets[0].value, ast.Name) and st.targets[0].value.id == "self":
                tg, val = st.targets[0], st.value
            if isinstance(st, ast.Call) and str(norm(st.func)) == "object.__setattr__" and len(st.args) == 3:
                tg, val = st.args[1], st.args[2]
            if tg is None or not any(isinstance(x, ast.Name) and x.id in seqp for x in ast.walk(val)):
                continue
            n += 1
            arms = [val.body, val.orelse] if isinstance(val, ast.IfExp) else [val]
            bare = [arm for arm in arms if isinstance(arm, ast.Name) and arm.id in seqp]
            rep.ob(rule, f"{q}:{norm(tg)}", not bare, fi.where(st), "stored as a container of the object's own" if not bare else
                   f"`{norm(st)[:80]}` keeps the caller's own `{bare[0].id}`: what the caller does to it afterwards happens to this object")
    rep.floor(rule, floor)


def rule_nested_validated(ctx: Ctx, rep: Report, rule: str, module_prefixes: tuple[str, ...], floor: int) -> None:
    """`assert_valid` of a wire class validates what the object is made of: for
    every field whose type is (or holds) a class of the package that has an
    `assert_valid` of its own, the method calls it -- on the field, on each
    element of it in a loop, or through an `assert...` helper handed the field
    or the element. A nested object that is never asked is taken on trust: a
    previous transaction built with check_validity=False and carrying an
    output of -30 000 sat is summed into a fee (29 of 29 such fields are
    validated on the unchanged tree)."""
    has_av = {q.rsplit(".", 1)[-1] for q, ci in ctx.prog.classes.items() if "assert_valid" in ci.methods}
    n = 0
    for q, ci in sorted(ctx.prog.classes.items()):
        if "assert_valid" not in ci.methods or not any(q.startswith(p_) for p_ in module_prefixes):
            continue
        av = ci.methods["assert_valid"]
        for st in ci.node.body:
            if not (isinstance(st, ast.AnnAssign) and isinstance(st.target, ast.Name)):
                continue
            names = {x.id for x in ast.walk(st.annotation) if isinstance(x, ast.Name)} & has_av
            if not names:
                continue
            n += 1
            f = st.target.id
            sf = f"self.{f}"
            called = any(isinstance(c, ast.Call) and isinstance(c.func, ast.Attribute) and c.func.attr == "assert_valid" and sf in str(norm(c.func.value)) for c in own_nodes(av.node))
            for lp in own_nodes(av.node):
                if isinstance(lp, (ast.For, ast.comprehension)) and sf in str(norm(lp.iter)):
                    tv = {x.id for x in ast.walk(lp.target) if isinstance(x, ast.Name)}
                    scope = lp if isinstance(lp, ast.For) else parent(lp)
                    for c in ast.walk(scope) if scope is not None else []:
                        if isinstance(c, ast.Call):
                            fn = c.func.attr if isinstance(c.func, ast.Attribute) else getattr(c.func, "id", "")
                            recv = {x.id for x in ast.walk(c.func.value) if isinstance(x, ast.Name)} if isinstance(c.func, ast.Attribute) else set()
                            argn = {x.id for a_ in c.args for x in ast.walk(a_) if isinstance(x, ast.Name)}
                            if (fn == "assert_valid" and recv & tv) or ("assert" in fn and argn & tv):
                                called = True
            if any(isinstance(c, ast.Call) and "assert" in (c.func.attr if isinstance(c.func, ast.Attribute) else getattr(c.func, "id", "")) and any(sf in str(norm(a_)) for a_ in c.args) for c in own_nodes(av.node)):
                called = True
            rep.ob(rule, f"{q}.{f}", called, av.where(), f"`{f}` ({sorted(names)[0]}) is validated" if called else
                   f"`{ci.name}.assert_valid` never validates its `{f}` ({sorted(names)[0]} has an assert_valid of its own): a nested object built with check_validity=False is taken on trust")
    rep.floor(rule, floor)


def points_with_reduced_x(fn: ast.AST) -> list[ast.Tuple]:
    """`(P[0] % <c>.n, P[1])`: a pair built from a point's coordinates with the x reduced modulo the group order."""
    out = []
    for t in own_nodes(fn):
        if isinstance(t, ast.Tuple) and len(t.elts) == 2:
            a, b = t.elts
            if isinstance(a, ast.BinOp) and isinstance(a.op, ast.Mod) and str(norm(a.right)).endswith(".n") and isinstance(a.left, ast.Subscript) and isinstance(b, ast.Subscript) \
                    and str(norm(a.left.value)) == str(norm(b.value)) and isinstance(a.left.slice, ast.Constant) and a.left.slice.value == 0 and isinstance(b.slice, ast.Constant) and b.slice.value == 1:
                out.append(t)
    return out


_RX_SAMPLE = """
def f(W, ec):
    return W[0] % ec.n, W[1]
"""


def rule_point_coordinates_unreduced(ctx: Ctx, rep: Report, rule: str, module_prefixes: tuple[str, ...]) -> None:
    """A point is a pair of field elements. Its x reduced modulo the *group order*
    is a scalar (ECDSA's r), and a pair (x mod n, y) is not the point any more
    -- for x >= n it is not on the curve at all: no function builds a pair from
    a point's two coordinates with the x reduced mod n. Whoever compares an r
    with a point's x reduces at the comparison."""
    from sa.loader import _set_parents
    sample = ast.parse(_RX_SAMPLE)
    _set_parents(sample)
    rep.ob(rule, "selftest:sample", len(points_with_reduced_x(sample.body[0])) == 1, "rules/sigcommon.py:1", "the detector fires on its own sample (expected count on the tree is zero)")
    n = 0
    for q, fi in sorted(ctx.prog.functions.items()):
        if not any(q.startswith(p_) for p_ in module_prefixes):
            continue
        n += 1
        for t in points_with_reduced_x(fi.node):
            rep.ob(rule, f"{q}:{norm(t)[:40]}", False, fi.where(t), f"`{norm(t)}` is a point with its x reduced modulo the group order: another pair, generally off the curve")
    rep.ob(rule, "scanned", True, "btclib:1", f"{n} functions in {module_prefixes}")
    rep.floor(rule, 2)


SLICE_IN_SET_OK = {
    "btclib.script.engine.script.check_pub_key": "the stack elements of the engine are bytes by construction (parse / var_bytes), and the function's callers assert it",
    "btclib.bip32.key_origin.BIP32KeyOrigin.from_description": "a str: a slice of text is text, which hashes",
}


def unhashable_memberships(fn: ast.AST) -> list[ast.Compare]:
    """`x[a:b] in {...}`: membership of a *slice* in a set literal. For bytes the slice is bytes; for a
    bytearray or a memoryview -- which the library's Octets admit, and keeps as they came -- it is unhashable."""
    return [c for c in own_nodes(fn) if isinstance(c, ast.Compare) and len(c.ops) == 1 and isinstance(c.ops[0], (ast.In, ast.NotIn)) and isinstance(c.comparators[0], (ast.Set, ast.SetComp))
            and isinstance(c.left, ast.Subscript) and isinstance(c.left.slice, ast.Slice)]


_SLICE_SAMPLE = '''
def f(key):
    if key[:1] not in {b"\\x02", b"\\x03"}:
        raise ValueError
'''


def rule_hashable_membership(ctx: Ctx, rep: Report, rule: str, module_prefixes: tuple[str, ...]) -> None:
    """The library keeps a caller's octets in the buffer they came in: a key, a
    chain code, a signature may be a bytearray or a memoryview. A slice of one
    is not hashable, so `octets[:1] in {b"\\x02", b"\\x03"}` -- fine for bytes --
    is `TypeError: unhashable type` for them: a prefix test that raises on a
    spelling the function accepted before. Prefix tests are written on the
    integer (`octets[0] in (2, 3)`), against a tuple, or on a `bytes(...)` copy;
    the sites where the operand is bytes or text by construction are a
    reviewed table."""
    from sa.loader import _set_parents
    sample = ast.parse(_SLICE_SAMPLE)
    _set_parents(sample)
    rep.ob(rule, "selftest:sample", len(unhashable_memberships(sample.body[0])) == 1, "rules/sigcommon.py:1", "the detector fires on its own sample")
    n = 0
    for q, fi in sorted(ctx.prog.functions.items()):
        if not any(q.startswith(p_) for p_ in module_prefixes):
            continue
        for c in unhashable_memberships(fi.node):
            n += 1
            why = SLICE_IN_SET_OK.get(q)
            rep.ob(rule, f"{q}:{norm(c)[:40]}", why is not None, fi.where(c), f"reviewed: {why}" if why else
                   f"`{norm(c)}` hashes a slice: for an operand held in a bytearray or a memoryview this is a TypeError, not an answer")
    rep.ob(rule, "scanned", True, "btclib:1", f"{n} memberships of a slice in a set literal in {module_prefixes}")
    rep.floor(rule, 2)


_IDENTITY_SAMPLE = """
def f(ec: Curve, xpub):
    ec2 = curve_from_xkeyversion(xpub.version)
    if ec is not ec2:
        raise ValueError
"""

_VALUE_TYPES = {"Curve", "CurveGroup", "CurveSubGroup", "bytes", "int", "str", "Point", "JacPoint", "Octets", "String", "Network"}


def identity_on_values(ctx: Ctx, fn: ast.AST, ret_types) -> list[ast.Compare]:
    """`a is b` / `a is not b` in `fn` where an operand is, by its annotation or
    by the return annotation of the function it was assigned from, one of
    the library's value types."""
    types: dict[str, set[str]] = {}
    a = fn.args
    for p_ in a.posonlyargs + a.args + a.kwonlyargs:
        if p_.arg != "self":
            types[p_.arg] = _annotation_names(ctx, p_.annotation)
    for n in own_nodes(fn):
        if isinstance(n, ast.AnnAssign) and isinstance(n.target, ast.Name):
            types.setdefault(n.target.id, set()).update(_annotation_names(ctx, n.annotation))
        if isinstance(n, ast.Assign) and len(n.targets) == 1 and isinstance(n.targets[0], ast.Name) and isinstance(n.value, ast.Call):
            types.setdefault(n.targets[0].id, set()).update(ret_types(n.value))
    out = []
    for n in own_nodes(fn):
        if not isinstance(n, ast.Compare):
            continue
        left = n.left
        for op, c in zip(n.ops, n.comparators):
            if isinstance(op, (ast.Is, ast.IsNot)) and not (isinstance(c, ast.Constant) or isinstance(left, ast.Constant)):
                for side in (left, c):
                    if isinstance(side, ast.Name) and types.get(side.id, set()) & _VALUE_TYPES:
                        out.append(n)
                        break
            left = c
    return out


def rule_values_by_value(ctx: Ctx, rep: Report, rule: str, module_prefixes: tuple[str, ...]) -> None:
    """A curve, a point, a network, octets: the library's values are equal when
    their fields are, and two equal ones need not be one object -- a curve
    built from the same parameters, a copy, one unpickled. No decision
    compares two of them with `is`: identity is kept for None, for the
    singletons, for classes and functions, and for `self is other` shortcuts
    in `__eq__`."""
    def ret_types(call: ast.Call, fi=None) -> set[str]:
        return set()
    sample = ast.parse(_IDENTITY_SAMPLE)
    from sa.loader import _set_parents
    _set_parents(sample)

    def mk(fi):
        def rt(call: ast.Call) -> set[str]:
            tgt = ctx.resolve_call(fi, call) if fi is not None else None
            callee = ctx.prog.functions.get(tgt) if tgt else None
            if callee is not None:
                return _annotation_names(ctx, callee.node.returns)
            if tgt in ctx.prog.classes:
                return {tgt.rsplit(".", 1)[-1]}
            return set()
        return rt
    rep.ob(rule, "selftest:sample", len(identity_on_values(ctx, sample.body[0], lambda c: set())) == 1, "rules/sigcommon.py:1", "the detector fires on its own sample")
    n = 0
    for q, fi in sorted(ctx.prog.functions.items()):
        if not any(q.startswith(p_) for p_ in module_prefixes):
            continue
        n += 1
        for c in identity_on_values(ctx, fi.node, mk(fi)):
            rep.ob(rule, f"{q}:{norm(c)[:40]}", False, fi.where(c),
                   f"`{norm(c)}` compares two values by identity: an equal value that is another object -- a curve built from the same parameters, a copy -- takes the other branch")
    rep.ob(rule, "scanned", True, "btclib:1", f"{n} functions in {module_prefixes}")
    rep.floor(rule, 2)


_TRANSPOSED_SAMPLE = """
@dataclass
class K:
    a: int
    b: int
    c: int

    @classmethod
    def from_dict(cls, dict_):
        return cls(dict_["a"], dict_["c"], dict_["b"])
"""


def _ctor_params(cl: ast.ClassDef) -> list[str] | None:
    """The positional parameters of the class's constructor: its own __init__'s,
    or, for a plain dataclass without bases, its fields in order."""
    for s_ in cl.body:
        if isinstance(s_, ast.FunctionDef) and s_.name == "__init__":
            return [a.arg for a in s_.args.posonlyargs + s_.args.args][1:]
    if cl.bases or not any("dataclass" in ast.unparse(d) for d in cl.decorator_list):
        return None
    out = []
    for s_ in cl.body:
        if isinstance(s_, ast.AnnAssign) and isinstance(s_.target, ast.Name) and "ClassVar" not in ast.unparse(s_.annotation):
            if isinstance(s_.value, ast.Call) and any(k.arg == "init" and isinstance(k.value, ast.Constant) and k.value.value is False for k in s_.value.keywords):
                continue
            out.append(s_.target.id)
    return out


def transposed_ctor_args(cl: ast.ClassDef) -> list[tuple[ast.Call, int, str, str]]:
    params = _ctor_params(cl)
    out = []
    if not params:
        return out
    for fn in cl.body:
        if not isinstance(fn, ast.FunctionDef):
            continue
        for c in ast.walk(fn):
            if not (isinstance(c, ast.Call) and isinstance(c.func, ast.Name) and c.func.id in ("cls", cl.name)) or any(isinstance(a, ast.Starred) for a in c.args):
                continue
            for i, a in enumerate(c.args[:len(params)]):
                k = None
                if isinstance(a, ast.Subscript) and isinstance(a.slice, ast.Constant) and isinstance(a.slice.value, str):
                    k = a.slice.value
                elif isinstance(a, ast.Call) and isinstance(a.func, ast.Attribute) and a.func.attr == "get" and a.args and isinstance(a.args[0], ast.Constant) and isinstance(a.args[0].value, str):
                    k = a.args[0].value
                if k is not None and k != params[i] and k in params:
                    out.append((c, i, k, params[i]))
    return out


def rule_ctor_args_in_order(ctx: Ctx, rep: Report, rule: str, module_prefixes: tuple[str, ...], floor: int) -> None:
    """`from_dict` hands the entries of the dict to the constructor by position:
    the entry named after one constructor parameter is never passed in the
    place of another -- two fields of one type (two 32-byte values, two
    lists) swap silently, and to_dict/from_dict is no longer the identity."""
    sample = ast.parse(_TRANSPOSED_SAMPLE).body[0]
    rep.ob(rule, "selftest:sample", len(transposed_ctor_args(sample)) == 2, "rules/sigcommon.py:1", "the detector fires on its own sample")
    n = 0
    for q, ci in sorted(ctx.prog.classes.items()):
        if not any(q.startswith(p_) for p_ in module_prefixes):
            continue
        params = _ctor_params(ci.node)
        if not params:
            continue
        bad = transposed_ctor_args(ci.node)
        calls = [c for fn in ci.node.body if isinstance(fn, ast.FunctionDef) for c in ast.walk(fn)
                 if isinstance(c, ast.Call) and isinstance(c.func, ast.Name) and c.func.id in ("cls", ci.node.name) and len(c.args) >= 2]
        for c in calls:
            mine = [b for b in bad if b[0] is c]
            n += 1
            rep.ob(rule, f"{q}:L{c.lineno - ci.node.lineno}", not mine, f"{ci.module.relpath}:{c.lineno}",
                   "each named entry is in its own parameter's place" if not mine else
                   "; ".join(f"argument {i + 1} is the entry `{k}` where the constructor takes `{p_}`" for _, i, k, p_ in mine))
    rep.floor(rule, floor)


_RAW_SAMPLE = """
def f(target: Octets):
    octets = bytes_from_octets(target)
    if len(target) > 32:
        raise ValueError
    return octets
"""


def raw_measured_after_conversion(fn: ast.AST) -> list[tuple[ast.AST, str, str]]:
    """`v = bytes_from_octets(p)` (or str_from_string / int_from_integer) under another
    name, and then `len(p)`, `p[...]` or a loop over `p`: the caller's spelling measured
    where the value was meant. A parameter annotated bytes/str/int has one spelling."""
    a = fn.args
    params = {p_.arg: p_.annotation for p_ in a.posonlyargs + a.args + a.kwonlyargs}
    out = []
    for st in own_nodes(fn):
        if not (isinstance(st, ast.Assign) and len(st.targets) == 1 and isinstance(st.targets[0], ast.Name) and isinstance(st.value, ast.Call)
                and st.value.args and isinstance(st.value.args[0], ast.Name)):
            continue
        nm, p_ = call_name(st.value) or "", st.value.args[0].id
        if nm not in ("bytes_from_octets", "str_from_string", "int_from_integer") or p_ not in params or st.targets[0].id == p_:
            continue
        ann = params[p_]
        if ann is not None and _ann_text(ann) in ("bytes", "str", "int"):
            continue
        for x in own_nodes(fn):
            if isinstance(x, ast.Name) and x.id == p_ and isinstance(x.ctx, ast.Load) and x.lineno > st.lineno:
                par = parent(x)
                if (isinstance(par, ast.Call) and call_name(par) == "len") or (isinstance(par, ast.Subscript) and par.value is x) or \
                        (isinstance(par, (ast.For, ast.comprehension)) and par.iter is x):
                    out.append((par, p_, st.targets[0].id))
    return out


def rule_converted_then_raw(ctx: Ctx, rep: Report, rule: str, module_prefixes: tuple[str, ...]) -> None:
    """Octets are bytes or their hex text, a String is str or bytes: once a
    parameter has been converted under another name, its length, its items
    and its slices are read off the converted value -- `len()` of 64 hex
    digits is not the 32 of the bytes they spell, and a bound tested on the
    raw argument refuses (or admits) by spelling."""
    from sa.loader import _set_parents
    sample = ast.parse(_RAW_SAMPLE)
    _set_parents(sample)
    rep.ob(rule, "selftest:sample", len(raw_measured_after_conversion(sample.body[0])) == 1, "rules/sigcommon.py:1", "the detector fires on its own sample (expected count on the tree is zero)")
    n = 0
    for q, fi in sorted(ctx.prog.functions.items()):
        if not any(q.startswith(p_) for p_ in module_prefixes):
            continue
        n += 1
        for node, p_, v in raw_measured_after_conversion(fi.node):
            rep.ob(rule, f"{q}:{norm(node)[:40]}", False, fi.where(node), f"`{norm(node)[:60]}` measures the caller's spelling `{p_}` after it was converted to `{v}`: hex text is twice as long as the bytes it spells")
    rep.ob(rule, "scanned", True, "btclib:1", f"{n} functions in {module_prefixes}")
    rep.floor(rule, 2)


def rule_stream_param_untouched(ctx: Ctx, rep: Report, rule: str, module_prefixes: tuple[str, ...], floor: int) -> None:
    """A parser takes BinaryData -- octets, or the caller's own stream -- and
    tells the two apart twice by the argument's type: `bytesio_from_binarydata`
    wraps octets and passes a stream through, `assert_no_trailing` refuses
    leftover octets but leaves a caller's stream where it is. Both must see
    the argument as the caller gave it: a parameter re-bound in between (to a
    BytesIO "to avoid a copy") makes octets look like a caller's stream, and
    trailing bytes are accepted."""
    n = 0
    for q, fi in sorted(ctx.prog.functions.items()):
        if not any(q.startswith(p_) for p_ in module_prefixes):
            continue
        params = set(fi.params())
        wraps = [c for c in own_nodes(fi.node) if isinstance(c, ast.Call) and call_name(c) == "bytesio_from_binarydata" and c.args and isinstance(c.args[0], ast.Name) and c.args[0].id in params]
        tails = [c for c in own_nodes(fi.node) if isinstance(c, ast.Call) and call_name(c) == "assert_no_trailing" and c.args and isinstance(c.args[0], ast.Name) and c.args[0].id in params]
        for p_ in sorted({c.args[0].id for c in wraps} & {c.args[0].id for c in tails}):
            rebinds = [a for a in own_nodes(fi.node) if (isinstance(a, ast.Assign) and any(isinstance(t, ast.Name) and t.id == p_ for t in a.targets))
                       or (isinstance(a, (ast.AugAssign, ast.AnnAssign)) and isinstance(a.target, ast.Name) and a.target.id == p_)]
            n += 1
            rep.ob(rule, f"{q}:{p_}", not rebinds, fi.where(rebinds[0] if rebinds else wraps[0]), "wrapped and checked for trailing octets as the caller gave it" if not rebinds else
                   f"`{norm(rebinds[0])[:60]}` re-binds `{p_}` between the caller and the two helpers that dispatch on its type: octets wrapped here pass for the caller's own stream, and trailing bytes are not refused")
    rep.floor(rule, floor)


_MUTABLE_DEFAULT_SAMPLE = """
def f(descriptor, prv_keys: dict = {}):
    return g(descriptor, prv_keys)
"""


def mutable_defaults(fn: ast.AST) -> list[ast.AST]:
    a = fn.args
    out = []
    for d in list(a.defaults) + [k for k in a.kw_defaults if k is not None]:
        if isinstance(d, (ast.Dict, ast.List, ast.Set, ast.ListComp, ast.DictComp, ast.SetComp)) or \
                (isinstance(d, ast.Call) and call_name(d) in ("dict", "list", "set", "bytearray", "defaultdict", "OrderedDict", "deque")):
            out.append(d)
    return out


def rule_no_mutable_defaults(ctx: Ctx, rep: Report, rule: str, module_prefixes: tuple[str, ...]) -> None:
    """A default argument is evaluated once, when the function is defined: a
    `{}` or `[]` default is one object shared by every call that omits the
    argument, and whatever a callee files into it (the private keys a
    descriptor parser collects) is there for the next caller -- the answer
    then depends on what was computed before. Optional containers default to
    None."""
    sample = ast.parse(_MUTABLE_DEFAULT_SAMPLE).body[0]
    rep.ob(rule, "selftest:sample", len(mutable_defaults(sample)) == 1, "rules/sigcommon.py:1", "the detector fires on its own sample (expected count on the tree is zero)")
    n = 0
    for q, fi in sorted(ctx.prog.functions.items()):
        if not any(q.startswith(p_) for p_ in module_prefixes):
            continue
        n += 1
        for d in mutable_defaults(fi.node):
            rep.ob(rule, f"{q}:{norm(d)[:30]}", False, fi.where(d), f"the default `{norm(d)}` is one object for every call: what one call leaves in it, the next one finds")
    rep.ob(rule, "scanned", True, "btclib:1", f"{n} functions in {module_prefixes}")
    rep.floor(rule, 2)
