"""C14 -- descriptors and wallets derive what they describe and recognise only their own.

Derived scripts and checksum values are not decided. Decided: parsing always
passes through the checksum comparison; charset / generator constants and the
polymod / expansion shape are BIP380's; every grammar function has a parser in
the nesting contexts BIP380-389 allow and every concrete descriptor class is
produced by one, implements the derivation hooks and is walked by the
normalisers; "is it mine" is an equality of whole scripts over every branch
and the whole searched range.
"""

from __future__ import annotations

import ast

from sa import mutate as M
from sa.consts import UNKNOWN
from sa import pattern as PT
from sa import values as VX
from sa.ctx import Ctx
from sa.loader import AnalysisError, call_name, norm, own_nodes, parent
from sa.ranges import has, has_bound, refusal_constraints
from sa.report import Report

NOTES = ("C14: decides the checksum gate and BIP380 constants/shape, grammar exhaustiveness and nesting contexts, class "
         "hooks, whole-script equality over every branch and index of the searched range; that derived scripts equal "
         "BIP32 derivation plus hand assembly is not decided.")
DS = "btclib.descriptors.descriptors"
WA = "btclib.wallet.wallet"

# BIP380-389 nesting: function -> contexts it may appear in
CONTEXTS = {
    "pk": {"top level", "sh", "wsh", "tr"}, "pkh": {"top level", "sh", "wsh"}, "wpkh": {"top level", "sh"}, "combo": {"top level"},
    "sh": {"top level"}, "wsh": {"top level", "sh"}, "multi": {"top level", "sh", "wsh"}, "sortedmulti": {"top level", "sh", "wsh"},
    "tr": {"top level"}, "rawtr": {"top level"}, "addr": {"top level"}, "raw": {"top level"},
}


def rule_checksum_gate(ctx: Ctx, rep: Report) -> None:
    """C14.checksum_gate: a descriptor string is parsed only through strip_checksum."""
    rule = "C14.checksum_gate"
    p = ctx.func(f"{DS}.parse")
    calls = [c for c in own_nodes(p.node) if isinstance(c, ast.Call) and call_name(c) == "_parse_expression"]
    ok = bool(calls) and isinstance(calls[0].args[0], ast.Call) and call_name(calls[0].args[0]) == "strip_checksum" and norm(calls[0].args[0].args[0]) == p.params()[0]
    rep.ob(rule, "parse", ok, p.where(), "_parse_expression(strip_checksum(descriptor), ...)")
    sc = ctx.func(f"{DS}.strip_checksum")
    g = ctx.cfg(sc)
    cs = refusal_constraints(ctx, sc)
    ms: dict[str, str] = {}
    part = PT.find(sc.node, "$body, $sep, $given = descriptor.partition('#')", ms)
    ex = PT.find(sc.node, "$exp = checksum($body)", ms)
    rep.ob(rule, "strip_checksum:computed_from_body", part is not None and ex is not None, sc.where(ex), "expected = checksum(body), body = what precedes the '#'")
    bad = [c for c in cs if c.op == "!=" and {str(c.subject), str(c.value_text).split(" |")[0]} == {ms.get("given", "?"), ms.get("exp", "?")} and any(p and str(t) == ms.get("sep") for t, p in c.facts)]
    rep.ob(rule, "strip_checksum:mismatch_refused", bool(bad), sc.where(), "a given checksum that differs from the computed one is refused")
    rep.ob(rule, "strip_checksum:second_hash_refused", any(c.op == "in" and c.subject == "'#'" for c in cs), sc.where(), "a second '#' is refused")
    where = "btclib/descriptors/descriptors.py:1"
    rep.ob(rule, "INPUT_CHARSET", ctx.const(DS, "INPUT_CHARSET") == "0123456789()[],'/*abcdefgh@:$%{}IJKLMNOPQRSTUVWXYZ&+-.;<=>?!^_|~ijklmnopqrstuvwxyzABCDEFGH`#\"\\ ", where, "BIP380 input charset")
    rep.ob(rule, "CHECKSUM_CHARSET", ctx.const(DS, "CHECKSUM_CHARSET") == "qpzry9x8gf2tvdw0s3jn54khce6mua7l", where, "BIP380 checksum charset")
    rep.ob(rule, "GENERATOR", ctx.const(DS, "GENERATOR") == [0xF5DEE51989, 0xA9FDCA3312, 0x1BAB10E32D, 0x3706B1677A, 0x644D626FFD], where, "BIP380 generator")
    pm = PT.text(ctx.func(f"{DS}.__descsum_polymod"))
    rep.ob(rule, "polymod_shape", "top = chk >> 35" in pm and "chk = (chk & 34359738367) << 5 ^ value" in pm and "chk ^= GENERATOR[i] if top >> i & 1 else 0" in pm, ctx.func(f"{DS}.__descsum_polymod").where(), "BIP380 PolyMod")
    xp = PT.text(ctx.func(f"{DS}.__descsum_expand"))
    rep.ob(rule, "expand_shape", "symbols.append(index & 31)" in xp and "groups.append(index >> 5)" in xp and "groups[0] * 9 + groups[1] * 3 + groups[2]" in xp and "groups[0] * 3 + groups[1]" in xp, ctx.func(f"{DS}.__descsum_expand").where(), "BIP380 symbol expansion")
    ck = PT.text(ctx.func(f"{DS}.checksum"))
    ckf = ctx.func(f"{DS}.checksum")
    mk: dict[str, str] = {}
    okk = PT.has(ckf.node, "$sy = [*__descsum_expand(descriptor), 0, 0, 0, 0, 0, 0, 0, 0]", mk) and PT.has(ckf.node, "$pm = __descsum_polymod($sy) ^ 1", mk) \
        and PT.has(ckf.node, "return ''.join((CHECKSUM_CHARSET[$pm >> 5 * (7 - $i) & 31] for $i in range(8)))", mk)
    rep.ob(rule, "checksum_shape", okk, ckf.where(), "eight zero symbols, xor 1, eight 5-bit groups")
    xe = ctx.func(f"{DS}.__descsum_expand")
    rep.ob(rule, "expand:invalid_char_refused", any(c.subject == "index" and c.op == "==" and c.value == -1 for c in refusal_constraints(ctx, xe)), xe.where(), "a character outside the charset is refused")


def rule_grammar(ctx: Ctx, rep: Report) -> None:
    """C14.grammar: parsers, contexts, classes and walkers cover the same grammar."""
    rule = "C14.grammar"
    pr = ctx.const(DS, "_PARSERS")
    if not isinstance(pr, dict):
        raise AnalysisError("_PARSERS does not fold")
    where = "btclib/descriptors/descriptors.py:1"
    rep.ob(rule, "functions", set(pr) == set(CONTEXTS), where, f"missing {sorted(set(CONTEXTS) - set(pr))}, extra {sorted(set(pr) - set(CONTEXTS))}")
    names = {"_TOP": ctx.const(DS, "_TOP"), "_P2SH": ctx.const(DS, "_P2SH"), "_P2WSH": ctx.const(DS, "_P2WSH"), "_P2TR": ctx.const(DS, "_P2TR")}
    alias = {names["_TOP"]: "top level", names["_P2SH"]: "sh", names["_P2WSH"]: "wsh", names["_P2TR"]: "tr"}
    produced: set[str] = set()
    mi = ctx.module(DS)
    for f, row in sorted(pr.items()):
        allowed, parser = row[0], row[1]
        got = {alias.get(a, a) for a in allowed}
        rep.ob(rule, f"context:{f}", got == CONTEXTS.get(f), where, f"{f}() allowed in {sorted(got)} (BIP380: {sorted(CONTEXTS.get(f, []))})")
        pname = getattr(parser, "text", str(parser))
        pf = mi.functions.get(pname)
        rep.ob(rule, f"parser:{f}", pf is not None, where, f"parser {pname}")
        if pf is not None:
            for q in [pf] + [mi.functions[call_name(c)] for c in own_nodes(pf.node) if isinstance(c, ast.Call) and call_name(c) in mi.functions and call_name(c).startswith("_parse_")]:
                for c in own_nodes(q.node):
                    if isinstance(c, ast.Call) and call_name(c).endswith("Descriptor") and call_name(c) in mi.classes:
                        produced.add(call_name(c))
    mp = mi.functions.get("_parse_miniscript_expression")
    if mp is not None:
        produced |= {call_name(c) for c in own_nodes(mp.node) if isinstance(c, ast.Call) and call_name(c) in mi.classes}
    base = ctx.cls(f"{DS}.Descriptor")
    concrete = [c for c in ctx.prog.subclasses(base) if c.module is mi]
    for ci in sorted(concrete, key=lambda c: c.name):
        rep.ob(rule, f"class:{ci.name}:produced", ci.name in produced, f"{mi.relpath}:{ci.node.lineno}", "built by a parser" if ci.name in produced else "no parser builds this class")
        abstract = [n for n, m in base.methods.items() if any("abstractmethod" in d for d in m.decorators())]
        missing = [n for n in abstract if ctx.prog.lookup_method(ci, n) is base.methods[n]]
        rep.ob(rule, f"class:{ci.name}:hooks", not missing, f"{mi.relpath}:{ci.node.lineno}", "implements every abstract hook" if not missing else f"abstract hooks left unimplemented: {missing}")
        has_str = ctx.prog.lookup_method(ci, "__str__") is not None
        rep.ob(rule, f"class:{ci.name}:text", has_str, f"{mi.relpath}:{ci.node.lineno}", "has a text form")
    rep.floor(rule, 40)
    # tree functions only inside tr(); miniscript only in wsh / tr leaves
    pe = ctx.func(f"{DS}._parse_expression")
    txt = PT.text(pe)
    gpe = ctx.cfg(pe)
    vxe = VX.of(pe)
    tree_only = any(isinstance(c, ast.Call) and call_name(c) == "_assert_position" and any(VX.has(v, "_assert_position($$n, $$c, (_P2TR,))") for v in vxe.value_of(c))
                    and any("name in _TREE_FUNCTIONS" in t and pol for t, pol in gpe.facts_at_ast(c)) for c in own_nodes(pe.node))
    rep.ob(rule, "tree_functions_in_tr_only", tree_only, pe.where(), "multi_a / sortedmulti_a only inside tr()")
    rep.ob(rule, "miniscript_contexts", ctx.const(DS, "_TREE_FUNCTIONS") == ("multi_a", "sortedmulti_a") and any(isinstance(c, ast.Call) and call_name(c) == "_parse_miniscript_expression"
                                                                                                   and any("_PARSERS" in t and ((" not in " in t and pol) or (" not in " not in t and " in " in t and not pol)) for t, pol in gpe.facts_at_ast(c))
                                                                                                   and any("_MINISCRIPT_CONTEXTS" in t and " in " in t and pol for t, pol in gpe.facts_at_ast(c)) for c in own_nodes(pe.node)), pe.where(), "other names are miniscript only inside wsh() or a tr() leaf")
    rep.ob(rule, "unknown_function_refused", any(c.op == "not in" and c.subject == "name" for c in refusal_constraints(ctx, pe)), pe.where(), "an unknown function is refused")
    ap = ctx.func(f"{DS}._assert_position")
    rep.ob(rule, "_assert_position", any(c.op == "not in" and c.subject == "context" for c in refusal_constraints(ctx, ap)), ap.where(), "a function outside its allowed contexts is refused")


def _ancestors(n: ast.AST):
    n = parent(n)
    while n is not None:
        yield n
        n = parent(n)


def _enum_vars(fi) -> list[str]:
    """Index variables of `for i, x in enumerate(...)` loops."""
    return [n.target.elts[0].id for n in own_nodes(fi.node) if isinstance(n, ast.For) and isinstance(n.iter, ast.Call) and call_name(n.iter) == "enumerate"
            and isinstance(n.target, ast.Tuple) and isinstance(n.target.elts[0], ast.Name)]


def rule_optional_presence(ctx: Ctx, rep: Report) -> None:
    """C14.optional_presence: in the descriptors package an optional field whose
    class is sized (defines `__len__` / `__bool__`) is asked about with `is
    None` / `is not None`, never by truthiness: a key origin with an empty
    path, `[d34db33f]`, is an origin -- falsy, and present -- and a rendering
    that tests `if self.origin:` writes the key without it, so the descriptor
    does not parse back to itself and its checksum is another one's."""
    rule = "C14.optional_presence"
    n = 0
    for modname in ("btclib.descriptors.key_expression", "btclib.descriptors.descriptors", "btclib.descriptors.miniscript", "btclib.wallet.wallet"):
        mi = ctx.prog.modules.get(modname)
        if mi is None:
            continue
        sized: dict[str, str] = {}  # field name -> class
        for ci in mi.classes.values():
            for st in ci.node.body:
                if isinstance(st, ast.AnnAssign) and isinstance(st.target, ast.Name):
                    ann = norm(st.annotation)
                    if "None" not in ann:
                        continue
                    for part in ann.replace("Optional[", "").replace("]", "").split("|"):
                        q = ctx.prog.resolve_name(mi, ast.parse(part.strip(), mode="eval").body) if part.strip().replace(".", "").isidentifier() else None
                        c2 = ctx.prog.classes.get(q or "")
                        if c2 is not None and (ctx.prog.lookup_method(c2, "__len__") is not None or ctx.prog.lookup_method(c2, "__bool__") is not None):
                            sized[st.target.id] = c2.qualname
        if not sized:
            continue
        for fi in sorted(mi.functions.values(), key=lambda f: f.qualname):
            g = ctx.cfg(fi)
            for nd in g.nodes:
                if nd.kind != "test" or nd.ast is None:
                    continue
                e = nd.ast
                while isinstance(e, ast.UnaryOp) and isinstance(e.op, ast.Not):
                    e = e.operand
                if isinstance(e, ast.Attribute) and e.attr in sized and isinstance(e.value, ast.Name):
                    n += 1
                    rep.ob(rule, f"{fi.qualname}:{norm(nd.ast)}", False, fi.where(nd.ast),
                           f"`{norm(nd.ast)}` asks a {sized[e.attr].rsplit('.', 1)[1]} for its truth: an empty one is falsy and present")
                elif isinstance(e, ast.Compare) and isinstance(e.left, ast.Attribute) and e.left.attr in sized and isinstance(e.ops[0], (ast.Is, ast.IsNot)):
                    n += 1
                    rep.ob(rule, f"{fi.qualname}:{norm(nd.ast)}", True, fi.where(nd.ast), "presence asked with `is None` / `is not None`")
    rep.floor(rule, 1)


def rule_wallet_config(ctx: Ctx, rep: Report) -> None:
    """C14.wallet_config: a descriptor wallet hands the private keys it was given to
    every descriptor call that takes them -- a descriptor holds no key that
    signs or derives hardened steps, so a call without them answers for another
    set of scripts (or refuses) where the wallet's own derivation would not."""
    from rules.sigcommon import rule_config_forwarded
    rule_config_forwarded(ctx, rep, "C14.wallet_config", "btclib.wallet.descriptor_wallet.DescriptorWallet", {"prv_keys": "prv_keys"}, 4, fallback_pkg="btclib.descriptors")


HASH_SPLIT_OK = {
    "btclib.descriptors.descriptors.strip_checksum": "the one place the checksum is split off -- and verified",
    "btclib.core_import._comparable": "compares a wallet's own listing, which may hold descriptors this library refuses; the text is never parsed from here (reviewed)",
}


def rule_checksum_split(ctx: Ctx, rep: Report) -> None:
    """C14.checksum_split: only `strip_checksum` takes a descriptor apart at its
    '#': it is the function that compares the eight characters with the ones
    computed, so any other `partition('#')` / `split('#')` / `find('#')` is a
    way past the checksum -- a corrupted descriptor is then expanded or parsed
    (and handed a fresh, valid checksum) instead of refused."""
    rule = "C14.checksum_split"
    n = 0
    for fi in sorted(ctx.prog.functions.values(), key=lambda f: f.qualname):
        if not (fi.module.name.startswith("btclib.descriptors") or fi.module.name.startswith("btclib.wallet") or fi.module.name == "btclib.core_import"):
            continue
        for c in own_nodes(fi.node):
            if isinstance(c, ast.Call) and isinstance(c.func, ast.Attribute) and c.func.attr in ("partition", "rpartition", "split", "rsplit", "find", "rfind", "index") \
                    and c.args and isinstance(c.args[0], ast.Constant) and c.args[0].value == "#":
                n += 1
                why = HASH_SPLIT_OK.get(fi.qualname)
                rep.ob(rule, f"{fi.qualname}:{norm(c)[:50]}", why is not None, fi.where(c), f"reviewed: {why}" if why else
                       f"`{norm(c)}` takes the checksum off without comparing it: the body is used whatever the eight characters say")
    sc = ctx.func(f"{DS}.strip_checksum")
    rep.ob(rule, "strip_checksum:is_the_splitter", any(isinstance(c, ast.Call) and isinstance(c.func, ast.Attribute) and c.func.attr == "partition" for c in own_nodes(sc.node)), sc.where(), "strip_checksum splits at '#'")
    # and the entry points that take descriptor text go through it
    for q in (f"{DS}.multipath_descriptors", f"{DS}.parse", f"{DS}.add_checksum"):
        fi = ctx.prog.functions.get(q)
        if fi is None:
            continue
        g = ctx.cfg(fi)
        calls = [c for c in own_nodes(fi.node) if isinstance(c, ast.Call) and call_name(c) == "strip_checksum" and c.args and norm(c.args[0]) == fi.params()[0]]
        ok = bool(calls) and any(ctx.unconditional(g, c) for c in calls)
        rep.ob(rule, f"{q.rsplit('.', 1)[1]}:through_strip_checksum", ok, fi.where(), "its text goes through strip_checksum on every path" if ok else "the descriptor text is used without strip_checksum")
    rep.floor(rule, 4)


def rule_is_mine(ctx: Ctx, rep: Report) -> None:
    """C14.is_mine: recognition is whole-script equality over every branch and index."""
    rule = "C14.is_mine"
    io = ctx.func(f"{DS}.Descriptor.index_of")
    txt = PT.text(io)
    from sa.canon import expand
    # the loops: an outer one over range(<last> + 1), an inner one over self.script_pub_keys(<outer var>, ...)
    loops = [(n.target, n.iter, n) for n in own_nodes(io.node) if isinstance(n, (ast.For, ast.comprehension))]
    outer = [(t, it) for t, it, _ in loops if isinstance(it, ast.Call) and call_name(it) == "range" and isinstance(t, ast.Name)]
    inner = [(t, it) for t, it, _ in loops if isinstance(it, ast.Call) and norm(it.func) == "self.script_pub_keys" and isinstance(t, ast.Name)]
    ok_range = False
    for t, it in outer:
        if len(it.args) == 1:
            hi = expand(io, it.args[0]).replace("(", "").replace(")", "").replace(" ", "")
            ok_range |= hi in ("last_indexifself.is_rangedelse0+1", "1+last_indexifself.is_rangedelse0")
        elif len(it.args) == 2 and norm(it.args[0]) == "0":
            hi = expand(io, it.args[1]).replace("(", "").replace(")", "").replace(" ", "")
            ok_range |= hi in ("last_indexifself.is_rangedelse0+1", "1+last_indexifself.is_rangedelse0")
    rep.ob(rule, "index_of:range", ok_range, io.where(), "searches 0..last_index inclusive (only 0 when not ranged)" if ok_range else
           f"the search range is {[norm(it) for _, it in outer]}: not 0..last_index inclusive (0 alone when not ranged)")
    ok_all = any(it.args and any(norm(it.args[0]) == o.id for o, _ in outer) for _, it in inner)
    rep.ob(rule, "index_of:all_scripts", ok_all, io.where(), "every script the descriptor derives at the index is a candidate")
    # the comparison: <candidate>.script == <the validated script>, whole on both sides
    val = {norm(a.targets[0]) for a in own_nodes(io.node) if isinstance(a, ast.Assign) and isinstance(a.value, ast.Call) and call_name(a.value) == "_validated_script_from"}
    cands = {t.id for t, _ in inner}
    cmp_ok = False
    for c in own_nodes(io.node):
        if isinstance(c, ast.Compare) and len(c.ops) == 1 and isinstance(c.ops[0], ast.Eq):
            sides = [c.left, c.comparators[0]]
            a = [x for x in sides if isinstance(x, ast.Attribute) and x.attr == "script" and isinstance(x.value, ast.Name) and x.value.id in cands]
            b = [x for x in sides if isinstance(x, ast.Name) and x.id in val]
            cmp_ok |= bool(a) and bool(b)
    rep.ob(rule, "index_of:whole_script", cmp_ok and bool(val), io.where(), "compares each candidate's whole script with the validated script handed in")
    rets = [n for n in own_nodes(io.node) if isinstance(n, ast.Return)]
    rep.ob(rule, "index_of:not_mine_is_None", any(isinstance(r.value, ast.Constant) and r.value.value is None for r in rets), io.where(), "no match answers None")
    po = ctx.func(f"{WA}.RangedWallet.position_of")
    txt = PT.text(po)
    mpo: dict[str, str] = {}
    sol = PT.solve(po.node, ["for $br in self.branches:\n    $$_", "for $ix in range(last_index + 1):\n    $$_", "self._script_pub_key($br, $ix).script == $sc", "$sc = _validated_script_from(script_pub_key)"], mpo)
    loops_ = [n for n in own_nodes(po.node) if isinstance(n, ast.For)]
    br = [n for n in loops_ if norm(n.iter) == "self.branches" and isinstance(n.target, ast.Name)]
    ix = [n for n in loops_ if norm(n.iter) in ("range(last_index + 1)", "range(0, last_index + 1)") and isinstance(n.target, ast.Name) and br and any(a is br[0] for a in _ancestors(n))]
    cmp_w = [c for c in own_nodes(po.node) if isinstance(c, ast.Compare) and len(c.ops) == 1 and isinstance(c.ops[0], ast.Eq) and br and ix
             and PT.match(PT.compile_("self._script_pub_key($br, $ix).script == $sc"), c, {"br": br[0].target.id, "ix": ix[0].target.id})]
    rep.ob(rule, "position_of:whole_script", bool(cmp_w), po.where(), "whole-script equality")
    rep.ob(rule, "position_of:all_branches", bool(br) and bool(ix), po.where(), "every branch, indexes 0..last_index inclusive")
    for fi in (io, po):
        cmp_ = [n for n in own_nodes(fi.node) if isinstance(n, ast.Compare) and "script" in norm(n)]
        rep.ob(rule, f"{fi.name}:equality_only", bool(cmp_) and all(isinstance(n.ops[0], ast.Eq) and len(n.ops) == 1 for n in cmp_) and not any(call_name(c) in ("startswith", "endswith", "hash160", "find") for c in own_nodes(fi.node) if isinstance(c, ast.Call)),
               fi.where(), "the decision is `==`, never a prefix, a hash or a containment test")
    ad = ctx.func(f"{WA}.RangedWallet.assert_derives")
    cs = refusal_constraints(ctx, ad)
    mad: dict[str, str] = {}
    dv = PT.find(ad.node, "$scripts = [self.script_pub_key(branch, first_index + $o).script for $o in range(len(addresses))]", mad)
    lp = PT.find(ad.node, "$sc = _validated_script_from($a)", mad)
    okm = dv is not None and lp is not None and any(c.op == "!=" and {str(c.subject), str(c.value_text).split(" |")[0]} in ({mad["sc"], f"{mad['scripts']}[{x}]"} for x in _enum_vars(ad)) for c in cs)
    rep.ob(rule, "assert_derives:mismatch", okm, ad.where(), "a written output that differs from the derived one is refused")
    rep.ob(rule, "assert_derives:repeats", any(c.subject == "len(set(scripts))" and c.op == "!=" for c in cs), ad.where(), "one output derived twice is refused")
    rep.ob(rule, "assert_derives:empty", any(c.subject == "addresses" and c.op == "falsy" for c in cs), ad.where(), "an empty span is refused")
    # wallet kinds implement the hooks
    wb = ctx.cls(f"{WA}.Wallet")
    rw = ctx.cls(f"{WA}.RangedWallet")
    for ci in sorted(ctx.prog.subclasses(wb), key=lambda c: c.qualname):
        if ci.qualname == rw.qualname or any("ABC" in b for b in ci.base_names()):
            continue
        abstract = [(b, n) for b in (wb, rw) for n, m in b.methods.items() if any("abstractmethod" in d for d in m.decorators())]
        missing = [n for b, n in abstract if ctx.prog.lookup_method(ci, n) is b.methods[n]]
        rep.ob(rule, f"wallet:{ci.name}:hooks", not missing, f"{ci.module.relpath}:{ci.node.lineno}", "implements every abstract hook" if not missing else f"unimplemented: {missing}")


def rule_ranges(ctx: Ctx, rep: Report) -> None:
    """C14.ranges: index and multisig bounds."""
    rule = "C14.ranges"
    where = "btclib/descriptors/descriptors.py:1"
    rep.ob(rule, "multi_a_keys", ctx.const(DS, "_MAX_MULTI_A_KEYS") == 999, where, "multi_a <= 999 keys")
    pm = ctx.func(f"{DS}._parse_multi")
    txt = PT.text(pm)
    rep.ob(rule, "multi:threshold", "threshold" in txt and bool(refusal_constraints(ctx, pm)), pm.where(), f"refusals {[c.show() for c in refusal_constraints(ctx, pm)][:4]}")
    ai = ctx.func(f"{DS}.at_index")
    g = ctx.cfg(ai)
    ck = [c for c in own_nodes(ai.node) if isinstance(c, ast.Call) and call_name(c) == "_assert_index" and ctx.unconditional(g, c)]
    rep.ob(rule, "at_index:checked", bool(ck) and g.must_pass([i for c in ck for i in g.nodes_containing(c)]) is None, ai.where(), "the index is validated on every path")
    ax = ctx.func(f"{DS}.Descriptor._assert_index")
    cx = refusal_constraints(ctx, ax)
    rep.ob(rule, "index:[0,2^31)", has_bound(cx, "<", 0, subject="index") is not None and has_bound(cx, ">=", 2**31, subject="index") is not None, ax.where(), "0 <= index < 2^31")
    rep.ob(rule, "index:unranged_only_zero", any(c.subject == "self.is_ranged" and c.op == "falsy" and ("index", True) in c.facts for c in cx), ax.where(), "a non-ranged descriptor has a script at index 0 only")
    sp = ctx.func(f"{DS}.Descriptor.script_pub_keys")
    rep.ob(rule, "script_pub_keys:checked", bool([c for c in own_nodes(sp.node) if isinstance(c, ast.Call) and call_name(c) == "_assert_index"]), sp.where(), "deriving scripts validates the index")
    ap = ctx.func(f"{WA}.RangedWallet._assert_position")
    ca = refusal_constraints(ctx, ap)
    rep.ob(rule, "wallet:position", any(c.subject == "index" and c.op == "<" and c.value == 0 for c in ca) and any("branch" in c.subject for c in ca), ap.where(), "a negative index or an unknown branch is refused")


def rule_own_fields(ctx: Ctx, rep: Report) -> None:
    """C14.own_fields: an object hands its own fields to the functions it delegates to (see sigcommon.rule_own_fields_forwarded)."""
    from rules.sigcommon import rule_own_fields_forwarded
    rule_own_fields_forwarded(ctx, rep, "C14.own_fields", ('btclib.descriptors.descriptors', 'btclib.descriptors.key_expression', 'btclib.wallet'), 20)


def rule_params_forwarded_(ctx: Ctx, rep: Report) -> None:
    """C14.params_forwarded: a parameter is handed on to callees that have a parameter of the same name (see sigcommon.rule_params_forwarded)."""
    from rules.sigcommon import rule_params_forwarded
    rule_params_forwarded(ctx, rep, "C14.params_forwarded", ('btclib.descriptors.descriptors', 'btclib.descriptors.key_expression', 'btclib.wallet', 'btclib.core_import'), 100)


def rule_text_reads_back(ctx: Ctx, rep: Report) -> None:
    """C14.text_reads_back: a descriptor's text includes its miniscript leaves, and
    what `_sugared_text` writes for them reads back only with the prefix it is
    handed (C15.sugar_prefix, reported here for the descriptor's write/parse
    round trip)."""
    from rules import C15
    tmp = Report("C15", rep.tier)
    tmp.quiet = True
    C15.rule_sugar_prefix(ctx, tmp)
    for o in tmp.obs:
        rep.ob("C14.text_reads_back", o.instance, o.held, o.site, o.detail)
    rep.floor("C14.text_reads_back", 2)


def rule_wildcard_kind(ctx: Ctx, rep: Report) -> None:
    """C14.wildcard_kind: `KeyExpression.wildcard` is not a flag: it is the offset
    of the wildcard step, 0 for `/*` and 0x80000000 for `/*h`, and the step a
    fixed-index descriptor carries is wildcard + index. Where at_index replaces
    the wildcard by a step, the step is computed from both -- from the index
    alone, `.../0/*h` at 5 becomes `.../0/5`, a descriptor of another key that
    parses, derives, and recognises none of the original's scripts."""
    rule = "C14.wildcard_kind"
    fi = ctx.func("btclib.descriptors.descriptors.at_index")
    idx = fi.params()[1]
    n = 0
    for c in ast.walk(fi.node):
        if isinstance(c, ast.Call) and call_name(c) == "replace" and any(k.arg == "wildcard" for k in c.keywords):
            dp = [k.value for k in c.keywords if k.arg == "der_path"]
            if not dp:
                continue
            n += 1
            new = [e for e in (dp[0].elts if isinstance(dp[0], (ast.Tuple, ast.List)) else [dp[0]]) if not isinstance(e, ast.Starred)]
            names = {x.id for e in new for x in ast.walk(e) if isinstance(x, ast.Name)}
            attrs = {x.attr for e in new for x in ast.walk(e) if isinstance(x, ast.Attribute)}
            # through locals: a step given a name first is the same step
            for _ in range(3):
                for a_ in ast.walk(fi.node):
                    if isinstance(a_, ast.Assign) and any(isinstance(t, ast.Name) and t.id in names for t in a_.targets):
                        names |= {x.id for x in ast.walk(a_.value) if isinstance(x, ast.Name)}
                        attrs |= {x.attr for x in ast.walk(a_.value) if isinstance(x, ast.Attribute)}
            ok = idx in names and "wildcard" in attrs
            rep.ob(rule, "at_index:step", ok, f"{fi.module.relpath}:{c.lineno}", f"the step is `{', '.join(str(norm(e)) for e in new)}`" + ("" if ok else ": it does not carry the wildcard's offset, so a hardened wildcard becomes a plain step"))
    rep.floor(rule, 1)


def rule_multipath_step_grammar(ctx: Ctx, rep: Report) -> None:
    """C14.multipath_step_grammar: a BIP389 multipath step is `<a;b;...>` where each
    alternative is a BIP380 path step: digits and an optional hardening marker
    (h, H or '). The pattern that finds the step in a key expression admits
    them all -- evaluated here on four spellings -- or `.../<0h;1h>/*`, the
    account-level pair of every BIP44-like wallet, is not seen as a multipath
    step and the descriptor is refused or, worse, read as one path."""
    import re as _re
    rule = "C14.multipath_step_grammar"
    mi = ctx.module("btclib.descriptors.descriptors")
    pat = None
    for st in mi.tree.body:
        if isinstance(st, ast.Assign) and isinstance(st.targets[0], ast.Name) and st.targets[0].id == "_MULTIPATH_STEP" and isinstance(st.value, ast.Call) and st.value.args:
            pat = ctx.fold(st.value.args[0], mi)
            where = f"{mi.relpath}:{st.lineno}"
    if not isinstance(pat, str):
        rep.unknown(rule, "_MULTIPATH_STEP", f"{mi.relpath}:1", "the pattern does not fold")
        return
    rx = _re.compile(pat)
    bad = [s_ for s_ in ("<0;1>", "<0h;1h>", "<0';1'>", "<0H;1H>", "<0;1;2>") if rx.fullmatch(s_) is None and not (rx.search("x/" + s_ + "/*") and rx.search("x/" + s_ + "/*").group(0) == s_)]
    rep.ob(rule, "_MULTIPATH_STEP:alternatives", not bad, where, f"`{pat}` finds plain and hardened alternatives" if not bad else
           f"`{pat}` does not find {bad}: a hardened multipath step is not recognised as one")
    rep.floor(rule, 1)


def rule_strict_paths_everywhere(ctx: Ctx, rep: Report) -> None:
    """C14.strict_paths_everywhere: a derivation path inside a descriptor is BIP380's
    strict spelling -- decimal digits and h / H / ' -- wherever it stands: after
    a key, in a key origin, after a musig() expression. The descriptor layer's
    reader of path text (`_der_path`) asks `indexes_from_der_path` for the
    enforced grammar; left to the lenient one, `tr(musig(A,B)/+1/*)`, `/1_0/*`
    and `/1//*` parse, and read as descriptors that were never written."""
    rule = "C14.strict_paths_everywhere"
    n = 0
    for q, fi in sorted(ctx.prog.functions.items()):
        if not q.startswith("btclib.descriptors."):
            continue
        for c in own_nodes(fi.node):
            if isinstance(c, ast.Call) and call_name(c) in ("indexes_from_der_path", "_indexes_from_der_path", "_pairs_from_der_path") and c.args:
                # only text is spelled: a call handed a list of ints has no grammar to enforce
                a0 = c.args[0]
                texty = isinstance(a0, ast.Name) and any(p_.arg == a0.id and p_.annotation is not None and str(norm(p_.annotation)) == "str" for p_ in fi.node.args.posonlyargs + fi.node.args.args)
                if not texty:
                    continue
                n += 1
                ok = any(k.arg == "bip380_enforced" and isinstance(k.value, ast.Constant) and k.value.value is True for k in c.keywords)
                rep.ob(rule, f"{q}:{call_name(c)}", ok, fi.where(c), "the strict grammar is asked for" if ok else
                       f"`{norm(c)[:60]}` reads descriptor text with the lenient path grammar: +1, 1_0, blanks and empty steps are accepted inside a descriptor")
    rep.floor(rule, 1)


def rule_rebuilt_leaf_keeps_its_fields(ctx: Ctx, rep: Report) -> None:
    """C14.rebuilt_leaf_keeps_its_fields: `at_index` and `normalized` rebuild every
    node of a descriptor with its keys mapped and everything else as it was. A
    dataclass node is therefore rebuilt with `replace(node, keys=...)` -- which
    keeps the fields it does not name -- and not by calling the class with the
    fields the author remembered: `MultiA(threshold, keys)` drops `sort`, and
    `sortedmulti_a()` at index 5 becomes a `multi_a()` of another script."""
    rule = "C14.rebuilt_leaf_keeps_its_fields"
    fi = ctx.func("btclib.descriptors.descriptors._mapped_field")
    n = 0
    for i in own_nodes(fi.node):
        if isinstance(i, ast.If) and isinstance(i.test, ast.Call) and call_name(i.test) == "isinstance" and len(i.test.args) == 2 and isinstance(i.test.args[1], ast.Name):
            cls = i.test.args[1].id
            ci = next((c for q_, c in ctx.prog.classes.items() if q_.endswith("." + cls)), None)
            if ci is None or len(ci.fields()) < 2:
                continue
            for r in i.body:
                if isinstance(r, ast.Return) and isinstance(r.value, ast.Call):
                    fn = call_name(r.value)
                    if fn == cls:
                        n += 1
                        given = len(r.value.args) + len(r.value.keywords)
                        ok = given >= len(ci.fields())
                        rep.ob(rule, f"_mapped_field:{cls}", ok, fi.where(r), f"{cls} rebuilt with all {len(ci.fields())} fields" if ok else
                               f"`{norm(r.value)[:70]}` rebuilds a {cls} from {given} of its {len(ci.fields())} fields ({ci.fields()}): the others fall back to their defaults")
                    elif fn == "replace":
                        n += 1
                        rep.ob(rule, f"_mapped_field:{cls}", True, fi.where(r), f"{cls} rebuilt with replace(): the fields not named are kept")
    rep.floor(rule, 1)


RULES = [
    ("C14.strict_paths_everywhere", rule_strict_paths_everywhere),
    ("C14.rebuilt_leaf_keeps_its_fields", rule_rebuilt_leaf_keeps_its_fields),

    ("C14.multipath_step_grammar", rule_multipath_step_grammar),

    ("C14.text_reads_back", rule_text_reads_back),
    ("C14.wildcard_kind", rule_wildcard_kind),
    ("C14.params_forwarded", rule_params_forwarded_),
    ("C14.own_fields", rule_own_fields),
    ("C14.checksum_gate", rule_checksum_gate),
    ("C14.grammar", rule_grammar),
    ("C14.is_mine", rule_is_mine),
    ("C14.checksum_split", rule_checksum_split),
    ("C14.wallet_config", rule_wallet_config),
    ("C14.optional_presence", rule_optional_presence),
    ("C14.ranges", rule_ranges),
]

CONTROLS = [
    {"rule": "C14.checksum_split", "name": "multipath expansion splits the checksum off by hand", "module": DS,
     "edit": lambda ctx: M.sub_expr(ctx, f"{DS}.multipath_descriptors", lambda n: isinstance(n, ast.Call) and call_name(n) == "strip_checksum", "descriptor.partition('#')[0]")},
    {"rule": "C14.wallet_config", "name": "position_of asks the descriptor without the private keys", "module": "btclib.wallet.descriptor_wallet",
     "edit": lambda ctx: M.sub_module_expr(ctx, "btclib.wallet.descriptor_wallet", M.is_text("descriptor.index_of(script_pub_key, last_index, self.prv_keys)"), "descriptor.index_of(script_pub_key, last_index)")},
    {"rule": "C14.optional_presence", "name": "the key origin is rendered only when truthy", "module": "btclib.descriptors.key_expression",
     "edit": lambda ctx: M.sub_module_expr(ctx, "btclib.descriptors.key_expression", M.is_text("self.origin is not None"), "self.origin")},
    {"rule": "C14.checksum_gate", "name": "parse skips strip_checksum", "module": DS,
     "edit": lambda ctx: M.sub_expr(ctx, f"{DS}.parse", lambda n: isinstance(n, ast.Call) and call_name(n) == "strip_checksum", "descriptor.partition('#')[0]")},
    {"rule": "C14.checksum_gate", "name": "a wrong checksum is accepted", "module": DS,
     "edit": lambda ctx: M.drop_if(ctx, f"{DS}.strip_checksum", lambda n: "given_checksum != expected" in norm(n.test))},
    {"rule": "C14.checksum_gate", "name": "generator constant altered", "module": DS,
     "edit": lambda ctx: M.sub_module_expr(ctx, DS, lambda n: isinstance(n, ast.Constant) and n.value == 0x1BAB10E32D, "0x1BAB10E32E")},
    {"rule": "C14.grammar", "name": "wpkh allowed inside wsh", "module": DS,
     "edit": lambda ctx: M.sub_module_expr(ctx, DS, lambda n: isinstance(n, ast.Tuple) and norm(n) == "((_TOP, _P2SH), _parse_wpkh)", "((_TOP, _P2SH, _P2WSH), _parse_wpkh)")},
    {"rule": "C14.is_mine", "name": "position_of stops one short", "module": WA,
     "edit": lambda ctx: M.sub_expr(ctx, f"{WA}.RangedWallet.position_of", M.is_text("range(last_index + 1)"), "range(last_index)")},
    {"rule": "C14.is_mine", "name": "index_of matches on a script prefix", "module": DS,
     "edit": lambda ctx: M.sub_expr(ctx, f"{DS}.Descriptor.index_of", M.is_text("candidate.script == script"), "candidate.script.startswith(script)")},
]
