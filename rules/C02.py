"""C02 -- ECDSA: signatures verify, verification is the SEC 1 equation, DER is canonical.

Values (the equation, RFC 6979 bytes, recovery ids) are not decided. Decided:
r and s are held to 1..n-1 before any use, by every function that takes a
signature; a produced signature has non-zero r and s; the low-s rule uses one
comparator and flips the recovery id with s; boolean wrappers are total; the
strict-DER refusal set; recovery and BIP137 flag ranges.
"""

from __future__ import annotations

import ast

from sa import mutate as M
from sa import pattern as PT
from sa.ctx import Ctx
from sa.loader import AnalysisError, call_name, norm, own_nodes, parent
from sa.ranges import has, has_bound, refusal_constraints
from sa.report import Report
from rules.sigcommon import rule_bool_total, rule_config_forwarded, rule_normalise

NOTES = ("C02: decides r,s range refusals and their domination of every use, zero-refusals of produced signatures, the "
         "low-s comparator and recovery-id flip, totality of the boolean wrappers, the strict DER refusal set, recovery "
         "and BIP137 flag ranges; the verification equation and RFC 6979 values are not decided.")
D = "btclib.ecc.dsa"
B = "btclib.ecc.bms"


def rule_sig_range(ctx: Ctx, rep: Report) -> None:
    """C02.sig_range: Sig.assert_valid accepts r, s in (0, n) only."""
    rule = "C02.sig_range"
    fi = ctx.func(f"{D}.Sig.assert_valid")
    cs = refusal_constraints(ctx, fi)
    for v in ("r", "s"):
        lo = has_bound(cs, "<=", 0, subject=f"self.{v}")
        hi = has(cs, f"self.{v}", ">=", "self.ec.n")
        rep.ob(rule, f"{v}>0", lo is not None, fi.where(), f"refuses {v} <= 0" if lo else f"no refusal of {v} <= 0 (zero or negative {v} accepted)")
        rep.ob(rule, f"{v}<n", hi is not None, fi.where(), f"refuses {v} >= n" if hi else f"no refusal of {v} >= n: {v}+n verifies as {v}")
    # the constructor validates by default
    init = ctx.func(f"{D}.Sig.__init__")
    kd = {a.arg: d for a, d in zip(init.node.args.kwonlyargs, init.node.args.kw_defaults) if d is not None}
    g = ctx.cfg(init)
    av = [c for c in own_nodes(init.node) if isinstance(c, ast.Call) and norm(c.func) == "self.assert_valid"]
    ok = "check_validity" in kd and ctx.fold(kd["check_validity"], init.module) is True and bool(av) and \
        all(any(t == "check_validity" and p for t, p in g.facts_at_ast(c)) for c in av)
    rep.ob(rule, "ctor_validates_by_default", ok, init.where(), "check_validity defaults to True and guards assert_valid()")
    # congruence loop bound r < p
    loops = [n for n in own_nodes(fi.node) if isinstance(n, ast.While)]
    rep.ob(rule, "congruence_bound", any("r < self.ec.p" in norm(w.test) for w in loops), fi.where(), "x candidates r + k*n are tried while below p")


def rule_normalise_(ctx: Ctx, rep: Report) -> None:
    """C02.normalise: every Sig|Octets consumer validates before reading r, s."""
    rule_normalise(ctx, rep, "C02.normalise", [D, B], 8)


def rule_sign_nonzero(ctx: Ctx, rep: Report) -> None:
    """C02.sign_nonzero: a produced signature has r != 0 and s != 0."""
    rule = "C02.sign_nonzero"
    fi = ctx.func(f"{D}._sign_recoverable_")
    g = ctx.cfg(fi)
    for v in ("r", "s"):
        hits = [n for t, pol, n in ctx.refusals(fi) if norm(t) in (f"{v} == 0", f"not {v}", f"0 == {v}") and pol or (norm(t) == v and pol is False)]
        ok = bool(hits) and g.must_pass([h.id for h in hits]) is None
        rep.ob(rule, v, ok, fi.where(), f"refusal {v} == 0 on every path to the returned signature" if ok else f"a signature with {v} = 0 can be returned")
        # and the refusal raises the runtime class (a failed computation, not a bad argument)
        if hits:
            rs = [x for x in ast.walk(hits[0].stmt) if isinstance(x, ast.Raise)] if hits[0].stmt is not None else []
            rep.ob(rule, f"{v}:class", any("BTClibRuntimeError" in norm(x) for x in rs), fi.where(), "raises BTClibRuntimeError")


def rule_low_s(ctx: Ctx, rep: Report) -> None:
    """C02.low_s: one comparator s > n // 2 everywhere; the key id flips with s."""
    rule = "C02.low_s"
    sr = ctx.func(f"{D}._sign_recoverable_")
    g = ctx.cfg(sr)
    ml: dict[str, str] = {}
    fl = PT.find(sr.node, "$s = ec.n - $s", ml) or PT.find(sr.node, "$s = -$s % ec.n", ml)
    flips = [fl] if fl is not None else []
    s_ = ml.get("s", "s")
    kid = [n for n in own_nodes(sr.node) if isinstance(n, ast.AugAssign) and isinstance(n.target, ast.Name) and isinstance(n.op, ast.BitXor)]
    okf = bool(flips) and PT.fact(g.facts_at_ast(flips[0].value), "lower_s") and (PT.fact(g.facts_at_ast(flips[0].value), f"{s_} > ec.n // 2") or PT.fact(g.facts_at_ast(flips[0].value), f"ec.n // 2 < {s_}"))
    rep.ob(rule, "sign:flip_iff_high", okf, sr.where(), "s := n - s exactly when lower_s and s > n // 2" if okf else "the low-s flip is not under `lower_s and s > n // 2`")
    okk = bool(kid) and bool(flips) and isinstance(parent(kid[0]), ast.If) and parent(kid[0]) is parent(flips[0]) and kid[0] in parent(kid[0]).body \
        and flips[0] in parent(kid[0]).body and ctx.fold(kid[0].value, sr.module) == 1
    rep.ob(rule, "sign:key_id_flips_with_s", okk, sr.where(), "key_id ^= 1 in the same branch as the flip")
    for q in (f"{D}._assert_as_valid_", f"{D}._recover_pub_key_"):
        fi = ctx.func(q)
        gg = ctx.cfg(fi)
        hit = [n for t, pol, n in ctx.refusals(fi) if norm(t) == "s > ec.n // 2" and pol and any(x == "lower_s" and p for x, p in gg.facts()[n.id])]
        rep.ob(rule, f"{fi.name}:refuses_high_s", bool(hit), fi.where(), "refuses s > n // 2 under lower_s")
    # key id composition
    mk: dict[str, str] = {"kid": norm(kid[0].target)} if kid else {}
    kd = PT.find(sr.node, "$kid = 2 * ($xk // ec.n) + ($K[1] & 1)", mk) or PT.find(sr.node, "$kid = 2 * ($xk // ec.n) + $K[1] % 2", mk)
    rep.ob(rule, "key_id:definition", kd is not None, sr.where(kd), "key_id = 2 * (x overflowed n) + (y is odd), the variable the flip toggles")


def rule_bool(ctx: Ctx, rep: Report) -> None:
    """C02.bool_total: verify wrappers answer False, never raise (type errors aside)."""
    rule_bool_total(ctx, rep, "C02.bool_total", [f"{D}.verify_", f"{D}.verify", f"{D}.anti_exfil_host_verify", f"{B}.verify"])


def rule_der(ctx: Ctx, rep: Report) -> None:
    """C02.der: the strict DER refusal set (BIP66)."""
    rule = "C02.der"
    rep.ob(rule, "markers", ctx.const(D, "_DER_SIG_MARKER") == b"\x30" and ctx.const(D, "_DER_SCALAR_MARKER") == b"\x02", "btclib/ecc/dsa.py:1", "0x30 sequence, 0x02 integer")
    p = ctx.func(f"{D}.Sig.parse")
    g = ctx.cfg(p)
    cs = refusal_constraints(ctx, p)
    rep.ob(rule, "parse:compound_marker", has(cs, "marker", "!=", b"\x30") is not None, p.where(), "first byte must be 0x30")
    rep.ob(rule, "parse:inner_consumed", any(c.op == "!=" and "sig_data_substream.read(1)" in c.subject and c.value == b"" for c in cs), p.where(), "the inner sequence is fully consumed")
    tr = [n for t, pol, n in ctx.refusals(p) if norm(t) == "stream.read(1) != b''" and pol]
    okt = any(PT.fact(g.facts()[h.id], "strict") for h in tr)
    rep.ob(rule, "parse:no_trailing(strict)", okt, p.where(), "strict: nothing may follow the sequence")
    ds = ctx.func(f"{D}._deserialize_scalar")
    gd = ctx.cfg(ds)
    cd = refusal_constraints(ctx, ds)
    rep.ob(rule, "scalar:marker", has(cd, "marker", "!=", b"\x02") is not None, ds.where(), "each scalar starts with 0x02")
    pad = [n for t, pol, n in ctx.refusals(ds) if "scalar_bytes[1] < 128" in norm(t) and pol]
    okp = any(PT.fact(gd.facts()[h.id], "strict") and PT.fact(gd.facts()[h.id], "len(scalar_bytes) > 1") and PT.fact(gd.facts()[h.id], "scalar_bytes[0] == 0") for h in pad)
    rep.ob(rule, "scalar:no_superfluous_zero(strict)", okp, ds.where(), "a leading 0x00 only before a byte >= 0x80")
    neg = [n for t, pol, n in ctx.refusals(ds) if norm(t) == "scalar_bytes[0] >= 128" and pol]
    okn = any(PT.fact(gd.facts()[h.id], "strict") for h in neg)
    rep.ob(rule, "scalar:no_negative(strict)", okn, ds.where(), "first byte < 0x80")
    # zero-size refused through _parse_der_value (forbid_zero_size=True), and its runtime error converted
    pv = ctx.func(f"{D}._parse_der_value")
    vb = [c for c in ctx.calls_to(pv, "btclib.var_bytes.parse")]
    okz = bool(vb) and any(k.arg == "forbid_zero_size" and ctx.fold(k.value, pv.module) is True for c in vb for k in c.keywords)
    rep.ob(rule, "value:zero_size_refused", okz, pv.where(), "zero-length DER values are refused")
    from sa.effects import Raises
    esc = {x for x in Raises(ctx).of(p) if "Runtime" in x}
    rep.ob(rule, "parse:value_errors_only", not esc, p.where(), "a malformed encoding is a BTClibValueError" if not esc else f"may raise {sorted(esc)}")
    # serialize writes minimal scalars: size = bit_length // 8 + 1
    ss = ctx.func(f"{D}._serialize_scalar")
    from sa import values as VX
    okm = VX.of(ss).anywhere("scalar.to_bytes(scalar.bit_length() // 8 + 1, byteorder='big', signed=False)") or VX.of(ss).anywhere("scalar.to_bytes(scalar.bit_length() // 8 + 1, 'big')") \
        or VX.of(ss).anywhere("scalar.to_bytes(1 + scalar.bit_length() // 8, byteorder='big', signed=False)")
    rep.ob(rule, "serialize:minimal", okm, ss.where(), "the scalar is written at bit_length // 8 + 1 octets" if okm else "the scalar is not written at bit_length // 8 + 1 octets")


def rule_recover_range(ctx: Ctx, rep: Report) -> None:
    """C02.recover_range: recovery id ranges."""
    rule = "C02.recover_range"
    rp = ctx.func(f"{D}.recover_pub_key_")
    g = ctx.cfg(rp)
    dc = [c for c in own_nodes(rp.node) if isinstance(c, ast.Call) and call_name(c) == "_libsecp256k1_recover_point_"]
    ok = bool(dc) and any(t == "0 <= key_id <= 3" and p for t, p in g.facts_at_ast(dc[0]))
    rep.ob(rule, "delegated_only_0..3", ok, rp.where(), "the bindings are asked only for 0 <= key_id <= 3")
    r_ = ctx.func(f"{D}._recover_pub_key_")
    cs = refusal_constraints(ctx, r_)
    okx = has_bound(cs, "<", 0, subject="x_K") is not None and has(cs, "x_K", ">=", "ec.p") is not None
    rep.ob(rule, "x_K_field_element", okx, r_.where(), "prime order: x_K outside [0, p) refused")
    rs = ctx.func(f"{D}._recover_pub_keys_")
    rg = [n for n in own_nodes(rs.node) if isinstance(n, ast.For) and norm(n.iter) == "range(2 * (ec.cofactor + 1))"]
    rep.ob(rule, "candidate_count", bool(rg), rs.where(), "2 * (cofactor + 1) candidate key ids")
    rep.ob(rule, "inf_key_refused", any(c.subject == "QJ[2]" and c.op == "==" and c.value == 0 for c in cs), r_.where(), "a recovered key at infinity is refused")


def rule_bms_flag(ctx: Ctx, rep: Report) -> None:
    """C02.bms_flag: BIP137 recovery flag ranges."""
    rule = "C02.bms_flag"
    av = ctx.func(f"{B}.Sig.assert_valid")
    cs = refusal_constraints(ctx, av)
    rep.ob(rule, "rf in [27, 42]", has_bound(cs, "<", 27, subject="self.rf") is not None and has_bound(cs, ">", 42, subject="self.rf") is not None, av.where(), "rf outside 27..42 refused")
    for q, rows, what in ((f"{B}._assert_p2pkh", [(">", 34)], "p2pkh rf <= 34"), (f"{B}._assert_p2wpkh_p2sh", [("<=", 30), (">=", 39)], "p2wpkh-p2sh 30 < rf < 39")):
        fi = ctx.func(q)
        c2 = refusal_constraints(ctx, fi)
        ok = all(has_bound(c2, op, v, subject="rf") is not None for op, v in rows)
        rep.ob(rule, what, ok, fi.where(), f"refusals {[c.show() for c in c2 if c.subject == 'rf']}")
    fi = ctx.func(f"{B}._assert_p2wpkh")
    tests = [norm(n.test) for n in own_nodes(fi.node) if isinstance(n, ast.If)]
    rep.ob(rule, "p2wpkh 30 < rf < 35 or rf > 38", "not (30 < rf < 35 or rf > 38)" in tests, fi.where(), f"tests {tests}")


def rule_signer_config(ctx: Ctx, rep: Report) -> None:
    """C02.signer_config: the Signer hands its own curve and hash function to every function it delegates to."""
    rule_config_forwarded(ctx, rep, "C02.signer_config", f"{D}.Signer", {"_ec": "ec", "_hf": "hf"}, 3)


def rule_signer_arm(ctx: Ctx, rep: Report) -> None:
    """C02.signer_arm: a Signer signs on the arm its state was laid out for at
    construction (key in the bindings' buffer, or as an int): it never asks the
    dispatch predicate again, whose answer is process-wide state that may have
    moved -- else the signature depends on that state and not on (key, message)."""
    from rules.C04 import token_reask
    token_reask(ctx, rep, "C02.signer_arm", D)
    rep.floor("C02.signer_arm", 2)


def rule_dispatch_hf(ctx: Ctx, rep: Report) -> None:
    """C02.dispatch_hf: every dispatch in the module asks the bindings predicate
    with the hash function the caller named -- RFC 6979 nonce inside libsecp256k1 is HMAC-SHA256: a signature asked under another hash function is the Python arm's, or it is not the RFC 6979 signature of (key, message, hf)."""
    from rules.C04 import predicate_hf
    predicate_hf(ctx, rep, "C02.dispatch_hf", D)
    rep.floor("C02.dispatch_hf", 4)


def rule_own_fields(ctx: Ctx, rep: Report) -> None:
    """C02.own_fields: an object hands its own fields to the functions it delegates to (see sigcommon.rule_own_fields_forwarded)."""
    from rules.sigcommon import rule_own_fields_forwarded
    rule_own_fields_forwarded(ctx, rep, "C02.own_fields", ('btclib.ecc.dsa',), 6)


def rule_params_forwarded_(ctx: Ctx, rep: Report) -> None:
    """C02.params_forwarded: a parameter is handed on to callees that have a parameter of the same name (see sigcommon.rule_params_forwarded)."""
    from rules.sigcommon import rule_params_forwarded
    rule_params_forwarded(ctx, rep, "C02.params_forwarded", ('btclib.ecc.dsa', 'btclib.ecc.bms', 'btclib.ecc.rfc6979'), 60)


def rule_raw_argument_(ctx: Ctx, rep: Report) -> None:
    """C02.raw_argument: verification answers for every accepted spelling of its arguments (C04.raw_argument, read for the ECDSA modules)."""
    from rules import C04
    tmp = Report("C04", rep.tier)
    tmp.quiet = True
    C04.rule_raw_argument(ctx, tmp)
    for o in tmp.obs:
        if o.instance.startswith("btclib.ecc.dsa") or o.instance.startswith("btclib.ecc.bms"):
            rep.ob("C02.raw_argument", o.instance, o.held, o.site, o.detail)
    rep.floor("C02.raw_argument", 1)


def rule_one_comparator(ctx: Ctx, rep: Report) -> None:
    """C02.one_comparator: "high s" is `s > n // 2` -- strictly -- everywhere it is
    asked, in the ECDSA module and in the script engine's signature fix-up:
    n is odd, so n // 2 itself is the largest *low* s, and a site that says
    `>=` flips (or refuses) a signature the other sites, and libsecp256k1,
    take as it is. Every comparison against `<curve>.n // 2` in the package
    is collected and must read `x > n // 2` (or `n // 2 < x`)."""
    rule = "C02.one_comparator"
    n = 0
    for fi in sorted(ctx.prog.functions.values(), key=lambda f: f.qualname):
        for c in own_nodes(fi.node):
            if not (isinstance(c, ast.Compare) and len(c.ops) == 1):
                continue
            l, r = c.left, c.comparators[0]
            half = lambda e: isinstance(e, ast.BinOp) and isinstance(e.op, (ast.FloorDiv, ast.RShift)) and str(norm(e.left)).endswith(".n") and ctx.fold(e.right, fi.module) in (2, 1)  # noqa: E731
            if half(r):
                op = type(c.ops[0])
            elif half(l):
                op = {ast.Lt: ast.Gt, ast.LtE: ast.GtE, ast.Gt: ast.Lt, ast.GtE: ast.LtE}.get(type(c.ops[0]), type(c.ops[0]))
            else:
                continue
            n += 1
            ok = op in (ast.Gt, ast.LtE)  # "is high": >, "is low": <=
            rep.ob(rule, f"{fi.qualname}:{norm(c)}", ok, fi.where(c), "strict: n // 2 is a low s" if ok else
                   f"`{norm(c)}` puts s = n // 2 on the other side of the line from every other site: the largest low s is treated as high")
    rep.floor(rule, 5)


def rule_rfc6979_steps(ctx: Ctx, rep: Report) -> None:
    """C02.rfc6979_steps: RFC 6979 section 3.2 as a sequence of HMAC calls over two
    state variables, read off the code by their initialisers (V = 01..01, K =
    00..00): every HMAC is keyed by K; V is always V = HMAC_K(V); K is updated
    three times, as HMAC_K(V || 00 || data), HMAC_K(V || 01 || data) and, on a
    rejected candidate, HMAC_K(V || 00) -- with V, the last block, and never the
    candidate T. The retry step runs only when a candidate falls outside
    1..n-1 (one time in 2^128 on secp256k1, every other time on secp160r1 with
    sha1), which is why no test sees it."""
    rule = "C02.rfc6979_steps"
    fi = ctx.func("btclib.ecc.rfc6979_nonce._rfc6979_nonce_")
    init: dict[int, str] = {}
    for a in own_nodes(fi.node):
        if isinstance(a, ast.Assign) and isinstance(a.targets[0], ast.Name) and isinstance(a.value, ast.BinOp) and isinstance(a.value.op, ast.Mult) \
                and isinstance(a.value.left, ast.Constant) and a.value.left.value in (b"\x00", b"\x01"):
            init[a.value.left.value[0]] = a.targets[0].id
    if set(init) != {0, 1}:
        rep.unknown(rule, "state", fi.where(), f"the initialisers of K and V were not found: {init}")
        return
    K, V = init[0], init[1]
    calls = sorted([a for a in own_nodes(fi.node) if isinstance(a, ast.Assign) and isinstance(a.value, ast.Call) and isinstance(a.value.func, ast.Attribute) and a.value.func.attr == "digest"
                    and isinstance(a.value.func.value, ast.Call) and norm(a.value.func.value.func) == "hmac.new"], key=lambda a: a.lineno)

    def atoms(e: ast.AST) -> list[ast.AST]:
        return atoms(e.left) + atoms(e.right) if isinstance(e, ast.BinOp) and isinstance(e.op, ast.Add) else [e]

    kseq = []
    for a in calls:
        h = a.value.func.value
        tgt = a.targets[0].id if isinstance(a.targets[0], ast.Name) else "?"
        key, msg = h.args[0], atoms(h.args[1])
        okk = isinstance(key, ast.Name) and key.id == K
        rep.ob(rule, f"L{a.lineno - fi.node.lineno}:keyed_by_K", okk, fi.where(a), f"HMAC keyed by `{norm(key)}`" + ("" if okk else f", not by K (`{K}`)"))
        okv = isinstance(msg[0], ast.Name) and msg[0].id == V
        rep.ob(rule, f"L{a.lineno - fi.node.lineno}:over_V", okv, fi.where(a), f"the HMAC message begins with `{norm(msg[0])}`" + ("" if okv else f", not with V (`{V}`), the last block generated"))
        if tgt == V:
            rep.ob(rule, f"L{a.lineno - fi.node.lineno}:V=HMAC_K(V)", len(msg) == 1, fi.where(a), f"V = HMAC_K({norm(h.args[1])})")
        elif tgt == K:
            sep = msg[1].value if len(msg) > 1 and isinstance(msg[1], ast.Constant) else None
            kseq.append((sep, len(msg)))
        else:
            rep.ob(rule, f"L{a.lineno - fi.node.lineno}:target", False, fi.where(a), f"an HMAC assigned to `{tgt}`, which is neither K nor V")
    okq = kseq == [(b"\x00", 3), (b"\x01", 3), (b"\x00", 2)]
    rep.ob(rule, "K_updates", okq, fi.where(), "K = HMAC_K(V||00||data), HMAC_K(V||01||data), and HMAC_K(V||00) on retry" if okq else f"K updates (separator, parts) = {kseq}; RFC 6979: [(00, 3), (01, 3), (00, 2)]")
    rep.floor(rule, 16)


def rule_no_stale_cache_(ctx: Ctx, rep: Report) -> None:
    """C02.no_stale_cache: a memo is keyed by hashable, converted values and never hands out a mutable answer (see sigcommon.rule_no_stale_cache): verification answers for every declared spelling of the key."""
    from rules.sigcommon import rule_no_stale_cache
    rule_no_stale_cache(ctx, rep, "C02.no_stale_cache", ("btclib.ecc.dsa", "btclib.ecc.bms", "btclib.ecc.rfc6979", "btclib.to_pub_key", "btclib.to_prv_key", "btclib.curves"), 1)


def rule_config_not_replaced_(ctx: Ctx, rep: Report) -> None:
    """C02.config_not_replaced: the curve / hash function / network a function takes is handed on as its own, never replaced by a module constant (see sigcommon.rule_config_not_replaced)."""
    from rules.sigcommon import rule_config_not_replaced
    rule_config_not_replaced(ctx, rep, "C02.config_not_replaced", ('btclib.ecc.dsa', 'btclib.ecc.bms', 'btclib.ecc.rfc6979', 'btclib.ecc.commit_nonce'), 1)


def rule_hash_params_(ctx: Ctx, rep: Report) -> None:
    """C02.hash_params: a `..._hash` parameter is handed a digest, never the caller's text as it came (see sigcommon.rule_hash_params)."""
    from rules.sigcommon import rule_hash_params
    rule_hash_params(ctx, rep, "C02.hash_params", ('btclib.ecc.dsa', 'btclib.ecc.bms', 'btclib.ecc.rfc6979', 'btclib.ecc.commit_nonce'), 1)


def rule_multipliers_reduced(ctx: Ctx, rep: Report) -> None:
    """C02.multipliers_reduced: SEC1 4.1.4 computes u1 = e*w mod n and u2 = r*w
    mod n and multiplies with those. In `_assert_as_valid_` each of the two
    coefficients handed to the double multiplication is, followed through its
    local, an expression reduced `% <curve>.n`: a product left unreduced is a
    512-bit multiplier -- the Python ladder answers it slowly and the bindings'
    32-byte scalar cannot hold it."""
    from sa.canon import expand
    rule = "C02.multipliers_reduced"
    fi = ctx.func("btclib.ecc.dsa._assert_as_valid_")
    calls = [c for c in own_nodes(fi.node) if isinstance(c, ast.Call) and call_name(c) in ("_jac_double_mult", "double_mult_var", "_double_mult") and len(c.args) >= 4]
    if len(calls) != 1:
        rep.unknown(rule, "_assert_as_valid_", fi.where(), f"{len(calls)} double multiplications")
        return
    for k in (0, 2):
        text = str(expand(fi, calls[0].args[k], depth=1)).replace(" ", "")
        tree = ast.parse(text, mode="eval").body
        ok = isinstance(tree, ast.BinOp) and isinstance(tree.op, ast.Mod) and str(norm(tree.right)).replace(" ", "").endswith(".n")
        rep.ob(rule, f"_assert_as_valid_:coefficient{k // 2 + 1}", ok, fi.where(calls[0]), f"`{norm(calls[0].args[k])}` = `{text}` is reduced mod n" if ok else
               f"the coefficient `{norm(calls[0].args[k])}` = `{text}` is not reduced mod n before it multiplies")
    rep.floor(rule, 2)


def rule_values_by_value_(ctx: Ctx, rep: Report) -> None:
    """C02.values_by_value: the curve a key is read on, the curve its version names,
    the curve the caller passed: compared by value (sigcommon.values_by_value),
    so a caller's own `Curve(...)` of secp256k1's parameters signs and
    verifies like the library's constant."""
    from rules import sigcommon
    sigcommon.rule_values_by_value(ctx, rep, "C02.values_by_value", ("btclib.",))


def rule_digest_length_enforced(ctx: Ctx, rep: Report) -> None:
    """C02.digest_length_enforced: ECDSA's `_` functions take the *digest* of the
    message, and a digest has the hash function's length: every
    `bytes_from_octets(msg_hash...)` in dsa.py and rfc6979_nonce.py passes the
    size it must have and uses the answer whole (no slice that would make 40
    octets read as their first 32 -- two messages, one signature), and
    `challenge_`, which every signer and verifier goes through, has one."""
    rule = "C02.digest_length_enforced"
    n = 0
    seen_challenge = False
    for q, fi in sorted(ctx.prog.functions.items()):
        if not (q.startswith("btclib.ecc.dsa.") or q.startswith("btclib.ecc.rfc6979_nonce.")):
            continue
        for c in own_nodes(fi.node):
            if not (isinstance(c, ast.Call) and call_name(c) == "bytes_from_octets" and c.args and isinstance(c.args[0], ast.Name) and c.args[0].id.startswith("msg_hash")):
                continue
            n += 1
            sized = len(c.args) >= 2 or any(k.arg in ("out_size", "size") for k in c.keywords)
            sliced = isinstance(parent(c), ast.Subscript) and isinstance(parent(c).slice, ast.Slice) and (parent(c).slice.lower is not None or parent(c).slice.upper is not None)
            ok = sized and not sliced
            if q == "btclib.ecc.rfc6979_nonce.challenge_" and ok:
                seen_challenge = True
            rep.ob(rule, f"{q}:{c.args[0].id}", ok, fi.where(c), "admitted at the digest's length" if ok else
                   f"`{norm(parent(c) if sliced else c)}` does not hold the digest to its length: a longer value is read as its head, so two different inputs sign and verify as one")
    fi = ctx.func("btclib.ecc.rfc6979_nonce.challenge_")
    rep.ob(rule, "challenge_:admits", seen_challenge, fi.where(), "challenge_ admits the digest at its length" if seen_challenge else
           "challenge_ no longer refuses a msg_hash that is not hf's digest size")
    rep.floor(rule, 6)


def rule_grind_test_is_der_pad(ctx: Ctx, rep: Report) -> None:
    """C02.grind_test_is_der_pad: grinding re-signs exactly when r costs a DER pad
    byte -- when it does not fit the order's octets as a signed integer,
    `r.bit_length() >= 8 * n_size` -- so that where no r can cost one (an
    order of 521 bits in 66 octets) the default signature *is* RFC6979's. The
    loop test of `_grind_low_r` is folded, helpers inlined, on orders of
    256/32, 521/66, 112/14 and 7/1 bits/octets and r at the edges of each."""
    import copy
    from sa.consts import Unknown
    rule = "C02.grind_test_is_der_pad"
    fi = ctx.func("btclib.ecc.dsa._grind_low_r")
    loops = [w for w in own_nodes(fi.node) if isinstance(w, ast.While)]
    if len(loops) != 1:
        rep.unknown(rule, "_grind_low_r", fi.where(), f"{len(loops)} while loops")
        return
    local = {a.targets[0].id: a.value for a in own_nodes(fi.node) if isinstance(a, ast.Assign) and len(a.targets) == 1 and isinstance(a.targets[0], ast.Name) and a.targets[0].id not in ("sig", "counter")}

    def subst(e: ast.AST, env: dict[str, ast.AST], owner, depth: int = 0) -> ast.AST:
        class T(ast.NodeTransformer):
            def visit_Name(self, n):
                if isinstance(n.ctx, ast.Load) and n.id in env:
                    return copy.deepcopy(env[n.id])
                return n

            def visit_Call(self, n):
                n = self.generic_visit(n)
                tgt = ctx.resolve_call(owner, n)
                callee = ctx.prog.functions.get(tgt) if tgt else None
                if callee is not None and depth < 3 and not n.keywords:
                    body = [s for s in callee.node.body if not (isinstance(s, ast.Expr) and isinstance(s.value, ast.Constant))]
                    if len(body) == 1 and isinstance(body[0], ast.Return) and body[0].value is not None:
                        ps = [a.arg for a in callee.node.args.args]
                        if len(ps) == len(n.args):
                            return subst(copy.deepcopy(body[0].value), dict(zip(ps, n.args)), callee, depth + 1)
                return n
        return T().visit(e)

    class Attr(ast.NodeTransformer):
        def visit_Attribute(self, n):
            n = self.generic_visit(n)
            if n.attr == "r":
                return ast.Name(id="__r", ctx=ast.Load())
            if n.attr in ("nlen", "n_size") and isinstance(n.value, ast.Name):
                return ast.Name(id="__" + n.attr, ctx=ast.Load())
            return n

    test = Attr().visit(subst(copy.deepcopy(loops[0].test), local, fi))
    for nlen, n_size in ((256, 32), (521, 66), (112, 14), (7, 1)):
        for r in sorted({1, (1 << (nlen - 1)) - 1, 1 << (nlen - 1), (1 << nlen) - 1, (1 << (8 * n_size - 1)) - 1} | ({1 << (8 * n_size - 1)} if 8 * n_size == nlen else set())):
            if r.bit_length() > nlen:
                continue
            try:
                got = bool(ctx.fold(test, fi.module, {"__r": r, "__nlen": nlen, "__n_size": n_size}))
            except Unknown as e:
                rep.unknown(rule, f"n:{nlen}/{n_size}", fi.where(loops[0]), f"loop test not folded: {e}")
                return
            want = r.bit_length() >= 8 * n_size
            rep.ob(rule, f"n:{nlen}bits/{n_size}octets,r:{r.bit_length()}bits", got == want, fi.where(loops[0]),
                   "re-signs exactly when r costs the pad" if got == want else
                   f"`while {norm(loops[0].test)}` {'re-signs' if got else 'keeps'} an r of {r.bit_length()} bits on an order of {nlen} bits in {n_size} octets, where DER {'needs no' if got else 'needs a'} pad byte: the default signature is no longer the one RFC6979 and Core produce")
    rep.floor(rule, 12)


def rule_bindings_behind_dispatch_(ctx: Ctx, rep: Report) -> None:
    """C02.bindings_behind_dispatch: ECDSA's u1*G + u2*Q goes through `_jac_double_mult`,
    and a digest that is 0 mod n makes u1 zero: the bindings refuse a zero
    scalar, so their wrapper is reached through the dispatching functions and
    their guards only (C01.bindings_behind_dispatch, reported here) -- else a
    valid signature over such a digest verifies False with the bindings on."""
    from rules import C01
    tmp = Report("C01", rep.tier)
    tmp.quiet = True
    C01.rule_bindings_behind_dispatch(ctx, tmp)
    for o in tmp.obs:
        rep.ob("C02.bindings_behind_dispatch", o.instance, o.held, o.site, o.detail)
    rep.floor("C02.bindings_behind_dispatch", 2)


def rule_scalar_octets_from_the_order(ctx: Ctx, rep: Report) -> None:
    """C02.scalar_octets_from_the_order: RFC6979's int2octets and bits2octets, and the
    DER pad test, work at the length of the *order*: `Curve.n_size` is the
    octets of n -- ceil(nlen / 8) -- not the field's. The two differ on the
    curves whose order is one octet longer than their prime (secp160k1/r1/r2,
    secp224k1), where a nonce derived at p's length is not RFC6979's."""
    from sa import values as VX
    rule = "C02.scalar_octets_from_the_order"
    fi = ctx.func("btclib.curves.curve.Curve.__init__")
    sets = [a for a in own_nodes(fi.node) if isinstance(a, ast.Assign) and any(norm(t) == "self.n_size" for t in a.targets)]
    if len(sets) != 1:
        rep.unknown(rule, "Curve.__init__", fi.where(), f"self.n_size is assigned {len(sets)} times")
        return
    vx = VX.of(fi)
    vals = vx.value_of(sets[0]) or [VX.normal(sets[0].value)]
    pats = ("($$n.bit_length() + 7) // 8", "(self.nlen + 7) // 8", "-(-self.nlen // 8)", "-(-$$n.bit_length() // 8)", "(7 + self.nlen) // 8")
    ok = any(VX.has(v, p_) for v in vals for p_ in pats)
    rep.ob(rule, "Curve.n_size", ok, fi.where(sets[0]), "ceil(nlen / 8)" if ok else f"`{norm(sets[0])}` is not the octet length of the order")
    rep.floor(rule, 1)


RULES = [
    ("C02.scalar_octets_from_the_order", rule_scalar_octets_from_the_order),

    ("C02.bindings_behind_dispatch", rule_bindings_behind_dispatch_),

    ("C02.grind_test_is_der_pad", rule_grind_test_is_der_pad),

    ("C02.digest_length_enforced", rule_digest_length_enforced),

    ("C02.values_by_value", rule_values_by_value_),

    ("C02.multipliers_reduced", rule_multipliers_reduced),
    ("C02.config_not_replaced", rule_config_not_replaced_),
    ("C02.hash_params", rule_hash_params_),

    ("C02.no_stale_cache", rule_no_stale_cache_),
    ("C02.rfc6979_steps", rule_rfc6979_steps),
    ("C02.one_comparator", rule_one_comparator),
    ("C02.raw_argument", rule_raw_argument_),
    ("C02.params_forwarded", rule_params_forwarded_),
    ("C02.own_fields", rule_own_fields),
    ("C02.dispatch_hf", rule_dispatch_hf),
    ("C02.signer_arm", rule_signer_arm),
    ("C02.signer_config", rule_signer_config),
    ("C02.sig_range", rule_sig_range),
    ("C02.normalise", rule_normalise_),
    ("C02.sign_nonzero", rule_sign_nonzero),
    ("C02.low_s", rule_low_s),
    ("C02.bool_total", rule_bool),
    ("C02.der", rule_der),
    ("C02.recover_range", rule_recover_range),
    ("C02.bms_flag", rule_bms_flag),
]

CONTROLS = [
    {"rule": "C02.one_comparator", "name": "the engine flips s = n // 2", "module": "btclib.script.engine.script",
     "edit": lambda ctx: M.sub_expr(ctx, "btclib.script.engine.script.fix_signature", M.is_text("sig.s > sig.ec.n // 2"), "sig.s >= sig.ec.n // 2")},
    {"rule": "C02.own_fields", "name": "Signer.sign_ computes the challenge under the default hash", "module": D,
     "edit": lambda ctx: M.sub_expr(ctx, f"{D}.Signer.sign_", M.is_text("challenge_(msg_hash, self._ec, self._hf)"), "challenge_(msg_hash, self._ec)")},
    {"rule": "C02.dispatch_hf", "name": "sign_ asks the bindings without the hash function", "module": D,
     "edit": lambda ctx: M.sub_expr(ctx, f"{D}.sign_", lambda n: isinstance(n, ast.Call) and call_name(n) == "_libsecp256k1_serves" and len(n.args) == 2, "_libsecp256k1_serves(ec, None)")},
    {"rule": "C02.signer_config", "name": "Signer.sign reduces the message with the default hash", "module": D,
     "edit": lambda ctx: M.sub_expr(ctx, f"{D}.Signer.sign", M.is_text("reduce_to_hlen(msg, self._hf)"), "reduce_to_hlen(msg)")},
    {"rule": "C02.signer_arm", "name": "Signer.sign_ asks the predicate again", "module": D,
     "edit": lambda ctx: M.sub_expr(ctx, f"{D}.Signer.sign_", M.is_text("self._pub_key_sec is not None"), "_libsecp256k1_serves(self._ec, self._hf)")},
    {"rule": "C02.sig_range", "name": "s may equal n", "module": D,
     "edit": lambda ctx: M.sub_expr(ctx, f"{D}.Sig.assert_valid", M.is_text("0 < self.s < self.ec.n"), "0 < self.s <= self.ec.n")},
    {"rule": "C02.normalise", "name": "recover_pub_key_ trusts a Sig instance", "module": D,
     "edit": lambda ctx: M.sub_expr(ctx, f"{D}.recover_pub_key_", lambda n: isinstance(n, ast.Expr) and norm(n) == "sig.assert_valid()", "pass")},
    {"rule": "C02.normalise", "name": "assert_as_valid_ parses without validation", "module": D,
     "edit": lambda ctx: M.sub_expr(ctx, f"{D}.assert_as_valid_", M.is_text("Sig.parse(sig)"), "Sig.parse(sig, check_validity=False)")},
    {"rule": "C02.sign_nonzero", "name": "s == 0 no longer refused", "module": D,
     "edit": lambda ctx: M.drop_if(ctx, f"{D}._sign_recoverable_", lambda n: norm(n.test) == "s == 0")},
    {"rule": "C02.low_s", "name": "key id not flipped with s", "module": D,
     "edit": lambda ctx: M.sub_expr(ctx, f"{D}._sign_recoverable_", lambda n: isinstance(n, ast.AugAssign) and norm(n.target) == "key_id", "pass")},
    {"rule": "C02.low_s", "name": "verification refuses s >= n // 2", "module": D,
     "edit": lambda ctx: M.sub_expr(ctx, f"{D}._assert_as_valid_", M.is_text("s > ec.n // 2"), "s >= ec.n // 2")},
    {"rule": "C02.bool_total", "name": "verify_ catches ValueError only", "module": D,
     "edit": lambda ctx: M.sub_expr(ctx, f"{D}.verify_", lambda n: isinstance(n, ast.Tuple) and "BTClibRuntimeError" in norm(n), "ValueError")},
    {"rule": "C02.der", "name": "superfluous leading zero accepted", "module": D,
     "edit": lambda ctx: M.drop_if(ctx, f"{D}._deserialize_scalar", lambda n: "scalar_bytes[1] < 128" in norm(n.test))},
    {"rule": "C02.recover_range", "name": "x_K upper bound dropped", "module": D,
     "edit": lambda ctx: M.sub_expr(ctx, f"{D}._recover_pub_key_", M.is_text("0 <= x_K < ec.p"), "0 <= x_K")},
    {"rule": "C02.bms_flag", "name": "p2pkh accepts rf 35", "module": B,
     "edit": lambda ctx: M.sub_expr(ctx, f"{B}._assert_p2pkh", M.is_text("rf > 34"), "rf > 35")},
]
