"""C20 -- nonces sign once, wiped signers stay dead, answers do not depend on history.

Decided: the MuSig2 secret nonce is zeroed on every signing path before any
refusal can keep it alive (typestate *consume*); every public signing method
of the three signer classes refuses on its terminal flag first, and the flags
are monotone; the wallet counters have one writer each and the counter update
depends on its previous value; the shared wordlist tables are written under
their lock; memoized results are never mutated by their callers.
Not decided: linearizability under threads beyond that one lock's discipline.
"""

from __future__ import annotations

import ast

from sa import mutate as M
from sa.consts import UNKNOWN
from sa.ctx import Ctx
from sa.loader import AnalysisError, FuncInfo, call_name, norm, own_nodes, parent
from sa.report import Report

NOTES = ("C20: decides nonce consumption in musig2.sign and its callers, flag checks and monotonicity of the signer "
         "classes, writers/monotone update of wallet counters, lock discipline of the wordlist tables, immutability of "
         "memoized results at their call sites; thread linearizability in general is not decided.")

MUSIG = "btclib.ecc.musig2"


def _zero_const(ctx: Ctx, fi: FuncInfo, e: ast.AST) -> int | None:
    """Length of a zero-filled constant expression, else None."""
    if isinstance(e, ast.Call) and norm(e.func) in ("bytearray", "bytes") and len(e.args) == 1:
        v = ctx.fold(e.args[0], fi.module)
        return v if isinstance(v, int) else None
    v = ctx.fold(e, fi.module)
    if isinstance(v, (bytes, bytearray)) and not any(v):
        return len(v)
    return None


def rule_nonce_consumed(ctx: Ctx, rep: Report) -> None:
    """C20.nonce_consumed: musig2.sign zeroes the two secret scalars before any
    refusal or arithmetic; callers hand over their own bytearray."""
    rule = "C20.nonce_consumed"
    fi = ctx.func(f"{MUSIG}.sign")
    p = fi.params()[0]
    g = ctx.cfg(fi)
    scalar = ctx.const(MUSIG, "_SCALAR_SIZE")
    if not isinstance(scalar, int):
        raise AnalysisError("_SCALAR_SIZE does not fold")
    need = 2 * scalar
    stores = []
    for n in g.nodes:
        if n.kind == "stmt" and isinstance(n.ast, ast.Assign):
            for t in n.ast.targets:
                if isinstance(t, ast.Subscript) and isinstance(t.value, ast.Name) and t.value.id == p and isinstance(t.slice, ast.Slice):
                    lo = 0 if t.slice.lower is None else ctx.fold(t.slice.lower, fi.module)
                    hi = ctx.fold(t.slice.upper, fi.module) if t.slice.upper is not None else UNKNOWN
                    z = _zero_const(ctx, fi, n.ast.value)
                    if lo == 0 and isinstance(hi, int) and hi >= need and z is not None and z == hi - lo:
                        stores.append(n)
    rep.ob(rule, "sign:zeroing_store", len(stores) >= 1, fi.where(),
           f"store {norm(stores[0].ast)}" if stores else f"no store of {need} zero octets over {p}[:{need}]")
    if not stores:
        return
    st = stores[0]
    path = g.must_pass([st.id])
    rep.ob(rule, "sign:zeroed_on_every_return", path is None, fi.where(st.ast),
           "the zeroing store dominates every normal return" if path is None else
           "a signature can be returned with the nonce intact: " + " -> ".join(g.describe_path(path)[-4:]))
    # reads of the secret part
    reads = []
    for n in g.nodes:
        if n.ast is None or n.kind in ("entry", "return_exit", "raise_exit"):
            continue
        from sa.cfg import _own_walk
        for sub in _own_walk(n):
            if isinstance(sub, ast.Subscript) and isinstance(sub.ctx, ast.Load) and isinstance(sub.value, ast.Name) and sub.value.id == p:
                lo = 0
                if isinstance(sub.slice, ast.Slice):
                    lo = 0 if sub.slice.lower is None else ctx.fold(sub.slice.lower, fi.module)
                else:
                    lo = ctx.fold(sub.slice, fi.module)
                secret = not (isinstance(lo, int) and lo >= need)
                reads.append((n, sub, secret))
    secret_reads = [(n, s) for n, s, sec in reads if sec]
    rep.ob(rule, "sign:reads_secret", len(secret_reads) >= 2, fi.where(), f"{len(secret_reads)} reads of the secret scalars")
    # no secret read can follow the store
    after = g.reachable(st.id)
    late = [s for n, s in secret_reads if n.id in after and n.id != st.id]
    rep.ob(rule, "sign:no_read_after_zeroing", not late, fi.where(), "no read of the scalars after they are zeroed" if not late
           else f"read after zeroing: {norm(late[0])}")
    # between the first read and the store nothing but the reads: no raise, no call that can refuse
    first = min((n for n, _ in secret_reads), key=lambda n: n.line, default=None)
    ok = first is not None
    why = "reads are immediately followed by the zeroing"
    if first is not None:
        # every node on some path first -> store (excluding both) must be a plain read assignment
        fwd = g.reachable(first.id, avoid=[st.id])
        between = [i for i in fwd if i != first.id and st.id in g.reachable(i)]
        for i in between:
            nd = g.nodes[i]
            simple = nd.kind == "stmt" and isinstance(nd.ast, ast.Assign) and all(
                norm(c.func) == "int.from_bytes" for c in ast.walk(nd.ast) if isinstance(c, ast.Call))
            if not simple:
                ok = False
                why = f"between the reads and the zeroing: {norm(nd.ast)[:60] if nd.ast is not None else nd.kind}"
        # and the store is not inside a conditional: reached on every path from the first read that does not raise
        if g.path_avoiding([g.exit_return], [st.id], start=first.id) is not None:
            ok = False
            why = "a return is reachable from the reads without the zeroing"
    rep.ob(rule, "sign:zeroed_before_any_refusal", ok, fi.where(), why)
    # the refusals on the scalars come after the store (so a refused nonce is consumed too)
    refs = [n for t, pol, n in ctx.refusals(fi) if any(x in norm(t) for x in ("k_1", "k_2"))]
    rep.ob(rule, "sign:range_refusals_after_zeroing", bool(refs) and all(n.id in after for n in refs), fi.where(),
           f"{len(refs)} range refusals, all after the zeroing")
    # callers pass their own bytearray
    for cf, call in ctx.callers(f"{MUSIG}.sign"):
        a = call.args[0] if call.args else None
        ok = isinstance(a, ast.Name)
        detail = "passes its own object"
        if ok:
            if a.id in cf.params():
                detail = f"passes its parameter `{a.id}` itself"
                # the parameter is not rebound to a copy before the call
                rebound = [n for n in own_nodes(cf.node) if isinstance(n, ast.Assign) and any(isinstance(t, ast.Name) and t.id == a.id for t in n.targets)]
                if rebound:
                    ok = False
                    detail = f"`{a.id}` is rebound before the call: {norm(rebound[0])[:60]}"
            else:
                defs = [n for n in own_nodes(cf.node) if isinstance(n, ast.Assign) and any(isinstance(t, ast.Name) and t.id == a.id for t in n.targets)]
                ok = len(defs) == 1 and isinstance(defs[0].value, ast.Call) and norm(defs[0].value.func) == "bytearray"
                detail = "a bytearray built here, used once" if ok else "not a bytearray the caller owns"
        else:
            detail = f"passes {norm(a) if a is not None else '?'}: a copy, so the caller's nonce is never zeroed"
        rep.ob(rule, f"caller:{cf.qualname}", ok, cf.where(call), detail)
    # the generator hands out a mutable buffer
    for q in (f"{MUSIG}.nonce_gen_", f"{MUSIG}.nonce_gen"):
        if ctx.prog.has_func(q):
            r = ctx.func(q).node.returns
            rep.ob(rule, f"{q}:returns_bytearray", r is not None and "bytearray" in norm(r), ctx.func(q).where(), f"returns {norm(r) if r is not None else None}")
    rebound = [n for n in own_nodes(fi.node) if isinstance(n, (ast.Assign, ast.AnnAssign, ast.AugAssign)) and any(isinstance(t, ast.Name) and t.id == p for t in (n.targets if isinstance(n, ast.Assign) else [n.target]))]
    rep.ob(rule, "sign:param_never_rebound", not rebound, fi.where(rebound[0] if rebound else None),
           "the caller's buffer is the one read and zeroed" if not rebound else f"`{norm(rebound[0])[:70]}` rebinds the parameter: what is zeroed afterwards is a copy, the caller's nonce survives")
    ann = fi.node.args.args[0].annotation
    rep.ob(rule, "sign:param_is_bytearray", ann is not None and norm(ann) == "bytearray", fi.where(), f"sec_nonce: {norm(ann) if ann is not None else None}")
    rep.floor(rule, 9)


# ---------------------------------------------------------------------------
SIGN_NAMES = {"sign", "sign_", "sign_recoverable_", "sign_custom", "_sign_", "_delegated_sign_", "_libsecp256k1_sign_", "sign_psbt", "sign_message"}
SIGNER_CLASSES = [
    # class, flag, checker method (or None for inline), exempt public methods with reason
    ("btclib.ecc.dsa.Signer", "_wiped", None, {"wipe": "the transition itself"}),
    ("btclib.ecc.ssa.Signer", "_wiped", None, {"wipe": "the transition itself"}),
    ("btclib.psbt_signer.SoftwareSigner", "_closed", "_assert_open", {"close": "the transition itself"}),
    ("btclib.hwi.HwiSigner", "_closed", None, {"close": "the transition itself"}),
]
# per class: private helpers that reach the secret / the device
SECRET_HELPERS = {"_at", "_prv_key", "_hwi", "_answer"}


def _flag_refusal_nodes(ctx: Ctx, m: FuncInfo, flag: str, checker: str | None) -> list[int]:
    g = ctx.cfg(m)
    out = []
    for t, pol, n in ctx.refusals(m):
        if pol and norm(t) == f"self.{flag}":
            out.append(n.id)
    if checker:
        for c in ctx.calls_to(m, checker, last=True):
            if isinstance(c.func, ast.Attribute) and norm(c.func.value) == "self" and ctx.unconditional(g, c):
                out += g.nodes_containing(c)
    return out


def rule_flag_checked(ctx: Ctx, rep: Report) -> None:
    """C20.flag_checked: every public method of a signer class that can reach
    a signing primitive (or a private key) refuses on the terminal flag first."""
    rule = "C20.flag_checked"
    for cls_q, flag, checker, exempt in SIGNER_CLASSES:
        ci = ctx.cls(cls_q)
        checked: dict[str, bool] = {}
        sinky: dict[str, list[ast.Call]] = {}
        for name, m in ci.methods.items():
            calls = []
            for c in own_nodes(m.node):
                if isinstance(c, ast.Call):
                    nm = call_name(c)
                    is_self = isinstance(c.func, ast.Attribute) and norm(c.func.value) == "self"
                    if (nm in SIGN_NAMES and not (is_self and nm == name)) or (is_self and nm in SECRET_HELPERS):
                        calls.append(c)
            sinky[name] = calls
        for name, m in sorted(ci.methods.items()):
            if name.startswith("_") or name in exempt:
                continue
            if any(d in ("property", "staticmethod", "classmethod") or d.endswith(".setter") for d in m.decorators()):
                continue
            if not sinky[name]:
                continue
            g = ctx.cfg(m)
            through = _flag_refusal_nodes(ctx, m, flag, checker)

            def sib_checked(sib: FuncInfo, depth: int = 3) -> bool:
                sg = ctx.cfg(sib)
                st = _flag_refusal_nodes(ctx, sib, flag, checker)
                if st and sg.must_pass(st) is None:
                    return True
                if depth == 0:
                    return False
                inner = sinky.get(sib.name, [])
                if not inner:
                    return False
                for c2 in inner:
                    s2 = ci.methods.get(call_name(c2)) if isinstance(c2.func, ast.Attribute) and norm(c2.func.value) == "self" else None
                    if s2 is None or s2 is sib or not sib_checked(s2, depth - 1):
                        # is this inner call itself behind the sibling's own refusal?
                        tg = sg.nodes_containing(c2)
                        if not st or sg.path_avoiding(tg, st) is not None:
                            return False
                return True

            # calls that only go through an already-checked sibling are fine
            unchecked_targets = []
            for c in sinky[name]:
                is_self = isinstance(c.func, ast.Attribute) and norm(c.func.value) == "self"
                sib = ci.methods.get(call_name(c)) if is_self else None
                if sib is not None and sib is not m and sib_checked(sib):
                    continue
                unchecked_targets += g.nodes_containing(c)
            path = g.path_avoiding(unchecked_targets, through) if unchecked_targets else None
            rep.ob(rule, f"{cls_q}.{name}", path is None, m.where(),
                   f"refuses on self.{flag} before {sorted({call_name(c) for c in sinky[name]})}" if path is None else
                   f"reaches {sorted({call_name(c) for c in sinky[name]})} without the {flag} check: a {flag.strip('_')} signer still signs")
    rep.floor(rule, 8)


def rule_flag_monotone(ctx: Ctx, rep: Report) -> None:
    """C20.flag_monotone: outside constructors the flag is only ever set; wipe
    drops the key; __exit__ wipes."""
    rule = "C20.flag_monotone"
    for cls_q, flag, _checker, _ex in SIGNER_CLASSES:
        ci = ctx.cls(cls_q)
        for name, m in sorted(ci.methods.items()):
            for n in own_nodes(m.node):
                if isinstance(n, ast.Assign):
                    for t in n.targets:
                        if isinstance(t, ast.Attribute) and t.attr == flag:
                            v = ctx.fold(n.value, m.module)
                            ctor = name in ("__init__", "from_accounts", "__new__")
                            ok = (v is True) or (ctor and v is False)
                            rep.ob(rule, f"{cls_q}.{name}:{flag}={norm(n.value)}", ok, m.where(n),
                                   "constructor initialises it" if ctor else "only ever set" if ok else "the terminal flag is cleared: a dead signer comes back")
        # stores from outside the class
    for fi in ctx.prog.functions.values():
        if fi.cls is not None and fi.cls.qualname in {c for c, *_ in SIGNER_CLASSES}:
            continue
        for n in own_nodes(fi.node):
            if isinstance(n, ast.Attribute) and isinstance(n.ctx, ast.Store) and n.attr in ("_wiped", "_closed") and norm(n.value) != "self":
                rep.ob(rule, f"outside:{fi.qualname}:{n.attr}", False, fi.where(n), "the flag is written from outside its class")
    for cls_q in ("btclib.ecc.dsa.Signer", "btclib.ecc.ssa.Signer"):
        ci = ctx.cls(cls_q)
        w = ci.methods.get("wipe")
        if w is None:
            raise AnalysisError(f"{cls_q}.wipe vanished")
        zero = [n for n in own_nodes(w.node) if isinstance(n, ast.Assign) and any(norm(t) == "self._q" for t in n.targets) and ctx.fold(n.value, w.module) == 0]
        sets = [n for n in own_nodes(w.node) if isinstance(n, ast.Assign) and any(norm(t) == "self._wiped" for t in n.targets)]
        rep.ob(rule, f"{cls_q}.wipe:drops_scalar", bool(zero), w.where(), "self._q = 0")
        rep.ob(rule, f"{cls_q}.wipe:sets_flag", bool(sets), w.where(), "self._wiped = True")
        ex = ci.methods.get("__exit__")
        ok = ex is not None and any(isinstance(c.func, ast.Attribute) and norm(c.func) == "self.wipe" for c in own_nodes(ex.node) if isinstance(c, ast.Call))
        rep.ob(rule, f"{cls_q}.__exit__:wipes", ok, (ex or w).where(), "__exit__ calls self.wipe()")
    # the delegated buffers are zeroed / dropped
    dw = ctx.func("btclib.ecc.dsa.Signer.wipe")
    zb = [n for n in own_nodes(dw.node) if isinstance(n, ast.Assign) and any(isinstance(t, ast.Subscript) and "buffer" in norm(t) for t in n.targets)]
    rep.ob(rule, "dsa.Signer.wipe:zeroes_buffer", bool(zb) and _zero_const(ctx, dw, zb[0].value) == 32, dw.where(), "ffi.buffer(...)[:] = bytes(32)")
    sw = ctx.func("btclib.ecc.ssa.Signer.wipe")
    cw = [c for c in own_nodes(sw.node) if isinstance(c, ast.Call) and call_name(c) == "wipe" and "_signer" in norm(c.func)]
    rep.ob(rule, "ssa.Signer.wipe:wipes_keypair", bool(cw), sw.where(), "the bindings signer's own wipe is called")
    rep.floor(rule, 12)


# ---------------------------------------------------------------------------
def rule_wallet(ctx: Ctx, rep: Report) -> None:
    """C20.wallet: one writer per counter; the counter update depends on its old value."""
    rule = "C20.wallet"
    writers: dict[str, set[str]] = {"_next_index": set(), "_handed_out": set()}
    for fi in ctx.prog.functions.values():
        if not fi.module.name.startswith("btclib.wallet") and fi.module.name not in ("btclib.psbt_signer", "btclib.tx_builder", "btclib.core_import"):
            continue
        for n in own_nodes(fi.node):
            tg = []
            if isinstance(n, ast.Assign):
                tg = n.targets
            elif isinstance(n, (ast.AugAssign, ast.AnnAssign)):
                tg = [n.target]
            elif isinstance(n, ast.Delete):
                tg = n.targets
            for t in tg:
                base = t.value if isinstance(t, ast.Subscript) else t
                if isinstance(base, ast.Attribute) and base.attr in writers:
                    writers[base.attr].add(fi.qualname)
            if isinstance(n, ast.Call) and isinstance(n.func, ast.Attribute) and n.func.attr in ("pop", "clear", "update", "setdefault", "popitem") \
                    and isinstance(n.func.value, ast.Attribute) and n.func.value.attr in writers:
                writers[n.func.value.attr].add(fi.qualname)
    W = "btclib.wallet.wallet"
    rep.ob(rule, "_next_index:writers", writers["_next_index"] == {f"{W}.RangedWallet.__init__", f"{W}.RangedWallet.address"},
           "btclib/wallet/wallet.py:1", f"writers {sorted(writers['_next_index'])}")
    rep.ob(rule, "_handed_out:writers", writers["_handed_out"] == {f"{W}.Wallet.__init__", f"{W}.Wallet._record"},
           "btclib/wallet/wallet.py:1", f"writers {sorted(writers['_handed_out'])}")
    addr = ctx.func(f"{W}.RangedWallet.address")
    stores = [n for n in own_nodes(addr.node) if isinstance(n, ast.Assign) and any(isinstance(t, ast.Subscript) and norm(t.value) == "self._next_index" for t in n.targets)]
    g = ctx.cfg(addr)
    for st in stores:
        reads_old = any(isinstance(x, (ast.Subscript, ast.Call)) and "self._next_index" in norm(x) for x in ast.walk(st.value))
        # or the store is control-dependent on a comparison with the old value
        facts = g.facts_at_ast(st.value)
        guarded = any("_next_index" in t for t, _ in facts)
        rep.ob(rule, "address:depends_on_old", reads_old or guarded, addr.where(st),
               f"{norm(st)[:80]}" if reads_old or guarded else f"`{norm(st)[:60]}` ignores the previous counter: asking for a low index moves the counter back")
        # the new value grows with index + 1
        rep.ob(rule, "address:records_index_plus_one", "index + 1" in norm(st.value), addr.where(st), norm(st.value))
    if not stores:
        rep.ob(rule, "address:depends_on_old", False, addr.where(), "no store into the counter")
    # next_address goes through address (so it records) and reads the counter
    na = ctx.func(f"{W}.RangedWallet.next_address")
    cs = [c for c in own_nodes(na.node) if isinstance(c, ast.Call) and norm(c.func) == "self.address"]
    ok = bool(cs) and any("self._next_index" in norm(a) for c in cs for a in c.args)
    rep.ob(rule, "next_address:through_address", ok, na.where(), "self.address(branch, self._next_index.get(branch, 0))")
    # address records on every normal return
    rec = [c for c in own_nodes(addr.node) if isinstance(c, ast.Call) and norm(c.func) == "self._record"]
    path = g.must_pass([i for c in rec for i in g.nodes_containing(c)]) if rec else [0]
    rep.ob(rule, "address:records", path is None, addr.where(), "every handed-out address passes through _record")
    st_ids = [i for st in stores for i in g.nodes_containing(st)]
    # `if index + 1 > old: store` updates the counter on every return as well: the comparison with the old value is the update
    st_ids += [n.id for n in g.nodes if n.kind == "test" and "self._next_index" in norm(n.ast) and any(
        i in g.reachable(n.id) for st in stores for i in g.nodes_containing(st))]
    rep.ob(rule, "address:counter_on_every_return", bool(st_ids) and g.must_pass(st_ids) is None, addr.where(), "the counter update is on every normal return")
    recf = ctx.func(f"{W}.Wallet._record")
    keyed = [n for n in own_nodes(recf.node) if isinstance(n, ast.Assign) and any(isinstance(t, ast.Subscript) and norm(t.value) == "self._handed_out" and norm(t.slice).endswith(".address") for t in n.targets)]
    rep.ob(rule, "_record:keyed_by_address", bool(keyed), recf.where(), "the ledger is keyed by the address string (recorded once)")
    ad = ctx.func(f"{W}.Wallet.addresses")
    rets = [n for n in own_nodes(ad.node) if isinstance(n, ast.Return)]
    rep.ob(rule, "addresses:copy", bool(rets) and all(isinstance(r.value, ast.Call) and norm(r.value.func) in ("tuple", "list", "sorted") for r in rets),
           ad.where(), "the ledger itself does not escape")
    # no subclass overrides the recording methods
    for ci in ctx.prog.classes.values():
        if ci.module.name.startswith("btclib.wallet") and ci.qualname not in (f"{W}.Wallet", f"{W}.RangedWallet"):
            for m in ("address", "next_address", "_record"):
                if m in ci.methods:
                    sub = ci.methods[m]
                    calls_super = any(isinstance(c.func, ast.Attribute) and norm(c.func.value) == "super()" for c in own_nodes(sub.node) if isinstance(c, ast.Call))
                    rep.ob(rule, f"override:{ci.qualname}.{m}", calls_super, sub.where(), "override goes through super()" if calls_super else "a subclass replaces the recording method")


# ---------------------------------------------------------------------------
def rule_wordlists_lock(ctx: Ctx, rep: Report) -> None:
    """C20.wordlists_lock: the shared tables are written only under the lock, the length last."""
    rule = "C20.wordlists_lock"
    mi = ctx.module("btclib.mnemonic.mnemonic")
    FIELDS = {"_index", "_wordlist", "_language_length", "languages", "language_files"}
    n_st = 0
    last_line: dict[str, int] = {}
    for ci in mi.classes.values():
        if "_lock" not in {a for m in ci.methods.values() for x in own_nodes(m.node) for a in ([x.attr] if isinstance(x, ast.Attribute) else [])}:
            continue
        for name, m in ci.methods.items():
            if name == "__init__":
                continue
            for n in own_nodes(m.node):
                field = None
                if isinstance(n, ast.Assign):
                    for t in n.targets:
                        base = t.value if isinstance(t, ast.Subscript) else t
                        if isinstance(base, ast.Attribute) and norm(base.value) == "self" and base.attr in FIELDS:
                            field = base.attr
                elif isinstance(n, ast.Call) and isinstance(n.func, ast.Attribute) and n.func.attr in ("append", "update", "pop", "clear", "setdefault", "extend", "remove") \
                        and isinstance(n.func.value, ast.Attribute) and norm(n.func.value.value) == "self" and n.func.value.attr in FIELDS:
                    field = n.func.value.attr
                if field is None:
                    continue
                n_st += 1
                locked = False
                p = parent(n)
                while p is not None and not isinstance(p, ast.FunctionDef):
                    if isinstance(p, ast.With) and any(norm(i.context_expr) == "self._lock" for i in p.items):
                        locked = True
                    p = parent(p)
                rep.ob(rule, f"{ci.name}.{name}:{field}", locked, m.where(n), "inside `with self._lock`" if locked else "shared table written outside the lock")
                last_line[field] = max(last_line.get(field, 0), n.lineno)
    if n_st < 4:
        raise AnalysisError("wordlist table stores not found")
    ok = last_line.get("_language_length", 0) > max(last_line.get("_index", 0), last_line.get("_wordlist", 0))
    rep.ob(rule, "length_stored_last", ok, f"{mi.relpath}:1", "the length readers test as 'loaded' is stored after the tables it guards")


# ---------------------------------------------------------------------------
MUT_METHODS = {"append", "extend", "insert", "pop", "remove", "clear", "sort", "reverse", "update", "setdefault", "popitem", "add", "discard"}
IMMUTABLE_RETURNS = ("int", "bytes", "str", "bool", "Point", "tuple[", "frozenset", "Curve", "float")


def rule_cache_values(ctx: Ctx, rep: Report) -> None:
    """C20.cache_values: memoized functions take hashable immutable keys; a
    mutable memoized result is never mutated or handed out by its callers."""
    rule = "C20.cache_values"
    n = 0
    for fi in sorted(ctx.prog.functions.values(), key=lambda f: f.qualname):
        decos = fi.decorators()
        if not any(d.split("(")[0].split(".")[-1] in ("lru_cache", "cache") for d in decos):
            continue
        n += 1
        r = fi.node.returns
        rt = norm(r) if r is not None else "?"
        mutable = not rt.startswith(IMMUTABLE_RETURNS)
        # parameters annotated with immutable types
        bad_params = [a.arg for a in fi.node.args.args + fi.node.args.kwonlyargs if a.annotation is not None
                      and any(w in norm(a.annotation) for w in ("list", "dict", "set[", "bytearray", "Sequence", "Mapping"))]
        rep.ob(rule, f"{fi.qualname}:keys", not bad_params, fi.where(), f"parameters hashable/immutable (returns {rt})" if not bad_params else f"mutable-typed cache key(s): {bad_params}")
        if not mutable:
            continue
        for cf, call in ctx.callers(fi.qualname):
            par = parent(call)
            names = set()
            if isinstance(par, ast.Assign):
                names = {t.id for t in par.targets if isinstance(t, ast.Name)}
            elif isinstance(par, ast.IfExp) and isinstance(parent(par), ast.Assign):
                names = {t.id for t in parent(par).targets if isinstance(t, ast.Name)}
            elif isinstance(par, ast.Call) and isinstance(par.func, ast.Attribute) and par.func.attr in ("append",):
                names = set()  # stored in a local list of tables; checked through that name below
                names = {norm(par.func.value)}
            bad = []
            for x in own_nodes(cf.node):
                if isinstance(x, (ast.Subscript, ast.Attribute)) and isinstance(x.ctx, (ast.Store, ast.Del)):
                    root = x.value
                    while isinstance(root, (ast.Subscript, ast.Attribute)):
                        root = root.value
                    if isinstance(root, ast.Name) and root.id in names:
                        # tables.append(cached) then tables[i][j] = ... would be depth >= 2
                        depth = 0
                        y = x
                        while isinstance(y, ast.Subscript):
                            depth += 1
                            y = y.value
                        if isinstance(par, ast.Call) and depth < 2:
                            continue
                        bad.append(norm(x))
                if isinstance(x, ast.Call) and isinstance(x.func, ast.Attribute) and x.func.attr in MUT_METHODS:
                    root = x.func.value
                    direct = isinstance(root, ast.Name) and root.id in names
                    if direct and not (isinstance(par, ast.Call)):
                        bad.append(norm(x)[:50])
                if isinstance(x, ast.Return) and isinstance(x.value, ast.Name) and x.value.id in names and not cf.name.startswith("_"):
                    bad.append(f"return {x.value.id} (escapes through a public function)")
                if isinstance(x, ast.AugAssign) and isinstance(x.target, ast.Name) and x.target.id in names:
                    bad.append(norm(x)[:50])
            rep.ob(rule, f"{fi.qualname}@{cf.qualname}", not bad, cf.where(call),
                   "the memoized table is only read" if not bad else f"memoized {rt} mutated or leaked: {bad[:2]}: every later call answers differently")
    rep.floor(rule, 9)
    # SessionContext memo fields: written only by their two owners
    owners = {"_values": {f"{MUSIG}.session_values"}, "_bindings_ctx": {f"{MUSIG}._bindings_session"}}
    for fi in ctx.prog.functions.values():
        for c in own_nodes(fi.node):
            if isinstance(c, ast.Call) and norm(c.func) == "object.__setattr__" and len(c.args) == 3 and isinstance(c.args[1], ast.Constant) \
                    and c.args[1].value in owners:
                f = c.args[1].value
                ok = fi.qualname in owners[f] or fi.qualname.endswith("SessionContext.__init__") or fi.qualname.endswith("SessionContext.__post_init__")
                rep.ob(rule, f"memo_field:{f}@{fi.qualname}", ok, fi.where(c), "written by its owner" if ok else "a second writer of a memo field")


def rule_memo_keys(ctx: Ctx, rep: Report) -> None:
    """C20.memo_keys: a hand-written module-level memo refuses, inside its miss
    branch, only on what its key determines -- or a hit skips the refusal."""
    rule = "C20.memo_keys"
    n = 0
    for fi in sorted(ctx.prog.functions.values(), key=lambda f: f.qualname):
        mi = fi.module
        locals_ = {x.id for x in own_nodes(fi.node) if isinstance(x, ast.Name) and isinstance(x.ctx, ast.Store)} | set(fi.params())
        for st in own_nodes(fi.node):
            if not (isinstance(st, ast.If) and isinstance(st.test, ast.Compare) and isinstance(st.test.ops[0], ast.NotIn) and isinstance(st.test.comparators[0], ast.Name)):
                continue
            cache = st.test.comparators[0].id
            if cache not in mi.assigns or cache in locals_:
                continue
            stores = [x for s in st.body for x in ast.walk(s) if isinstance(x, ast.Subscript) and isinstance(x.ctx, ast.Store) and norm(x.value) == cache]
            if not stores:
                continue
            n += 1
            kt = norm(st.test.left)
            rep.ob(rule, f"{fi.qualname}:{cache}:same_key", all(norm(x.slice) == kt for x in stores), fi.where(st), f"tested and stored under the same key `{kt}`")
            params = set(fi.params())
            bad = []
            for s in st.body:
                for r in ast.walk(s):
                    if isinstance(r, ast.If) and any(isinstance(x, ast.Raise) for b in r.body for x in ast.walk(b)):
                        for e in ast.walk(r.test):
                            if isinstance(e, (ast.Attribute, ast.Name)) and not isinstance(parent(e), ast.Attribute):
                                t = norm(e)
                                root = t.split(".")[0]
                                if root in params and not (t == kt or t.startswith(kt + ".") or t.startswith(kt + "[")):
                                    bad.append(t)
            rep.ob(rule, f"{fi.qualname}:{cache}:refusals_determined_by_key", not bad, fi.where(st),
                   f"every refusal in the miss branch reads only `{kt}`" if not bad else
                   f"the miss branch refuses on {sorted(set(bad))}, which the key `{kt}` does not determine: a cache hit skips the refusal and answers for an input it would have refused")
    if n < 1:
        raise AnalysisError("no module-level memo found (ellswift._constants expected)")


def rule_backend_flag(ctx: Ctx, rep: Report) -> None:
    """C20.backend_flag: the backend flag has one writer and nobody keeps its answer (shared with C04)."""
    from rules.C04 import rule_flag_owner

    before = len(rep.obs)
    rule_flag_owner(ctx, rep)
    for o in rep.obs[before:]:
        o.rule = "C20.backend_flag"


def rule_no_inplace_growth_(ctx: Ctx, rep: Report) -> None:
    """C20.no_inplace_growth: a local that starts as a parameter (or a field of one) is never grown with `+=` (see sigcommon.rule_no_inplace_growth)."""
    from rules.sigcommon import rule_no_inplace_growth
    rule_no_inplace_growth(ctx, rep, "C20.no_inplace_growth", ('btclib.',), 1)


def rule_signer_arm(ctx: Ctx, rep: Report) -> None:
    """C20.signer_arm: "answers do not depend on ... the backend having been switched
    back and forth": an object that laid its state out for one arm at construction
    (a key in the bindings' buffer, or an int) never asks the dispatch predicate
    again -- asked later, a switch in between selects an arm the state was not
    built for (C04's token rule, for every token class)."""
    from rules.C04 import token_reask
    token_reask(ctx, rep, "C20.signer_arm", None)
    rep.floor("C20.signer_arm", 4)


def rule_no_stale_cache_(ctx: Ctx, rep: Report) -> None:
    """C20.no_stale_cache: a memoized mutable answer is never handed out or edited; a cached_property lives only in a frozen dataclass (see sigcommon.rule_no_stale_cache)."""
    from rules.sigcommon import rule_no_stale_cache
    rule_no_stale_cache(ctx, rep, "C20.no_stale_cache", ('btclib.',), 7)


def rule_memo_key_complete_(ctx: Ctx, rep: Report) -> None:
    """C20.memo_key_complete: a value computed once and kept is reset inside every loop whose variable it reads (see sigcommon.rule_memo_key_complete)."""
    from rules.sigcommon import rule_memo_key_complete
    rule_memo_key_complete(ctx, rep, "C20.memo_key_complete", ('btclib.',))


def rule_cache_key_complete(ctx: Ctx, rep: Report) -> None:
    """C20.cache_key_complete: every curve-keyed memo (`lru_cache` on a function
    taking a curve, `_libsecp256k1_serves`'s comparison with secp256k1) is stored
    under `Curve.__eq__` / `__hash__`, i.e. under `_eq_key`: a key that leaves a
    parameter out -- or takes a part of one, the x of G without its y -- answers
    one curve with what was cached for another, whichever was asked first
    (C01.eq_key_complete, reported here for the history clause)."""
    from rules import C01
    tmp = Report("C01", rep.tier)
    tmp.quiet = True
    C01.rule_eq_key_complete(ctx, tmp)
    for o in tmp.obs:
        rep.ob("C20.cache_key_complete", o.instance, o.held, o.site, o.detail)
    rep.floor("C20.cache_key_complete", 2)


def rule_view_hands_out_copies(ctx: Ctx, rep: Report) -> None:
    """C20.view_hands_out_copies: PsbtView keeps the transaction and the spent
    outputs it has built once (`_transaction`, `_spent`: methods that store into
    `self` and answer the stored object) and computes every later sig_hash from
    them. What a public member answers from such a kept object is a deep copy
    of it: a shallow one (`Tx(tx.version, ..., tx.vin, tx.vout)`) shares the
    TxIn / TxOut objects, and `view.tx.vin[0].sequence = 0` then changes every
    later answer of the view."""
    rule = "C20.view_hands_out_copies"
    ci = ctx.cls("btclib.psbt.psbt_view.PsbtView")
    keepers = set()
    for name, m in ci.methods.items():
        stored = {t.attr for a in own_nodes(m.node) if isinstance(a, ast.Assign) for t in a.targets if isinstance(t, ast.Attribute) and isinstance(t.value, ast.Name) and t.value.id == "self"}
        if name != "__init__" and any(isinstance(r, ast.Return) and isinstance(r.value, ast.Attribute) and isinstance(r.value.value, ast.Name) and r.value.value.id == "self" and r.value.attr in stored
                                      for r in own_nodes(m.node)):
            keepers.add(name)
    rep.ob(rule, "PsbtView:keepers", len(keepers) >= 2, ci.where() if hasattr(ci, "where") else "btclib/psbt/psbt_view.py:1", f"methods answering an object kept in self: {sorted(keepers)}")
    from rules.sigcommon import MUTABLE_CONTAINERS, _annotation_names
    n = 0
    for name, m in sorted(ci.methods.items()):
        if name.startswith("_"):
            continue
        uses = [c for c in own_nodes(m.node) if isinstance(c, ast.Call) and isinstance(c.func, ast.Attribute) and isinstance(c.func.value, ast.Name) and c.func.value.id == "self" and c.func.attr in keepers]
        if not uses:
            continue
        names = _annotation_names(ctx, m.node.returns)
        mutable = bool(names & MUTABLE_CONTAINERS) or any(nm in ctx.prog.classes or any(q.endswith("." + nm) for q in ctx.prog.classes) for nm in names - {"PrecomputedTxData"})
        if not mutable:
            continue
        for r in own_nodes(m.node):
            if isinstance(r, ast.Return) and r.value is not None:
                n += 1
                ok = isinstance(r.value, ast.Call) and call_name(r.value) == "deepcopy"
                rep.ob(rule, f"PsbtView.{name}", ok, m.where(r), "answers a deep copy of what the view keeps" if ok else
                       f"`{norm(r)[:80]}` hands out (parts of) the object the view keeps and computes from: a caller editing the answer changes the view's later answers")
    rep.floor(rule, 3)


_DECIMAL_ROUNDERS = {"quantize", "normalize", "to_integral_value", "to_integral", "to_integral_exact", "scaleb", "sqrt", "exp", "ln", "log10", "fma", "remainder_near"}


def rule_decimal_context_pinned(ctx: Ctx, rep: Report) -> None:
    """C20.decimal_context_pinned: Decimal arithmetic rounds to the *thread's* context
    -- a precision, a rounding mode, traps that any caller may have changed
    before -- while construction, comparison, `as_integer_ratio` and `int()`
    read none. Every operation of the library that reads it (+ - * / // % **
    on a Decimal, unary + and -, quantize/normalize/to_integral_value/...)
    runs inside a `with localcontext(...)` whose precision the library sets:
    a module `Context(prec=...)` constant, or `ctx.prec = ...` in the block.
    A bare `localcontext()` is a copy of the caller's and pins nothing."""
    rule = "C20.decimal_context_pinned"
    n = 0
    for mname, mi in sorted(ctx.prog.modules.items()):
        imports_decimal = any(isinstance(s, ast.ImportFrom) and s.module == "decimal" or isinstance(s, ast.Import) and any(a.name == "decimal" for a in s.names) for s in mi.tree.body)
        if not imports_decimal:
            continue
        consts = {s.targets[0].id for s in mi.tree.body if isinstance(s, ast.Assign) and isinstance(s.targets[0], ast.Name) and isinstance(s.value, ast.Call) and call_name(s.value) == "Decimal"}
        pinned_ctx = {s.targets[0].id for s in mi.tree.body if isinstance(s, ast.Assign) and isinstance(s.targets[0], ast.Name) and isinstance(s.value, ast.Call) and call_name(s.value) == "Context" and any(k.arg == "prec" for k in s.value.keywords)}
        for q, fi in sorted(ctx.prog.functions.items()):
            if fi.module is not mi:
                continue
            if fi.node.name.startswith("_") and not fi.node.name.startswith("__") and not ctx.callers(q):
                continue  # a private helper nothing calls answers nobody
            dec = set(consts)
            a = fi.node.args
            for p_ in a.posonlyargs + a.args + a.kwonlyargs:
                if p_.annotation is not None and norm(p_.annotation) in ("Decimal", "decimal.Decimal"):
                    dec.add(p_.arg)
            for s in own_nodes(fi.node):
                if isinstance(s, ast.Assign) and len(s.targets) == 1 and isinstance(s.targets[0], ast.Name) and isinstance(s.value, ast.Call):
                    tgt = ctx.resolve_call(fi, s.value)
                    callee = ctx.prog.functions.get(tgt) if tgt else None
                    if call_name(s.value) == "Decimal" or (callee is not None and callee.node.returns is not None and norm(callee.node.returns) == "Decimal"):
                        dec.add(s.targets[0].id)

            def is_dec(e: ast.AST) -> bool:
                return (isinstance(e, ast.Name) and e.id in dec) or (isinstance(e, ast.Call) and call_name(e) == "Decimal") or \
                    (isinstance(e, ast.BinOp) and (is_dec(e.left) or is_dec(e.right)))

            def pinned(node: ast.AST) -> bool:
                p_ = parent(node)
                while p_ is not None and p_ is not fi.node:
                    if isinstance(p_, ast.With):
                        for item in p_.items:
                            c = item.context_expr
                            if isinstance(c, ast.Call) and call_name(c) == "localcontext":
                                if c.args and isinstance(c.args[0], ast.Name) and c.args[0].id in pinned_ctx:
                                    return True
                                v = item.optional_vars
                                if isinstance(v, ast.Name) and any(isinstance(t, ast.Assign) and norm(t.targets[0]) == f"{v.id}.prec" and t.lineno < node.lineno for b in p_.body for t in ast.walk(b)):
                                    return True
                    p_ = parent(p_)
                return False

            for e in sorted((e for e in own_nodes(fi.node) if isinstance(e, (ast.BinOp, ast.UnaryOp, ast.Call, ast.AugAssign))), key=lambda e: (e.lineno, e.col_offset)):
                reads = False
                if isinstance(e, ast.BinOp) and isinstance(e.op, (ast.Add, ast.Sub, ast.Mult, ast.Div, ast.FloorDiv, ast.Mod, ast.Pow)):
                    reads = (is_dec(e.left) or is_dec(e.right)) and not isinstance(parent(e), ast.BinOp)
                elif isinstance(e, ast.AugAssign):
                    reads = is_dec(e.target) or is_dec(e.value)
                elif isinstance(e, ast.UnaryOp) and isinstance(e.op, (ast.USub, ast.UAdd)):
                    reads = is_dec(e.operand)
                elif isinstance(e, ast.Call) and isinstance(e.func, ast.Attribute) and e.func.attr in _DECIMAL_ROUNDERS:
                    # Decimal.normalize() takes no argument, unicodedata.normalize(form, text) two
                    reads = is_dec(e.func.value) or (e.func.attr != "normalize" and e.func.attr not in ("sqrt", "exp", "ln", "log10")) or (e.func.attr == "normalize" and not e.args)
                if not reads:
                    continue
                n += 1
                ok = pinned(e)
                rep.ob(rule, f"{q}:{norm(e)[:40]}", ok, fi.where(e), "under a context whose precision the library sets" if ok else
                       f"`{norm(e)}` rounds to whatever Decimal context the calling thread carries: under `getcontext().prec = 5` the answer is another number, or an InvalidOperation")
    rep.floor(rule, 4)


def rule_tweak_arms_agree(ctx: Ctx, rep: Report) -> None:
    """C20.tweak_arms_agree: the taproot tweak of an internal key has two arms, the
    x-only binding and the Python arithmetic, and BIP341's lift takes the
    even-y point of the key's x whatever prefix the key came with. The
    binding does that by itself; on the Python arm the point handed to
    `add_var` has its y chosen by parity (`y if y % 2 == 0 else p - y`), or
    comes from a helper that lifts. `pub_key.point` as it stands is the odd
    point for an 03 key -- another output key, with the bindings off only."""
    rule = "C20.tweak_arms_agree"
    fi = ctx.func("btclib.script.taproot._tweaked_pubkey")
    local = {a.targets[0].id: a.value for a in own_nodes(fi.node) if isinstance(a, ast.Assign) and len(a.targets) == 1 and isinstance(a.targets[0], ast.Name)}
    adds = [c for c in own_nodes(fi.node) if isinstance(c, ast.Call) and isinstance(c.func, ast.Attribute) and c.func.attr in ("add_var", "add", "_add_aff", "_add_jac") and c.args]
    if len(adds) != 1:
        rep.unknown(rule, "_tweaked_pubkey", fi.where(), f"{len(adds)} point additions on the Python arm")
        return

    def res(e: ast.AST, d: int = 0) -> ast.AST:
        while isinstance(e, ast.Name) and e.id in local and d < 5:
            e, d = local[e.id], d + 1
        return e

    def parity_choice(e: ast.AST) -> bool:
        e = res(e)
        return isinstance(e, ast.IfExp) and "% 2" in norm(e.test) and any(isinstance(n, ast.BinOp) and isinstance(n.op, ast.Sub) and norm(n.left).endswith(".p") for n in ast.walk(e))

    p0 = res(adds[0].args[0])
    from sa import values as VX
    ok = VX.of(fi).anywhere("($$x, secp256k1.p - $$y if $$y % 2 else $$y)") or \
        (isinstance(p0, ast.Call) and any(w in call_name(p0).lower() for w in ("lift", "even")))
    rep.ob(rule, "_tweaked_pubkey:python_arm_lifts", ok, fi.where(adds[0]), "the point added to t*G is the even-y lift" if ok else
           f"`{norm(adds[0])}` adds t*G to `{norm(adds[0].args[0])}` as it stands: for an 03 key that is the odd-y point, and the output key differs from the one the x-only binding computes")
    rep.floor(rule, 1)


def rule_verdict_on_both_arms(ctx: Ctx, rep: Report) -> None:
    """C20.verdict_on_both_arms: the interpreter's `dsa_verify` answers False for a key
    or a signature that does not parse, on whichever arithmetic runs: every
    call that can refuse the octets -- the binding's verify, `point_from_octets`
    -- sits inside a `try` whose ValueError handler returns
    False. The Python arm outside it turns a failed CHECKSIG into an
    exception out of the script engine, with the bindings off only."""
    rule = "C20.verdict_on_both_arms"
    fi = ctx.func("btclib.script.engine.script.dsa_verify")
    n = 0
    for c in sorted((c for c in own_nodes(fi.node) if isinstance(c, ast.Call)), key=lambda c: (c.lineno, c.col_offset)):
        nm = call_name(c)
        if nm in ("bool", "_assert_bytes_arguments", "_libsecp256k1_serves", "verify_"):
            continue  # dsa.verify_ answers False by itself (C02.bool)
        covered = False
        p_ = parent(c)
        child = c
        while p_ is not None and p_ is not fi.node:
            if isinstance(p_, ast.Try) and child in p_.body:
                for h in p_.handlers:
                    names = [norm(t) for t in (h.type.elts if isinstance(h.type, ast.Tuple) else [h.type])] if h.type is not None else ["BaseException"]
                    if any(x in ("ValueError", "Exception", "BaseException") for x in names) and any(isinstance(s, ast.Return) and isinstance(s.value, ast.Constant) and s.value.value is False for s in h.body):
                        covered = True
            child, p_ = p_, parent(p_)
        n += 1
        rep.ob(rule, f"dsa_verify:{nm}", covered, fi.where(c), "a refusal is the verdict False" if covered else
               f"`{norm(c)}` is outside the try that turns a refusal into False: unparsable octets are an exception on this arm and a failed verification on the other")
    rep.floor(rule, 2)


def rule_no_mutable_defaults_(ctx: Ctx, rep: Report) -> None:
    """C20.no_mutable_defaults: no function of the package has a mutable default
    argument (sigcommon.no_mutable_defaults): a shared `{}` that a parser
    files private keys into makes a watch-only wallet able to sign after an
    unrelated call."""
    from rules import sigcommon
    sigcommon.rule_no_mutable_defaults(ctx, rep, "C20.no_mutable_defaults", ("btclib.",))


def rule_gacc_on_the_python_arm(ctx: Ctx, rep: Report) -> None:
    """C20.gacc_on_the_python_arm: MuSig2's partial signature verification has a
    delegated arm and a Python one; the Python one multiplies by the
    accumulated negations `gacc` on both parities of the aggregate key
    (C16.gacc, reported here) -- else a valid partial signature is True with
    the bindings, False without, and True again."""
    from rules import C16
    tmp = Report("C16", rep.tier)
    tmp.quiet = True
    C16.rule_gacc(ctx, tmp)
    for o in tmp.obs:
        rep.ob("C20.gacc_on_the_python_arm", o.instance, o.held, o.site, o.detail)
    rep.floor("C20.gacc_on_the_python_arm", 2)


RULES = [
    ("C20.no_mutable_defaults", rule_no_mutable_defaults_),
    ("C20.gacc_on_the_python_arm", rule_gacc_on_the_python_arm),

    ("C20.tweak_arms_agree", rule_tweak_arms_agree),
    ("C20.verdict_on_both_arms", rule_verdict_on_both_arms),

    ("C20.decimal_context_pinned", rule_decimal_context_pinned),

    ("C20.view_hands_out_copies", rule_view_hands_out_copies),
    ("C20.cache_key_complete", rule_cache_key_complete),
    ("C20.memo_key_complete", rule_memo_key_complete_),
    ("C20.no_stale_cache", rule_no_stale_cache_),

    ("C20.signer_arm", rule_signer_arm),
    ("C20.no_inplace_growth", rule_no_inplace_growth_),
    ("C20.nonce_consumed", rule_nonce_consumed),
    ("C20.flag_checked", rule_flag_checked),
    ("C20.flag_monotone", rule_flag_monotone),
    ("C20.wallet", rule_wallet),
    ("C20.wordlists_lock", rule_wordlists_lock),
    ("C20.cache_values", rule_cache_values),
    ("C20.backend_flag", rule_backend_flag),
    ("C20.memo_keys", rule_memo_keys),
]

CONTROLS = [
    {"rule": "C20.nonce_consumed", "name": "sign zeroes the nonce only after the range checks", "module": MUSIG,
     "edit": lambda ctx: _move_zeroing(ctx)},
    {"rule": "C20.nonce_consumed", "name": "partial_sign hands sign a copy of the nonce", "module": "btclib.psbt.musig2",
     "edit": lambda ctx: M.sub_expr(ctx, "btclib.psbt.musig2.partial_sign", lambda n: isinstance(n, ast.Call) and call_name(n) == "sign" and n.args and norm(n.args[0]) == "sec_nonce",
                                    lambda n: norm(n).replace("(sec_nonce", "(bytearray(sec_nonce)", 1))},
    {"rule": "C20.memo_keys", "name": "ellswift constants memoized per prime", "module": "btclib.ecc.ellswift",
     "edit": lambda ctx: ctx.module("btclib.ecc.ellswift").source.replace("if ec not in _CONSTANTS:", "if ec.p not in _CONSTANTS:").replace("_CONSTANTS[ec] =", "_CONSTANTS[ec.p] =").replace("return _CONSTANTS[ec]", "return _CONSTANTS[ec.p]")},
    {"rule": "C20.nonce_consumed", "name": "sign copies a non-bytearray nonce", "module": MUSIG,
     "edit": lambda ctx: M.sub_expr(ctx, f"{MUSIG}.sign", lambda n: isinstance(n, ast.Assign) and norm(n.targets[0]) == "values", "sec_nonce = bytearray(sec_nonce)\n    values = session_values(session_ctx)")},
    {"rule": "C20.flag_checked", "name": "dsa.Signer.sign_ forgets the wiped check", "module": "btclib.ecc.dsa",
     "edit": lambda ctx: M.drop_if(ctx, "btclib.ecc.dsa.Signer.sign_", lambda n: norm(n.test) == "self._wiped")},
    {"rule": "C20.flag_checked", "name": "SoftwareSigner.sign_message forgets _assert_open", "module": "btclib.psbt_signer",
     "edit": lambda ctx: M.drop_call_stmt(ctx, "btclib.psbt_signer.SoftwareSigner.sign_message", "_assert_open")},
    {"rule": "C20.flag_monotone", "name": "ssa.Signer gains a reopen", "module": "btclib.ecc.ssa",
     "edit": lambda ctx: M.sub_expr(ctx, "btclib.ecc.ssa.Signer.wipe", M.is_text("self._wiped = True"), "self._wiped = False")},
    {"rule": "C20.wallet", "name": "address stores index + 1 whatever the counter was", "module": "btclib.wallet.wallet",
     "edit": lambda ctx: M.sub_expr(ctx, "btclib.wallet.wallet.RangedWallet.address", lambda n: isinstance(n, ast.Call) and norm(n.func) == "max", "index + 1")},
    {"rule": "C20.wordlists_lock", "name": "wordlist loaded outside the lock", "module": "btclib.mnemonic.mnemonic",
     "edit": lambda ctx: M.sub_module_expr(ctx, "btclib.mnemonic.mnemonic", lambda n: isinstance(n, ast.Attribute) and norm(n) == "self._lock" and isinstance(parent(n), ast.withitem), "contextlib.nullcontext()")},
    {"rule": "C20.cache_values", "name": "fixed-window ladder sorts its memoized table", "module": "btclib.curves.curve_group",
     "edit": lambda ctx: _mutate_cached(ctx)},
]


def _move_zeroing(ctx: Ctx):
    fi = ctx.prog.functions.get(f"{MUSIG}.sign")
    if fi is None:
        return None
    st = [n for n in fi.node.body if isinstance(n, ast.Assign) and any(isinstance(t, ast.Subscript) and norm(t.value) == "sec_nonce" for t in n.targets)]
    ifs = [n for n in fi.node.body if isinstance(n, ast.If) and "k_2_" in norm(n.test)]
    if not st or not ifs:
        return None
    src = fi.module.source
    text = norm(st[0])
    seg = ast.get_source_segment(src, ifs[-1])
    return M.replace_nodes(src, [(st[0], "pass"), (ifs[-1], seg + "\n    " + text)])


def _mutate_cached(ctx: Ctx):
    for fi in ctx.prog.functions.values():
        if fi.module.name != "btclib.curves.curve_group":
            continue
        for n in own_nodes(fi.node):
            if isinstance(n, ast.Assign) and isinstance(n.value, ast.Call) and call_name(n.value) == "_cached_multiples_fixwind" and isinstance(n.targets[0], ast.Name):
                seg = ast.get_source_segment(fi.module.source, n)
                indent = " " * n.col_offset
                return M.replace_node(fi.module.source, n, seg + f"\n{indent}{n.targets[0].id}.reverse()")
    return None
