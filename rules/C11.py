"""C11 -- PSBT roles are lossless, order-independent, never alias arguments.

Decided structurally: the Combiner merges every field of every map (field
exhaustiveness) with the presence rule the serializer uses; identity checks
dominate the first merge; who may write the fields that make the unsigned
transaction; the signer-answer check compares every non-signature field and
verifies new signatures before return; roles do not mutate their arguments
and return a fresh root (R-PURE).
"""

from __future__ import annotations

import ast

from sa import mutate as M
from sa.consts import UNKNOWN
from sa.ctx import Ctx
from sa.effects import Effects
from sa.loader import AnalysisError, FuncInfo, call_name, norm, own_nodes, parent
from sa.report import Report

NOTES = ("C11: decides combine field exhaustiveness and merge-rule agreement, identity-before-merge, writers of the "
         "transaction-defining fields, completeness of assert_signatures_only, and argument purity / fresh roots of the "
         "roles; does not decide order-independence as an equality of results.")
ASSUMPTIONS = ["effect summaries treat the result of a btclib helper as fresh unless it returns (part of) a parameter "
               "through assignment, attribute/subscript load, iteration or a shallow copy",
               "caller-supplied callables (solver, KeyManager, PsbtSigner) are assumed not to mutate what they receive"]

P = "btclib.psbt.psbt"

# fields that identify the transaction: never merged, compared by identity checks
IDENTITY = {
    "PsbtIn": {"previous_tx_id", "output_index"},
    "PsbtOut": {"amount", "script_pub_key"},
    "Psbt": {"tx_version", "inputs", "outputs", "version"},
}
OWN_RULE = {"Psbt": {"tx_modifiable"}}  # merged by _combined_tx_modifiable


def _map_class(arg: ast.AST) -> str:
    t = norm(arg)
    if ".inputs[" in t:
        return "PsbtIn"
    if ".outputs[" in t:
        return "PsbtOut"
    return "Psbt"


def _merge_helpers(ctx: Ctx) -> dict[str, str]:
    """The per-field merge helpers, found by what they do and not by name:
    module functions (map, out, key) that getattr(map, key) and setattr(out,
    key, ...). kind 'optional' when every test is an `is None` test (presence
    is not-None), else 'truthy'."""
    out = {}
    for name, f in ctx.module(P).functions.items():
        ps = f.params()
        if len(ps) != 3 or "." in name:
            continue
        gets = [n for n in own_nodes(f.node) if isinstance(n, ast.Call) and norm(n.func) == "getattr" and len(n.args) >= 2 and norm(n.args[1]) == ps[2]]
        sets = [n for n in own_nodes(f.node) if isinstance(n, ast.Call) and norm(n.func) == "setattr" and len(n.args) == 3 and norm(n.args[1]) == ps[2]]
        if not gets or not sets:
            continue
        tests = [n.ast for n in ctx.cfg(f).nodes if n.kind == "test"]
        is_none = [isinstance(t, ast.Compare) and len(t.ops) == 1 and isinstance(t.ops[0], (ast.Is, ast.IsNot))
                   and isinstance(t.comparators[0], ast.Constant) and t.comparators[0].value is None for t in tests]
        out[f.qualname] = "optional" if tests and all(is_none) else "truthy"
    if len(out) < 2 or set(out.values()) != {"optional", "truthy"}:
        raise AnalysisError(f"psbt merge helpers not recognised: {out}")
    return out


def _combine_calls(ctx: Ctx):
    from sa.effects import Effects
    fi = ctx.func(f"{P}.combine")
    helpers = _merge_helpers(ctx)
    eff = Effects(ctx)
    out = []  # (cls, field, helper kind / name, call)
    for c in sorted((n for n in own_nodes(fi.node) if isinstance(n, ast.Call)), key=lambda c: c.lineno):
        q = ctx.resolve_call(fi, c)
        if q in helpers and len(c.args) == 3:
            key = c.args[2]
            if isinstance(key, ast.Constant) and isinstance(key.value, str):
                out.append((_map_class(c.args[0]), key.value, helpers[q], c))
            else:
                raise AnalysisError(f"combine: non-literal field key {norm(key)}")
        elif q in ctx.prog.functions and q.startswith(P + ".") and len(c.args) >= 2 and isinstance(parent(c), ast.Expr):
            # a helper with its own rule (musig2 participants): a module function
            # called for effect that writes into its second map
            helper = ctx.prog.functions[q]
            ps = helper.params()
            if len(ps) < 2 or ps[1] not in eff.summary(helper).mutated:
                continue
            p0 = ps[0]
            fields = {n.attr for n in own_nodes(helper.node) if isinstance(n, ast.Attribute)
                      and isinstance(n.value, ast.Name) and n.value.id == p0}
            for f in sorted(fields):
                out.append((_map_class(c.args[0]), f, q.rsplit(".", 1)[1], c))
    return fi, out


def _fields(ctx: Ctx, cname: str) -> list[str]:
    q = {"PsbtIn": "btclib.psbt.psbt_in.PsbtIn", "PsbtOut": "btclib.psbt.psbt_out.PsbtOut", "Psbt": f"{P}.Psbt"}[cname]
    return ctx.cls(q).fields()


def rule_combine_fields(ctx: Ctx, rep: Report) -> None:
    """C11.combine_fields: every field of every map is merged by combine
    (or is an identity field, compared instead)."""
    rule = "C11.combine_fields"
    fi, calls = _combine_calls(ctx)
    merged: dict[str, set[str]] = {"PsbtIn": set(), "PsbtOut": set(), "Psbt": set()}
    for cname, f, _h, _c in calls:
        merged[cname].add(f)
    # direct stores into the result (tx_modifiable)
    for n in own_nodes(fi.node):
        if isinstance(n, ast.Assign):
            for t in n.targets:
                if isinstance(t, ast.Attribute) and isinstance(t.value, ast.Name):
                    merged["Psbt"].add(t.attr)
    for cname in ("PsbtIn", "PsbtOut", "Psbt"):
        fields = _fields(ctx, cname)
        for f in fields:
            if f in IDENTITY[cname]:
                rep.ob(rule, f"{cname}.{f}", f not in merged[cname], fi.where(),
                       "identity field: not merged (compared by the identity checks)" if f not in merged[cname]
                       else "an identity field is merged: two transactions would combine")
                continue
            rep.ob(rule, f"{cname}.{f}", f in merged[cname], fi.where(),
                   "merged by combine" if f in merged[cname] else f"field {f} of {cname} is never merged by combine: a present value is lost")
        for f in sorted(merged[cname] - set(fields)):
            rep.ob(rule, f"{cname}.{f}!", False, fi.where(), f"combine merges {f!r}, which is not a field of {cname}")
    rep.floor(rule, 50)


def _present_if_not_none(ctx: Ctx, cname: str) -> set[str]:
    """Fields whose presence on the wire is `is not None` (zero/empty is a value)."""
    if cname == "PsbtIn":
        v = ctx.const("btclib.psbt.psbt_in", "_PRESENT_IF_NOT_NONE")
        if not isinstance(v, frozenset):
            raise AnalysisError("_PRESENT_IF_NOT_NONE does not fold")
        return set(v)
    q = {"PsbtOut": "btclib.psbt.psbt_out.PsbtOut", "Psbt": f"{P}.Psbt"}[cname]
    ci = ctx.cls(q)
    fields = set(ci.fields())
    out = set()
    ser = ci.methods["serialize"]
    fns = [ser] + [f for name, f in ser.module.functions.items() if name.startswith("_serialized_")]
    for fn in fns:
        p0 = fn.params()[0] if fn.params() else "self"
        for n in own_nodes(fn.node):
            if isinstance(n, ast.Compare) and isinstance(n.ops[0], ast.IsNot) and isinstance(n.comparators[0], ast.Constant) \
                    and n.comparators[0].value is None and isinstance(n.left, ast.Attribute) \
                    and isinstance(n.left.value, ast.Name) and n.left.value.id == p0 and n.left.attr in fields:
                out.add(n.left.attr)
    return out


def rule_merge_rule(ctx: Ctx, rep: Report) -> None:
    """C11.merge_rule: a field the serializer writes whenever it is not None
    is merged with the is-None helper, not the truthiness one."""
    rule = "C11.merge_rule"
    fi, calls = _combine_calls(ctx)
    for cname in ("PsbtIn", "PsbtOut", "Psbt"):
        need = _present_if_not_none(ctx, cname) - IDENTITY[cname] - OWN_RULE.get(cname, set())
        for cn, f, helper, c in calls:
            if cn != cname or f not in need:
                continue
            rep.ob(rule, f"{cname}.{f}", helper == "optional", fi.where(c),
                   f"present-iff-not-None field merged by the {helper} helper" + ("" if helper == "optional" else
                                                                                   ": a zero / empty value of one operand is dropped"))
    rep.floor(rule, 5)
    # the two helpers themselves never overwrite a present value; maps are merged by union
    helpers = _merge_helpers(ctx)
    for q, kind in sorted(helpers.items()):
        cf = ctx.func(q)
        g = ctx.cfg(cf)
        po = cf.params()[1]
        sets = [n for n in own_nodes(cf.node) if isinstance(n, ast.Call) and norm(n.func) == "setattr"]
        ok = bool(sets)
        for s_ in sets:
            facts = g.facts_at_ast(s_)
            # guarded by a test of out's own value: `attr` (a local holding getattr(out, key)) falsy, or getattr(out, key) is None
            locs = {norm(a.targets[0]) for a in own_nodes(cf.node) if isinstance(a, ast.Assign) and isinstance(a.value, ast.Call)
                    and norm(a.value.func) == "getattr" and a.value.args and norm(a.value.args[0]) == po}
            ok &= any((txt in locs and pol is False) or (f"getattr({po}," in txt and ((" is None" in txt and pol) or (" is not None" in txt and not pol) or (txt.startswith("getattr(") and txt.endswith(")") and not pol)))
                      for txt, pol in facts)
        rep.ob(rule, f"{kind}_helper.keeps_present", ok, cf.where(), "setattr(out, ...) only where out's own value is absent")
        if kind == "truthy":
            upd = [n for n in own_nodes(cf.node) if isinstance(n, ast.Call) and call_name(n) == "update"]
            rep.ob(rule, "truthy_helper.union", bool(upd), cf.where(), "map fields are merged by update (union of the pairs)")


def _for_headers(g, n_id: int) -> list[int]:
    """The test node and the headers of the loops enclosing it."""
    out = [n_id]
    node = g.nodes[n_id]
    cur = parent(node.stmt) if node.stmt is not None else None
    while cur is not None and not isinstance(cur, (ast.FunctionDef, ast.AsyncFunctionDef)):
        if isinstance(cur, (ast.For, ast.AsyncFor)):
            out += [m.id for m in g.nodes if m.kind == "for" and m.ast is cur]
        cur = parent(cur)
    if node.stmt is not None and isinstance(node.stmt, (ast.For, ast.AsyncFor)):
        pass
    return out


def _through_for(g, call: ast.Call) -> list[int]:
    """CFG nodes of a call, plus the header of a `for` whose body it opens."""
    ids = g.nodes_containing(call)
    out = list(ids)
    st = parent(call)
    while st is not None and not isinstance(st, ast.stmt):
        st = parent(st)
    loop = parent(st) if st is not None else None
    if isinstance(loop, (ast.For, ast.AsyncFor)) and loop.body and loop.body[0] is st:
        out += [m.id for m in g.nodes if m.kind == "for" and m.ast is loop]
    return out


def rule_identity_first(ctx: Ctx, rep: Report) -> None:
    """C11.identity_first: version, identifier and validity checks dominate
    the first merge in combine; join checks consistency first."""
    rule = "C11.identity_first"
    fi, calls = _combine_calls(ctx)
    g = ctx.cfg(fi)
    if not calls:
        raise AnalysisError("combine: no merge calls")
    first = min(calls, key=lambda x: x[3].lineno)[3]
    targets = g.nodes_containing(first)
    refs = ctx.refusals(fi)

    def dominated_by_refusal(what: str, pred) -> None:
        hits = [n for t, pol, n in refs if pred(t, pol)]
        through = [i for n in hits for i in _for_headers(g, n.id)]
        path = g.path_avoiding(targets, through) if through else [g.entry]
        rep.ob(rule, f"combine:{what}", bool(hits) and path is None, fi.where(),
               f"refusal `{norm(hits[0].ast)}` dominates the first merge" if hits and path is None else
               f"the first merge is reachable without the {what} check")

    dominated_by_refusal("version", lambda t, pol: pol and isinstance(t, ast.Compare) and isinstance(t.ops[0], ast.NotEq) and "version" in norm(t))
    dominated_by_refusal("identifier", lambda t, pol: pol and isinstance(t, ast.Compare) and isinstance(t.ops[0], ast.NotEq) and "id" in norm(t).replace("valid", ""))
    # the identifier is unique_id for v2, tx.id otherwise
    sel = [n for n in own_nodes(fi.node) if isinstance(n, ast.IfExp) and "unique_id" in norm(n.body) and "PSBT_V2" in norm(n.test)
           and norm(n.orelse).endswith(".tx.id")]
    rep.ob(rule, "combine:identifier_by_version", len(sel) >= 2, fi.where(),
           f"{len(sel)} identifier selections `unique_id if version == PSBT_V2 else tx.id`")
    av = [c for c in ctx.calls_to(fi, "assert_valid", last=True)]
    through = [i for c in av for i in _through_for(g, c)]
    path = g.path_avoiding(targets, through) if through else [g.entry]
    rep.ob(rule, "combine:assert_valid", bool(av) and path is None, fi.where(), "every operand's assert_valid dominates the first merge")
    # join
    j = ctx.func(f"{P}.join")
    gj = ctx.cfg(j)
    ec = ctx.calls_to(j, "_ensure_consistency", last=True)
    dc = [c for c in ctx.calls_to(j, "deepcopy", last=True)]
    okj = bool(ec) and bool(dc) and gj.path_avoiding(gj.nodes_containing(dc[0]), [i for c in ec for i in gj.nodes_containing(c)]) is None
    rep.ob(rule, "join:_ensure_consistency", okj, j.where(), "_ensure_consistency precedes the copy and the merge")
    refsj = ctx.refusals(j)
    rep.ob(rule, "join:version", any(pol and "version" in norm(t) and isinstance(t, ast.Compare) for t, pol, _ in refsj), j.where(), "version mismatch refused")
    rep.ob(rule, "join:common_inputs", any(pol and "len(outpoints)" in norm(t) for t, pol, _ in refsj), j.where(), "duplicate outpoints refused")


ROLES = [
    (f"{P}.combine", ["psbts"]),
    (f"{P}.sign", ["psbt"]),
    (f"{P}.finalize", ["psbt"]),
    (f"{P}.join", ["psbts"]),
    (f"{P}.Psbt.to_v0", ["self"]),
    (f"{P}.Psbt.to_v2", ["self"]),
    (f"{P}.extract_tx", ["psbt"]),
    (f"{P}.assert_signatures_only", ["request", "returned"]),
    (f"{P}.assert_signed", ["psbt"]),
    ("btclib.psbt_signer.request_signatures", ["psbt"]),
    (f"{P}.ecdsa_sig_hash", ["psbt"]),
    (f"{P}.taproot_sig_hash", ["psbt"]),
    (f"{P}.prevouts", ["psbt"]),
]
# in-place roles by documented design (BIP373 / BIP375 sessions work on the psbt they are given)
IN_PLACE = {
    "btclib.psbt.musig2": {"musig2_participant_pub_keys", "musig2_pub_nonces", "musig2_partial_sigs",
                           "taproot_key_spend_signature", "taproot_script_spend_signatures"},
    "btclib.psbt.silent_payments": {"sp_ecdh_shares", "sp_dleq_proofs", "script_pub_key", "tx_modifiable"},
}


def rule_fresh(ctx: Ctx, rep: Report) -> None:
    """C11.fresh: a role does not mutate its Psbt arguments and returns a fresh root."""
    rule = "C11.fresh"
    eff = Effects(ctx)
    for q, params in ROLES:
        fi = ctx.func(q)
        s = eff.summary(fi)
        for p in params:
            if p not in fi.params():
                raise AnalysisError(f"{q}: parameter {p} vanished")
            ev = s.mutated.get(p, [])
            rep.ob(rule, f"{q}({p}):unmodified", not ev, fi.where(),
                   "no store reaches the argument" if not ev else
                   "argument may be mutated: " + "; ".join(f"L{ln} {how}" for ln, how in ev[:3]))
            rep.ob(rule, f"{q}({p}):fresh_return", p not in s.returns, fi.where(),
                   "returned root is fresh" if p not in s.returns else "the returned object is (part of) the argument")
            shallow = [c for c in own_nodes(fi.node) if isinstance(c, ast.Call) and call_name(c) in ("replace", "copy", "_replace") and c.args
                       and isinstance(c.args[0], ast.Name) and c.args[0].id == p]
            rep.ob(rule, f"{q}({p}):no_shallow_copy", not shallow, fi.where(shallow[0] if shallow else None),
                   "no shallow copy of the argument" if not shallow else
                   f"`{norm(shallow[0])[:50]}` makes a new root that shares every input and output map with the argument: updating the result updates the psbt that was handed in")
    rep.floor(rule, 20)
    # in-place protocol roles write only their own protocol's fields
    for modname, allowed in IN_PLACE.items():
        mi = ctx.module(modname)
        for name, fi in sorted(mi.functions.items()):
            for n in own_nodes(fi.node):
                tg = []
                if isinstance(n, ast.Assign):
                    tg = n.targets
                elif isinstance(n, (ast.AugAssign, ast.AnnAssign)):
                    tg = [n.target]
                elif isinstance(n, ast.Delete):
                    tg = n.targets
                for t in tg:
                    base = t
                    while isinstance(base, ast.Subscript):
                        base = base.value
                    if isinstance(base, ast.Attribute) and isinstance(t, (ast.Attribute, ast.Subscript)):
                        # a store into <something>.<field>[...] or <something>.<field>
                        root = base.value
                        while isinstance(root, (ast.Attribute, ast.Subscript)):
                            root = root.value
                        if isinstance(root, ast.Name) and root.id == "self":
                            continue
                        rep.ob("C11.in_place_fields", f"{fi.qualname}:{base.attr}", base.attr in allowed, fi.where(n),
                               f"stores into .{base.attr}" + ("" if base.attr in allowed else f", not a field of this protocol ({sorted(allowed)})"))
                if isinstance(n, ast.Call) and isinstance(n.func, ast.Attribute) and n.func.attr in ("pop", "clear", "update", "setdefault") \
                        and isinstance(n.func.value, ast.Attribute):
                    f = n.func.value.attr
                    root = n.func.value.value
                    while isinstance(root, (ast.Attribute, ast.Subscript)):
                        root = root.value
                    if isinstance(root, ast.Name) and root.id != "self" and f in set().union(*[set(_fields(ctx, c)) for c in ("PsbtIn", "PsbtOut", "Psbt")]):
                        rep.ob("C11.in_place_fields", f"{fi.qualname}:{f}.{n.func.attr}", f in allowed, fi.where(n),
                               f".{f}.{n.func.attr}()" + ("" if f in allowed else " on a field of another protocol"))


# who may store into the fields that make the unsigned transaction
TX_FIELDS = {"tx_version", "previous_tx_id", "output_index", "amount", "script_pub_key", "sequence", "inputs", "outputs",
             "fallback_lock_time", "required_time_lock_time", "required_height_lock_time", "version"}
TX_WRITERS = {
    # function -> fields it may store, with the reason
    f"{P}._read_tx_in": {"sequence", "output_index", "previous_tx_id"},  # parse: v0 unsigned tx -> fields
    f"{P}._read_tx_out": {"script_pub_key", "amount"},
    f"{P}.Psbt.__init__": {"fallback_lock_time", "version", "outputs", "inputs", "tx_version"},
    f"{P}.Psbt.to_v0": {"version", "required_height_lock_time", "required_time_lock_time", "fallback_lock_time"},
    f"{P}.Psbt.to_v2": {"version"},
    f"{P}.Psbt.sort_inputs": {"inputs"},  # behind _assert_modifiable
    f"{P}.Psbt.sort_outputs": {"outputs"},
    "btclib.psbt.psbt_in.PsbtIn.__init__": {"required_height_lock_time", "required_time_lock_time", "sequence", "output_index", "previous_tx_id"},
    "btclib.psbt.psbt_out.PsbtOut.__init__": {"script_pub_key", "amount"},
    "btclib.psbt.psbt_view.PsbtView.__init__": {"fallback_lock_time", "tx_version", "version"},
    "btclib.psbt.silent_payments.set_output_scripts": {"script_pub_key"},  # BIP375: the output has no script until now
    "btclib.tx_builder.build_psbt": {"amount"},  # the change amount of the psbt being constructed
}
PSBT_MODULES = ("btclib.psbt.", "btclib.psbt_signer", "btclib.tx_builder", "btclib.tx_or_psbt", "btclib.bip322", "btclib.hwi",
                "btclib.wallet.", "btclib.core_import")


def rule_tx_untouched(ctx: Ctx, rep: Report) -> None:
    """C11.tx_untouched: only constructors, parse, the converters and the
    modifiable-guarded sorters store into the transaction-defining fields."""
    rule = "C11.tx_untouched"
    seen = 0
    for fi in sorted(ctx.prog.functions.values(), key=lambda f: f.qualname):
        if not fi.module.name.startswith(PSBT_MODULES) and fi.module.name != P:
            continue
        for n in own_nodes(fi.node):
            tg = []
            if isinstance(n, ast.Assign):
                tg = n.targets
            elif isinstance(n, (ast.AugAssign, ast.AnnAssign)):
                tg = [n.target]
            for t in tg:
                for el in (t.elts if isinstance(t, (ast.Tuple, ast.List)) else [t]):
                    if isinstance(el, ast.Attribute) and el.attr in TX_FIELDS:
                        seen += 1
                        allowed = TX_WRITERS.get(fi.qualname, set())
                        rep.ob(rule, f"{fi.qualname}:{el.attr}", el.attr in allowed, fi.where(n),
                               f"stores .{el.attr}" + ("" if el.attr in allowed else ": not in the reviewed writer table"))
    rep.floor(rule, 25)
    # sorters are behind _assert_modifiable
    for nm in ("sort_inputs", "sort_outputs"):
        fi = ctx.func(f"{P}.Psbt.{nm}")
        g = ctx.cfg(fi)
        am = ctx.calls_to(fi, "_assert_modifiable", last=True)
        stores = [n.id for n in g.nodes if n.kind == "stmt" and isinstance(n.ast, ast.Assign)]
        ok = bool(am) and g.path_avoiding(stores, [i for c in am for i in g.nodes_containing(c)]) is None
        rep.ob(rule, f"{nm}:guarded", ok, fi.where(), "_assert_modifiable dominates the reorder")
    # to_v0 takes the lock time before it clears what it is computed from
    tv = ctx.func(f"{P}.Psbt.to_v0")
    fl = [n for n in own_nodes(tv.node) if isinstance(n, ast.Assign) and any(norm(t).endswith(".fallback_lock_time") for t in n.targets)]
    clr = [n for n in own_nodes(tv.node) if isinstance(n, ast.Assign) and any("required_" in norm(t) for t in n.targets)]
    ok = bool(fl) and bool(clr) and "lock_time" in norm(fl[0].value) and fl[0].lineno < min(c.lineno for c in clr) \
        and norm(fl[0].value).startswith("self.")
    rep.ob(rule, "to_v0:lock_time_first", ok, tv.where(), "fallback_lock_time = self.lock_time is taken from the original before the per-input lock times are cleared")
    # finalization keeps what the transaction is computed from
    keeps = ctx.const(P, "_FINALIZED_KEEPS")
    need = {"previous_tx_id", "output_index", "sequence", "required_time_lock_time", "required_height_lock_time",
            "final_script_sig", "final_script_witness", "unknown", "non_witness_utxo", "witness_utxo"}
    rep.ob(rule, "_FINALIZED_KEEPS", isinstance(keeps, frozenset) and need <= keeps, f"{ctx.module(P).relpath}:1",
           f"missing from _FINALIZED_KEEPS: {sorted(need - keeps) if isinstance(keeps, frozenset) else 'unfoldable'}")
    cf = ctx.func(f"{P}._clear_finalized")
    refs = [n for n in own_nodes(cf.node) if isinstance(n, ast.Compare) and isinstance(n.ops[0], ast.NotIn) and norm(n.comparators[0]) == "_FINALIZED_KEEPS"]
    rep.ob(rule, "_clear_finalized:uses_keeps", bool(refs), cf.where(), "clears only fields not in _FINALIZED_KEEPS")


def rule_answer_check(ctx: Ctx, rep: Report) -> None:
    """C11.answer_check: assert_signatures_only compares every field that is
    not a signature, and verifies every new signature before returning."""
    rule = "C11.answer_check"
    fi = ctx.func(f"{P}.assert_signatures_only")
    params = fi.params()
    req, ret = params[0], params[1]
    g = ctx.cfg(fi)
    # global fields compared: attribute names appearing on both `request.` and `returned.` in a refusing test
    compared: set[str] = set()
    for t, pol, n in ctx.refusals(fi):
        a = {x.attr for x in ast.walk(t) if isinstance(x, ast.Attribute) and isinstance(x.value, ast.Name) and x.value.id == req}
        b = {x.attr for x in ast.walk(t) if isinstance(x, ast.Attribute) and isinstance(x.value, ast.Name) and x.value.id == ret}
        compared |= a & b
        # _combined_tx_modifiable([request, returned]) != returned.tx_modifiable
        for c in ast.walk(t):
            if isinstance(c, ast.Call) and call_name(c) == "_combined_tx_modifiable":
                compared.add("tx_modifiable")
    walked = set()
    for n in own_nodes(fi.node):
        if isinstance(n, ast.Call) and call_name(n) == "zip":
            for a in n.args:
                if isinstance(a, ast.Attribute):
                    walked.add(a.attr)
    psbt_fields = _fields(ctx, "Psbt")
    # `tx` (computed) covers tx_version, inputs/outputs identity and lock times' effect
    tx_covered = {"tx_version"} if "tx" in compared else set()
    for f in psbt_fields:
        ok = f in compared or f in walked or f in tx_covered
        rep.ob(rule, f"global.{f}", ok, fi.where(),
               "compared between request and returned" if ok else
               f"global field {f} is neither compared nor walked: an answer may add or change it and combine will merge it")
    # per-map comparison is generic over dataclass fields minus the signature set
    au = ctx.func(f"{P}._assert_unchanged")
    gen = any(isinstance(n, ast.For) and isinstance(n.iter, ast.Call) and call_name(n.iter) == "fields" for n in own_nodes(au.node))
    skip = any(isinstance(n, ast.Compare) and isinstance(n.ops[0], ast.In) and norm(n.comparators[0]) == "_SIGNATURE_FIELDS" for n in own_nodes(au.node))
    refuses = any(pol and isinstance(t, ast.Compare) and isinstance(t.ops[0], ast.NotEq) for t, pol, _ in ctx.refusals(au))
    rep.ob(rule, "_assert_unchanged:generic", gen and skip and refuses, au.where(), "walks dataclasses.fields minus _SIGNATURE_FIELDS and refuses on !=")
    sig = ctx.const(P, "_SIGNATURE_FIELDS")
    allowed_sig = {"partial_sigs", "taproot_key_spend_signature", "taproot_script_spend_signatures", "musig2_pub_nonces", "musig2_partial_sigs"}
    rep.ob(rule, "_SIGNATURE_FIELDS", isinstance(sig, frozenset) and sig <= allowed_sig and sig <= set(_fields(ctx, "PsbtIn")),
           f"{ctx.module(P).relpath}:1", f"signature-bearing fields {sorted(sig) if isinstance(sig, frozenset) else sig}; anything else a signer may not touch")
    # both maps are walked with _assert_unchanged; every new signature is verified; on every path to return
    for callee, what in (("_assert_unchanged", "unchanged"), ("_assert_signatures_added_only", "added-only"),
                         ("_assert_ecdsa_sigs_verify", "ecdsa verify"), ("_assert_taproot_sigs_verify", "taproot verify"),
                         ("_assert_sig_hash_type", "sighash type")):
        cs = ctx.calls_to(fi, callee, last=True)
        through = [i for c in cs for i in _through_loop(g, c)]
        path = g.must_pass(through) if through else [0]
        rep.ob(rule, f"calls:{callee}", bool(cs) and path is None, fi.where(), f"{what} check on every path to return ({len(cs)} call sites)")
    nun = len(ctx.calls_to(fi, "_assert_unchanged", last=True))
    rep.ob(rule, "unchanged:both_maps", nun >= 2 and {"inputs", "outputs"} <= walked, fi.where(), f"_assert_unchanged applied to inputs and outputs ({nun} sites)")
    # verification helpers refuse: not verify -> raise
    for q, prim in ((f"{P}._assert_ecdsa_sigs_verify", "verify_"), (f"{P}._assert_taproot_sigs_verify", "verify_")):
        h = ctx.func(q)
        hit = [norm(t) for t, pol, _ in ctx.refusals(h) if pol is False and isinstance(t, ast.Call) and call_name(t) == prim]
        rep.ob(rule, f"{q.rsplit('.', 1)[1]}:refuses_invalid", bool(hit), h.where(), f"raises when {hit[:2]} is false" if hit else "no refusal on a failed verification")
    # request_signatures: check before merge
    rs = ctx.func("btclib.psbt_signer.request_signatures")
    gr = ctx.cfg(rs)
    chk = ctx.calls_to(rs, "assert_signatures_only", last=True)
    cmb = ctx.calls_to(rs, "combine", last=True)
    ok = bool(chk) and bool(cmb) and gr.path_avoiding([i for c in cmb for i in gr.nodes_containing(c)], [i for c in chk for i in gr.nodes_containing(c)]) is None
    rep.ob(rule, "request_signatures:check_before_combine", ok, rs.where(), "assert_signatures_only dominates combine")
    if chk:
        a = chk[0].args
        sp = [c for c in ctx.calls_to(rs, "sign_psbt", last=True)]
        ok2 = len(a) == 2 and norm(a[0]) == rs.params()[1] and sp and isinstance(parent(sp[0]), ast.Assign) and norm(parent(sp[0]).targets[0]) == norm(a[1])
        rep.ob(rule, "request_signatures:args", ok2, rs.where(), "assert_signatures_only(request, what the signer returned)")


def rule_new_sigs_verified(ctx: Ctx, rep: Report) -> None:
    """C11.new_sigs_verified: in the answer check, a signature is skipped only
    because *that key's* signature was already in the request -- never
    wholesale."""
    rule = "C11.new_sigs_verified"
    for q in (f"{P}._assert_ecdsa_sigs_verify", f"{P}._assert_taproot_sigs_verify"):
        fi = ctx.func(q)
        loops = [n for n in own_nodes(fi.node) if isinstance(n, ast.For) and any(isinstance(c, ast.Call) and call_name(c) == "verify_" for s in n.body for c in ast.walk(s))]
        if not loops:
            raise AnalysisError(f"{q}: verification loop vanished")
        for lp in loops:
            it = lp.iter
            if not (isinstance(it, ast.Call) and isinstance(it.func, ast.Attribute) and it.func.attr == "items"):
                rep.unknown(rule, f"{fi.name}:loop", fi.where(lp), f"loop over {norm(it)}")
                continue
            keyvars = {x.id for x in ast.walk(lp.target.elts[0] if isinstance(lp.target, ast.Tuple) else lp.target) if isinstance(x, ast.Name)}
            src = it.func.value
            key = f"{fi.name}:{norm(src)}"
            # the message each signature is verified against is the one *its own* hash type
            # byte names: it is computed, inside the loop, from the signature
            if isinstance(lp.target, ast.Tuple) and len(lp.target.elts) == 2:
                sigvars = {x.id for x in ast.walk(lp.target.elts[1]) if isinstance(x, ast.Name)}
                for vc in [c for s_ in lp.body for c in ast.walk(s_) if isinstance(c, ast.Call) and call_name(c) == "verify_" and c.args]:
                    need = {x.id for x in ast.walk(vc.args[0]) if isinstance(x, ast.Name)}
                    seen: set[str] = set()
                    dep = False
                    while need and not dep:
                        nm = need.pop()
                        if nm in seen:
                            continue
                        seen.add(nm)
                        if nm in sigvars:
                            dep = True
                            break
                        for a_ in [a_ for s_ in lp.body for a_ in ast.walk(s_) if isinstance(a_, ast.Assign) and any(isinstance(t, ast.Name) and t.id == nm for t in a_.targets)]:
                            need |= {x.id for x in ast.walk(a_.value) if isinstance(x, ast.Name)}
                    rep.ob(rule, f"{key}:own_hash_type", dep, fi.where(vc), "the message is computed in the loop from the signature (its hash type byte)" if dep else
                           f"the message `{norm(vc.args[0])}` handed to verify_ does not depend on the signature being verified: a signature is checked against the hash of another hash type than the one it states")
            if isinstance(src, ast.Attribute):
                # the whole map; skips inside the loop must be per key
                conts = [n for n in ast.walk(lp) if isinstance(n, ast.If) and any(isinstance(s, ast.Continue) for s in n.body)]
                bad = [norm(c.test) for c in conts if not (keyvars & {x.id for x in ast.walk(c.test) if isinstance(x, ast.Name)}) and "msg_hash" not in norm(c.test)]
                rep.ob(rule, key, not bad, fi.where(lp), "iterates the whole map; a signature is skipped only when its own key is in the request" if not bad else f"a skip that does not depend on the signature's key: {bad}")
            elif isinstance(src, ast.Name):
                defs = [n for n in own_nodes(fi.node) if isinstance(n, (ast.Assign, ast.AnnAssign)) and norm(n.targets[0] if isinstance(n, ast.Assign) else n.target) == src.id]
                ok = bool(defs)
                why = "defined once as a per-key filter of the whole map"
                for d in defs:
                    v = d.value
                    if not (isinstance(v, ast.DictComp) and isinstance(v.generators[0].iter, ast.Call) and norm(v.generators[0].iter.func).endswith(".items")
                            and isinstance(v.generators[0].iter.func.value, ast.Attribute)):
                        ok = False
                        why = f"`{norm(d)[:70]}`: the set of signatures to verify is not a per-key filter of the input's map"
                        continue
                    kv = {x.id for x in ast.walk(v.generators[0].target) if isinstance(x, ast.Name)}
                    for cond in v.generators[0].ifs:
                        for disj in (cond.values if isinstance(cond, ast.BoolOp) and isinstance(cond.op, ast.Or) else [cond]):
                            names = {x.id for x in ast.walk(disj) if isinstance(x, ast.Name)}
                            if not (names & kv) and norm(disj) != "request_in is None":
                                ok = False
                                why = f"filter condition `{norm(disj)}` does not depend on the signature's key"
                rep.ob(rule, key, ok, fi.where(lp), why)
    rep.floor(rule, 3)


def _through_loop(g, call: ast.Call) -> list[int]:
    ids = list(g.nodes_containing(call))
    st = parent(call)
    while st is not None and not isinstance(st, ast.stmt):
        st = parent(st)
    loop = parent(st) if st is not None else None
    if isinstance(loop, (ast.For, ast.AsyncFor)) and st in loop.body:
        # every statement of the loop body before it must not break/continue/return: accept straight-line bodies
        idx = loop.body.index(st)
        if all(isinstance(s, (ast.Expr, ast.Assign, ast.AnnAssign)) for s in loop.body[:idx]):
            ids += [m.id for m in g.nodes if m.kind == "for" and m.ast is loop]
    return ids


def rule_view(ctx: Ctx, rep: Report) -> None:
    """C11.view: the streamed view reads maps with the same parsers as Psbt.parse."""
    rule = "C11.view"
    mi = ctx.module("btclib.psbt.psbt_view")
    need = {"btclib.psbt.psbt_in.PsbtIn.parse": "input", "btclib.psbt.psbt_out.PsbtOut.parse": "output",
            f"{P}._parse_global_map": "globals", f"{P}._lock_time": "lock_time"}
    found = set()
    for fi in mi.functions.values():
        for _c, tgt in ctx.callees(fi):
            if tgt in need:
                found.add(tgt)
    for q, what in need.items():
        rep.ob(rule, what, q in found, f"{mi.relpath}:1", f"psbt_view reaches {q}" if q in found else f"psbt_view no longer uses {q}: a second implementation")


def rule_own_fields(ctx: Ctx, rep: Report) -> None:
    """C11.own_fields: an object hands its own fields to the functions it delegates to (see sigcommon.rule_own_fields_forwarded)."""
    from rules.sigcommon import rule_own_fields_forwarded
    rule_own_fields_forwarded(ctx, rep, "C11.own_fields", ('btclib.psbt.psbt.', 'btclib.psbt.psbt_in', 'btclib.psbt.psbt_out'), 20)


def rule_params_forwarded_(ctx: Ctx, rep: Report) -> None:
    """C11.params_forwarded: a parameter is handed on to callees that have a parameter of the same name (see sigcommon.rule_params_forwarded)."""
    from rules.sigcommon import rule_params_forwarded
    rule_params_forwarded(ctx, rep, "C11.params_forwarded", ('btclib.psbt.psbt', 'btclib.psbt.psbt_in', 'btclib.psbt.psbt_out', 'btclib.psbt.psbt_utils'), 100)


def rule_unchanged_is_equality(ctx: Ctx, rep: Report) -> None:
    """C11.unchanged_is_equality: "the answer differs from the request by added
    signatures only" compares every other field of every map with `!=`, and
    skips a field for one reason: it is a signature field. In the loop of
    `_assert_unchanged` every `continue` is under the signature-field test --
    a shortcut on the values' truthiness ("both empty") makes None and 0 one
    value, and 0 is a label, a sequence, a hash type."""
    rule = "C11.unchanged_is_equality"
    fi = ctx.func(f"{P}._assert_unchanged")
    g = ctx.cfg(fi)
    loops = [n for n in own_nodes(fi.node) if isinstance(n, ast.For) and isinstance(n.iter, ast.Call) and call_name(n.iter) == "fields"]
    if not loops:
        rep.unknown(rule, "_assert_unchanged", fi.where(), "no loop over fields(...): shape not recognised")
        return
    conts = [c for c in ast.walk(loops[0]) if isinstance(c, ast.Continue)]
    for c in conts:
        facts = [str(t) for t, p_ in g.facts_at_ast(c) if p_] if False else []
        par = parent(c)
        test = str(norm(par.test)) if isinstance(par, ast.If) else ""
        ok = "_SIGNATURE_FIELDS" in test
        rep.ob(rule, f"skip:{test[:50]}", ok, fi.where(c), "a signature field is skipped" if ok else
               f"a field is skipped under `{test[:60]}`: values that differ (None against 0 / b'' / an empty map) pass as unchanged")
    cmp_ = [x for x in ast.walk(loops[0]) if isinstance(x, ast.Compare) and isinstance(x.ops[0], ast.NotEq)]
    rep.ob(rule, "compares_with_ne", bool(cmp_), fi.where(loops[0]), "fields are compared with !=")
    rep.floor(rule, 2)


def rule_extractor_gate(ctx: Ctx, rep: Report) -> None:
    """C11.extractor_gate: BIP174's Transaction Extractor "checks whether all inputs
    have complete scriptSigs and scriptWitnesses" and does nothing otherwise.
    extract_tx refuses -- on every path to its answer, and not only under
    check_validity -- an input for which both `final_script_sig` and
    `final_script_witness` are absent: without that gate a signed but
    unfinalized psbt is answered as a transaction with empty inputs."""
    rule = "C11.extractor_gate"
    fi = ctx.func(f"{P}.extract_tx")
    g = ctx.cfg(fi)
    gates = []
    for r in own_nodes(fi.node):
        if isinstance(r, ast.Raise) and r.exc is not None:
            facts = g.facts_at_ast(r.exc)
            absent = {str(t) for t, pol in facts if not pol} | {str(t).replace(" is None", "") for t, pol in facts if pol and str(t).endswith(" is None")}
            if any(a.endswith(".final_script_sig") for a in absent) and any(a.endswith(".final_script_witness") for a in absent):
                gates.append((r, facts))
    rep.ob(rule, "extract_tx:gate", bool(gates), fi.where(gates[0][0] if gates else None), "an input with neither final field is refused" if gates else
           "extract_tx has no refusal of an input with neither final_script_sig nor final_script_witness: an unfinalized psbt is extracted")
    if gates:
        r, facts = gates[0]
        under = [str(x) for x, pol in facts if "check_validity" in str(x)]
        rep.ob(rule, "extract_tx:unconditional", not under, fi.where(r), "the gate does not depend on check_validity" if not under else f"the gate is under {under}: with check_validity=False an unfinalized psbt is extracted")
        # and it comes before the answer: no return is reached without passing the loop that holds it
        loop = parent(parent(r))
        rets = [x for x in own_nodes(fi.node) if isinstance(x, ast.Return)]
        okb = isinstance(loop, (ast.For, ast.While)) and all(x.lineno > loop.lineno for x in rets) or all(x.lineno > r.lineno for x in rets)
        rep.ob(rule, "extract_tx:before_answer", okb, fi.where(r), "every return comes after the gate")
    rep.floor(rule, 3)


def rule_identifier_fields(ctx: Ctx, rep: Report) -> None:
    """C11.identifier_fields: BIP370 identifies a version 2 psbt by its unsigned
    transaction with the *sequences* zeroed -- an Updater may still change
    those -- and everything else as it is: version, computed lock time, the
    outpoints, the outputs. In `_unsigned_tx` the version and the lock time
    handed to `Tx(...)` are the psbt's own whether or not the transaction is
    built for the identifier: a lock time zeroed for the identifier gives two
    psbts of different transactions one identifier, and combine merges them."""
    from sa.canon import expand
    rule = "C11.identifier_fields"
    fi = ctx.func(f"{P}._unsigned_tx")
    flag = [p_ for p_ in fi.params() if p_ != fi.params()[0]]
    rets = [r for r in own_nodes(fi.node) if isinstance(r, ast.Return) and isinstance(r.value, ast.Call) and call_name(r.value) == "Tx" and len(r.value.args) >= 2]
    if len(rets) != 1 or not flag:
        rep.unknown(rule, "_unsigned_tx", fi.where(), f"{len(rets)} returns of a Tx")
        return
    p0 = fi.params()[0]
    for k, what, attr in ((0, "version", "tx_version"), (1, "lock time", "lock_time")):
        text = str(expand(fi, rets[0].value.args[k]))
        names = {x.id for x in ast.walk(ast.parse(text, mode="eval")) if isinstance(x, ast.Name)}
        ok = f"{p0}.{attr}" in text.replace(" ", "") and not (names & set(flag))
        rep.ob(rule, f"_unsigned_tx:{what}", ok, fi.where(rets[0]), f"the {what} is the psbt's own, identifier or not" if ok else
               f"the {what} of the unsigned transaction is `{text[:70]}`: it depends on `{flag[0]}` (or is not the psbt's): psbts of transactions that differ in it share an identifier")
    rep.floor(rule, 2)


def rule_ctor_copies_containers_(ctx: Ctx, rep: Report) -> None:
    """C11.ctor_copies_containers: a constructor stores its own copy of a sequence / mapping argument (see sigcommon.rule_ctor_copies_containers)."""
    from rules.sigcommon import rule_ctor_copies_containers
    rule_ctor_copies_containers(ctx, rep, "C11.ctor_copies_containers", ('btclib.psbt', 'btclib.tx'), 15)


def rule_global_fields_compared_flat(ctx: Ctx, rep: Report) -> None:
    """C11.global_fields_compared_flat: in `assert_signatures_only` each global field
    that is not a signature is compared `returned.F != request.F`, and that
    comparison is the whole test: it holds for an *added* value (None in the
    request, something in the answer) as it does for a changed one. A
    comparison that runs only where the request had a value lets a signer add
    a signed message, a share or a proof the coordinator never asked for."""
    rule = "C11.global_fields_compared_flat"
    fi = ctx.func(f"{P}.assert_signatures_only")
    ps = fi.params()
    n = 0
    for i in own_nodes(fi.node):
        if not (isinstance(i, ast.If) and any(isinstance(x, ast.Raise) for x in i.body)):
            continue
        cmps = [c for c in ast.walk(i.test) if isinstance(c, ast.Compare) and isinstance(c.ops[0], ast.NotEq) and all(isinstance(s_, ast.Attribute) and isinstance(s_.value, ast.Name) and s_.value.id in ps for s_ in (c.left, c.comparators[0]))
                and c.left.attr == c.comparators[0].attr]
        if not cmps:
            continue
        n += 1
        flat = i.test is cmps[0]
        rep.ob(rule, f"assert_signatures_only:{cmps[0].left.attr}", flat, fi.where(i), f"`{norm(cmps[0])}` is the whole test" if flat else
               f"`{norm(i.test)[:90]}` compares `{cmps[0].left.attr}` only under another condition: a value the answer adds where the request had none is accepted")
    rep.floor(rule, 3)


def rule_taproot_type_defaults_to_default(ctx: Ctx, rep: Report) -> None:
    """C11.taproot_type_defaults_to_default: a taproot input that states no sig_hash
    type asks for SIGHASH_DEFAULT -- that is what `sign` signs with and what the
    Finalizer expects -- so a taproot signature is checked against
    `psbt_in.sig_hash_type or DEFAULT` (or its is-None spelling with DEFAULT as
    the other arm): absence is a *value*, not a wildcard. Read as "no
    constraint", a 65-byte signature of SIGHASH_NONE|ANYONECANPAY on an input
    that asked for nothing is an accepted answer."""
    rule = "C11.taproot_type_defaults_to_default"
    fi = ctx.func(f"{P}._assert_taproot_sig_hash_type")
    from sa import values as VX
    vx = VX.of(fi)
    # the refusing test with its locals inlined: a condition given a name first is the same condition
    tests = []
    for i in own_nodes(fi.node):
        if isinstance(i, ast.If) and any(isinstance(x, ast.Raise) for x in i.body):
            for v in (vx.value_of(i.test) or [i.test]):
                if "sig_hash_type" in str(norm(v)):
                    tests.append((i, v))
    if not tests:
        rep.ob(rule, "_assert_taproot_sig_hash_type:test", False, fi.where(), "no refusal on the stated sig_hash type")
        return
    for i, t in tests:
        names = {x.id for x in ast.walk(t) if isinstance(x, ast.Name)} | {x.attr for x in ast.walk(t) if isinstance(x, ast.Attribute)}
        wildcard = isinstance(t, ast.BoolOp) and isinstance(t.op, ast.And) and any(isinstance(v, ast.Compare) and isinstance(v.ops[0], ast.IsNot) and isinstance(v.comparators[0], ast.Constant) and v.comparators[0].value is None for v in t.values)
        ok = "DEFAULT" in names and not wildcard
        rep.ob(rule, "_assert_taproot_sig_hash_type:absent_means_default", ok, fi.where(i), "an absent type is compared as SIGHASH_DEFAULT" if ok else
               f"`{norm(t)[:80]}`: an input that states no type accepts a signature of any type")
    rep.floor(rule, 1)


RULES = [
    ("C11.global_fields_compared_flat", rule_global_fields_compared_flat),
    ("C11.taproot_type_defaults_to_default", rule_taproot_type_defaults_to_default),

    ("C11.ctor_copies_containers", rule_ctor_copies_containers_),

    ("C11.identifier_fields", rule_identifier_fields),
    ("C11.extractor_gate", rule_extractor_gate),
    ("C11.unchanged_is_equality", rule_unchanged_is_equality),
    ("C11.params_forwarded", rule_params_forwarded_),
    ("C11.own_fields", rule_own_fields),
    ("C11.combine_fields", rule_combine_fields),
    ("C11.merge_rule", rule_merge_rule),
    ("C11.identity_first", rule_identity_first),
    ("C11.fresh", rule_fresh),
    ("C11.tx_untouched", rule_tx_untouched),
    ("C11.answer_check", rule_answer_check),
    ("C11.new_sigs_verified", rule_new_sigs_verified),
    ("C11.view", rule_view),
]

CONTROLS = [
    {"rule": "C11.unchanged_is_equality", "name": "two falsy values count as unchanged", "module": P,
     "edit": lambda ctx: M.sub_expr(ctx, f"{P}._assert_unchanged", lambda n: isinstance(n, ast.If) and "!=" in norm(n.test) and "getattr" in norm(n.test),
                                    lambda n: "was, now = getattr(request_map, field.name), getattr(returned_map, field.name)\n        if not was and not now:\n            continue\n        if now != was:\n            raise BTClibValueError(f'{what}: {field.name} was changed')")},
    {"rule": "C11.own_fields", "name": "PsbtIn.assert_valid checks the sha256 preimages of nobody", "module": "btclib.psbt.psbt_in",
     "edit": lambda ctx: M.sub_expr(ctx, "btclib.psbt.psbt_in.PsbtIn.assert_valid", lambda n: isinstance(n, ast.Call) and call_name(n) == "_assert_valid_sha256_preimages", "_assert_valid_sha256_preimages()")},
    {"rule": "C11.combine_fields", "name": "combine forgets witness_script of outputs", "module": P,
     "edit": lambda ctx: M.sub_expr(ctx, f"{P}.combine", lambda n: isinstance(n, ast.Expr) and "psbt.outputs[i], out, 'witness_script'" in norm(n), "pass")},
    {"rule": "C11.merge_rule", "name": "sequence merged by truthiness", "module": P,
     "edit": lambda ctx: M.sub_expr(ctx, f"{P}.combine", lambda n: isinstance(n, ast.Call) and "'sequence'" in norm(n),
                                    lambda n: norm(n).replace("_combine_optional_field", "_combine_field"))},
    {"rule": "C11.identity_first", "name": "combine drops the identifier comparison", "module": P,
     "edit": lambda ctx: M.drop_if(ctx, f"{P}.combine", lambda n: "other_id != tx_id" in norm(n.test))},
    {"rule": "C11.fresh", "name": "finalize works on the caller's psbt", "module": P,
     "edit": lambda ctx: M.sub_expr(ctx, f"{P}.finalize", M.is_text("psbt = deepcopy(psbt)"), "pass")},
    {"rule": "C11.fresh", "name": "combine copies only the first operand", "module": P,
     "edit": lambda ctx: M.sub_expr(ctx, f"{P}.combine", M.is_text("psbts = deepcopy(list(psbts))"), "psbts = [deepcopy(psbts[0]), *psbts[1:]]")},
    {"rule": "C11.tx_untouched", "name": "finalize clears the sequence", "module": P,
     "edit": lambda ctx: M.sub_module_expr(ctx, P, lambda n: isinstance(n, ast.Constant) and n.value == "sequence" and isinstance(parent(n), ast.Set), '"sig_hash_type"')},
    {"rule": "C11.answer_check", "name": "answer check no longer verifies ecdsa signatures", "module": P,
     "edit": lambda ctx: M.drop_call_stmt(ctx, f"{P}.assert_signatures_only", "_assert_ecdsa_sigs_verify")},
    {"rule": "C11.new_sigs_verified", "name": "ecdsa signatures skipped wholesale when the request has any", "module": P,
     "edit": lambda ctx: M.sub_expr(ctx, f"{P}._assert_ecdsa_sigs_verify", M.is_text("request_in is not None and pub_key in request_in.partial_sigs"), "request_in is not None and request_in.partial_sigs")},
    {"rule": "C11.answer_check", "name": "global unknown no longer compared", "module": P,
     "edit": lambda ctx: M.drop_if(ctx, f"{P}.assert_signatures_only", lambda n: "returned.unknown" in norm(n.test))},
]
