"""C08 -- the script engine gives Bitcoin Core's verdict.

Interpreter equivalence over all programs is not decidable statically.
Decided: per-byte opcode classification of both dialects against a spec table
(by constant propagation of each byte through the dispatch chain); limits and
their comparison operators; flag names/bits and that every flag is consulted;
signature / public key / control block size rules; the error-class contract;
presence of a refusal for each structural Core script error.
"""

from __future__ import annotations

import ast

from sa import mutate as M
from sa.consts import UNKNOWN
from sa import pattern as PT
from sa.ctx import Ctx
from sa.effects import Raises
from sa.loader import AnalysisError, FuncInfo, call_name, norm, own_nodes, parent
from sa.ranges import atoms, has, has_bound, refusal_constraints
from sa.report import Report
from specs import script as SPEC

NOTES = ("C08: decides opcode classification (256 bytes x 2 dialects), limit constants and comparison operators, flag "
         "table, size rules for signatures/keys/control blocks, error class of refusals and presence of structural Core "
         "refusals; does not decide stack/number semantics of the handlers or check ordering inside CHECKSIG.")

ENG = "btclib.script.engine"
LEG = f"{ENG}.script"
TAP = f"{ENG}.tapscript"
OPS = f"{ENG}.script_op_codes"


# ---------------------------------------------------------------------------
def _dispatch_chain(fi: FuncInfo) -> tuple[ast.While, list[ast.stmt]]:
    loops = [n for n in fi.node.body if isinstance(n, ast.While)]
    if not loops:
        raise AnalysisError(f"{fi.qualname}: dispatch loop vanished")
    return loops[0], loops[0].body


def _arm_class(body: list[ast.stmt], op_var: str = "op") -> str:
    txt = " ".join(norm(s) for s in body)
    calls = {call_name(c) for s in body for c in ast.walk(s) if isinstance(c, ast.Call)}
    if "unknown_op_code" in calls:
        return "bad"
    if len(body) == 1 and isinstance(body[0], ast.Pass):
        return "nop"
    if "op_nop" in calls:
        return "upgradable"
    if calls & {"op_if", "op_notif", "op_else", "op_endif"}:
        return "control"
    if "encode_num" in calls and "int" in calls and "append" in calls and f"{op_var}[3:]" in txt:
        return "smallint"
    return "op"


def classify_code(ctx: Ctx, dialect: str) -> dict[int, str]:
    """Class of each byte as the code dispatches it (constant propagation of
    the byte through the loop body; nothing is executed)."""
    modq = LEG if dialect == "legacy" else TAP
    fi = ctx.func(f"{modq}._run_ops")
    mi = fi.module
    loop, body = _dispatch_chain(fi)
    names = ctx.const("btclib.script.script", "OP_CODE_NAME_FROM_INT") if dialect == "legacy" else ctx.const("btclib.script.op_codes_tapscript", "OP_CODE_NAMES")
    evaluated = ctx.const(LEG, "EVALUATED_WHEN_UNEXECUTED")
    disabled = ctx.const(LEG, "DISABLED_OP_CODES")
    success = ctx.const("btclib.script.op_codes_tapscript", "OP_SUCCESS")
    operations = ctx.const(modq, "OPERATIONS")
    if UNKNOWN in (names, evaluated, disabled, success, operations) or any(x is UNKNOWN for x in (names, evaluated, disabled, success, operations)):
        raise AnalysisError(f"{dialect}: dispatch tables do not fold")
    evaluated = set(evaluated)
    # locate the structural steps
    push_if = None
    skip_if = None
    chain = None
    calls_disabled = False
    byte_var = op_var = None
    for st in body:
        if isinstance(st, ast.If) and chain is None:
            pushes = [c for s_ in st.body for c in ast.walk(s_) if isinstance(c, ast.Call) and call_name(c) == "read_push_data"]
            if pushes and pushes[0].args and isinstance(pushes[0].args[0], ast.Name) and push_if is None:
                # the byte being dispatched is what the push reader is handed first
                push_if, byte_var = st, pushes[0].args[0].id
            elif push_if is not None and any(isinstance(s_, ast.Continue) for s_ in st.body) and skip_if is None:
                skip_if = st
            elif isinstance(st.test, ast.Compare) and len(st.test.ops) == 1:
                a_, b_ = st.test.left, st.test.comparators[0]
                if isinstance(a_, ast.Constant):
                    a_, b_ = b_, a_  # `"OP_X" == op` is `op == "OP_X"`
                if isinstance(a_, ast.Name) and isinstance(b_, ast.Constant) and isinstance(b_.value, str) and b_.value.startswith("OP_"):
                    chain, op_var = st, a_.id
        if isinstance(st, ast.Expr) and isinstance(st.value, ast.Call) and call_name(st.value) == "assert_not_disabled":
            calls_disabled = True
    if push_if is None or skip_if is None or chain is None:
        raise AnalysisError(f"{dialect}: push / skip / dispatch steps not found in _run_ops")
    # tapscript: the pre-scan refuses bytes that are neither pushes, OP_SUCCESS nor named
    out: dict[int, str] = {}
    for b in range(256):
        env = {byte_var: b}
        if ctx.fold(push_if.test, mi, env) is True:
            out[b] = "push"
            continue
        if dialect == "tapscript" and b in success:
            out[b] = "success"
            continue
        if dialect == "legacy" and calls_disabled and b in disabled:
            out[b] = "disabled"
            continue
        if b not in names:
            # legacy: op_code_name raises only when reached (executed); tapscript: the pre-scan refuses it anywhere
            out[b] = "bad_if_run" if dialect == "legacy" else "always_bad"
            if b in evaluated:
                out[b] = "always_bad"
            continue
        op = names[b]
        env = {byte_var: b, op_var: op, "OPERATIONS": operations}
        arm = None
        cur: ast.stmt | None = chain
        while isinstance(cur, ast.If):
            v = ctx.fold(cur.test, mi, env)
            if v is UNKNOWN:
                raise AnalysisError(f"{dialect}: dispatch test `{norm(cur.test)}` does not fold for byte {b}")
            if v:
                arm = cur.body
                break
            if len(cur.orelse) == 1 and isinstance(cur.orelse[0], ast.If):
                cur = cur.orelse[0]
            else:
                arm = cur.orelse
                break
        cls = _arm_class(arm or [], op_var)
        if cls == "bad":
            cls = "always_bad" if b in evaluated else "bad_if_run"
        elif cls == "control" and b not in evaluated:
            cls = "control_not_evaluated_when_skipped"
        out[b] = cls
    return out


KNOWN_OPCODE_DEVIATIONS: dict[tuple[str, int], str] = {}


def rule_opcodes(ctx: Ctx, rep: Report) -> None:
    """C08.opcodes: every byte is classified as Core classifies it, in both dialects."""
    rule = "C08.opcodes"
    for dialect in ("legacy", "tapscript"):
        code = classify_code(ctx, dialect)
        fi = ctx.func(f"{LEG if dialect == 'legacy' else TAP}._run_ops")
        for b in range(256):
            want = SPEC.opcode_class(b, dialect)
            got = code[b]
            rep.ob(rule, f"{dialect}:{b:#04x}", got == want, fi.where(),
                   f"{SPEC.NAMES.get(b, 'unassigned')}: {got}" if got == want else
                   f"{SPEC.NAMES.get(b, 'unassigned')}: the engine treats it as `{got}`, Core as `{want}`")
    # names
    for modname, tab, upto in (("btclib.script.script", "OP_CODE_NAME_FROM_INT", 186), ("btclib.script.op_codes_tapscript", "OP_CODE_NAMES", 187)):
        t = ctx.const(modname, tab)
        if not isinstance(t, dict):
            raise AnalysisError(f"{tab} does not fold")
        bad = {b: (t.get(b), SPEC.NAMES.get(b)) for b in set(t) | {k for k in SPEC.NAMES if k < upto} if t.get(b) != SPEC.NAMES.get(b)
               and not (modname.endswith("tapscript") and b in SPEC.OP_SUCCESS)}
        rep.ob(rule, f"names:{tab}", not bad, f"{ctx.module(modname).relpath}:1", f"name table equals Core's GetOpName ({len(t)} entries)" if not bad else f"differences {bad}")
    succ = ctx.const("btclib.script.op_codes_tapscript", "OP_SUCCESS")
    rep.ob(rule, "OP_SUCCESS", frozenset(succ) == SPEC.OP_SUCCESS, "btclib/script/op_codes_tapscript.py:1", "BIP342 OP_SUCCESS list")
    # the two handler tables differ only where BIP342 says
    lo, to = ctx.const(LEG, "OPERATIONS"), ctx.const(TAP, "OPERATIONS")
    d1, d2 = set(lo) - set(to), set(to) - set(lo)
    rep.ob(rule, "OPERATIONS:diff", d1 == {"OP_CHECKMULTISIGVERIFY"} and d2 == {"OP_CHECKSIGADD"}, ctx.func(f"{TAP}._run_ops").where(),
           f"legacy-only {sorted(d1)}, tapscript-only {sorted(d2)}")
    same = [k for k in set(lo) & set(to) if getattr(lo[k], "text", lo[k]).split(".")[-1] != getattr(to[k], "text", to[k]).split(".")[-1]]
    rep.ob(rule, "OPERATIONS:same_handlers", not same, ctx.func(f"{TAP}._run_ops").where(), f"shared names map to the same handler ({len(set(lo) & set(to))})" if not same else f"different handlers for {same}")
    # every handler named exists with the (stack, altstack, flags) signature
    for dialect, table, modq in (("legacy", lo, LEG), ("tapscript", to, TAP)):
        mi = ctx.module(modq)
        for name, ref in sorted(table.items()):
            node = getattr(ref, "node", None)
            tgt = ctx.prog.resolve_name(mi, node) if node is not None else None
            f = ctx.prog.functions.get(tgt or "")
            ok = f is not None and len(f.params()) == 3
            if not ok:
                rep.ob(rule, f"handler:{dialect}:{name}", False, f"{mi.relpath}:1", f"{getattr(ref, 'text', ref)} is not a (stack, altstack, flags) function")
    rep.floor(rule, 512)


# ---------------------------------------------------------------------------
def rule_limits(ctx: Ctx, rep: Report) -> None:
    """C08.limits: limit constants are Core's and are compared the way Core compares them."""
    rule = "C08.limits"
    for k, v in SPEC.LIMITS.items():
        got = ctx.const("btclib.script.limits", k)
        rep.ob(rule, f"const:{k}", got == v, "btclib/script/limits.py:1", f"{k} = {got!r} (Core: {v})")

    def row(q: str, what: str, pred) -> None:
        fi = ctx.func(q)
        cons = refusal_constraints(ctx, fi)
        c = pred(cons)
        rep.ob(rule, f"{q.rsplit('.', 1)[1]}:{what}", c is not None, fi.where(getattr(c, "node", None)),
               f"refuses when {c.show()}" if c is not None else f"no refusal for `{what}`; refusals: {[x.show() for x in cons][:8]}")

    row(f"{LEG}.verify_script", "script size > 10000", lambda cs: has_bound(cs, ">", 10000, subject_contains="len(script"))
    row(f"{LEG}.script_op_count", "op count > 201", lambda cs: has_bound(cs, ">", 201))
    row(f"{OPS}.assert_stack_size", "stack + altstack > 1000", lambda cs: has_bound(cs, ">", 1000, subject="len(stack) + len(altstack)") or has_bound(cs, ">", 1000, subject="len(altstack) + len(stack)"))
    row(f"{LEG}.assert_pub_key_num", "keys < 0", lambda cs: has_bound(cs, "<", 0))
    row(f"{LEG}.assert_pub_key_num", "keys > 20", lambda cs: has_bound(cs, ">", 20))
    row(f"{LEG}.assert_signature_num", "sigs < 0", lambda cs: has_bound(cs, "<", 0))
    row(f"{LEG}.assert_signature_num", "sigs > keys", lambda cs: has(cs, "signature_num", ">", "pub_key_num") or has(cs, None, ">", "pub_key_num", subject_contains="signature"))
    row(f"{OPS}._to_num", "number longer than max_size", lambda cs: has(cs, None, ">", "max_size", subject_contains="len("))
    row(f"{OPS}._to_num", "non-minimal number", lambda cs: next((c for c in cs if c.op == "!=" and "encode_num" in c.subject + c.value_text), None))
    row(f"{OPS}.read_push_data", "element over the limit", lambda cs: has(cs, None, ">", "element_size_limit"))
    # default element limit and number sizes
    rp = ctx.func(f"{OPS}.read_push_data")
    pa = rp.node.args
    kd = {a.arg: d for a, d in zip(pa.kwonlyargs, pa.kw_defaults) if d is not None}
    pos = pa.posonlyargs + pa.args
    kd.update({a.arg: d for a, d in zip(pos[len(pos) - len(pa.defaults):], pa.defaults)})
    dflt = ctx.fold(kd["element_size_limit"], rp.module) if "element_size_limit" in kd else UNKNOWN
    rep.ob(rule, "read_push_data:default_limit", dflt == 520, rp.where(), f"element_size_limit defaults to {dflt!r}")
    rep.ob(rule, "_MAX_NUM_SIZE", ctx.const(OPS, "_MAX_NUM_SIZE") == 4, f"{ctx.module(OPS).relpath}:1", f"_MAX_NUM_SIZE = {ctx.const(OPS, '_MAX_NUM_SIZE')!r}")
    for q in (f"{OPS}.op_checklocktimeverify", f"{OPS}.op_checksequenceverify"):
        fi = ctx.func(q)
        cs = [c for c in own_nodes(fi.node) if isinstance(c, ast.Call) and call_name(c) == "_to_num"]
        ok = bool(cs) and all(len(c.args) >= 3 and ctx.fold(c.args[2], fi.module) == 5 for c in cs)
        rep.ob(rule, f"{fi.name}:5_byte_numbers", ok, fi.where(), "reads its operand as a 5-byte number")
    # both dispatch loops: pushes are 1..78, the op count starts above OP_16
    for dialect, modq in (("legacy", LEG), ("tapscript", TAP)):
        fi = ctx.func(f"{modq}._run_ops")
        pushes = [c for c in own_nodes(fi.node) if isinstance(c, ast.Call) and call_name(c) == "read_push_data" and c.args and isinstance(c.args[0], ast.Name)]
        bv = pushes[0].args[0].id if pushes else "t"
        tests = [str(norm(n.test)) for n in own_nodes(fi.node) if isinstance(n, ast.If)]
        rep.ob(rule, f"{dialect}:push_range", f"0 < {bv} <= 78" in tests or f"1 <= {bv} <= 78" in tests or f"0 < {bv} < 79" in tests, fi.where(), "push opcodes are 0 < t <= 78")
    fi = ctx.func(f"{LEG}._run_ops")
    pushes = [c for c in own_nodes(fi.node) if isinstance(c, ast.Call) and call_name(c) == "read_push_data" and c.args and isinstance(c.args[0], ast.Name)]
    bv = pushes[0].args[0].id if pushes else "t"
    cnt = sorted([n for n in own_nodes(fi.node) if isinstance(n, ast.If) and len(n.body) == 1 and any(isinstance(c, ast.Call) and call_name(c) == "script_op_count" for s in n.body for c in ast.walk(s))
                  and bv in {x.id for x in ast.walk(n.test) if isinstance(x, ast.Name)}], key=lambda n: n.lineno)
    okc = bool(cnt) and any(str(a.subject) == bv and (a.op, a.value) in ((">", 96), (">=", 97)) for a in atoms(ctx, fi, cnt[0].test, True))
    rep.ob(rule, "legacy:op_count_above_OP_16", okc, fi.where(), "ops counted for t > 96, executed or not (before the skip)")
    if cnt:
        skip = [n for n in own_nodes(fi.node) if isinstance(n, ast.If) and "skip_execution" in norm(n.test) and any(isinstance(s, ast.Continue) for s in n.body)]
        rep.ob(rule, "legacy:op_count_before_skip", bool(skip) and cnt[0].lineno < skip[0].lineno, fi.where(), "counted before the unexecuted-branch skip")
    ms = [c for c in own_nodes(fi.node) if isinstance(c, ast.Call) and call_name(c) == "script_op_count" and len(c.args) == 2 and norm(c.args[1]) == "pub_key_num"]
    rep.ob(rule, "legacy:multisig_counts_keys", bool(ms), fi.where(), "CHECKMULTISIG adds the key count to the op count")
    # CLTV / CSV rows
    cl = refusal_constraints(ctx, ctx.func(f"{OPS}.op_checklocktimeverify"))
    T = SPEC.LOCKTIME_THRESHOLD
    fcl = ctx.func(f"{OPS}.op_checklocktimeverify")
    rep.ob(rule, "cltv:negative", has_bound(cl, "<", 0, subject="lock_time") is not None, fcl.where(), "negative operand refused")
    rep.ob(rule, "cltv:type_mismatch", all(has(cl, s, o, T) is not None for s, o in (("tx.lock_time", ">="), ("lock_time", "<"), ("lock_time", ">="), ("tx.lock_time", "<"))),
           fcl.where(), f"height/time mismatch around {T}")
    rep.ob(rule, "cltv:greater", has(cl, "lock_time", ">", "tx.lock_time") is not None, fcl.where(), "operand > tx.lock_time refused")
    rep.ob(rule, "cltv:final_sequence", has(cl, "tx.vin[i].sequence", "==", SPEC.SEQUENCE_FINAL) is not None, fcl.where(), "final sequence refused")
    fcs = ctx.func(f"{OPS}.op_checksequenceverify")
    cs_ = refusal_constraints(ctx, fcs)
    rep.ob(rule, "csv:negative", has_bound(cs_, "<", 0, subject="sequence") is not None, fcs.where(), "negative operand refused")
    rep.ob(rule, "csv:version", has_bound(cs_, "<", 2, subject="tx.version") is not None, fcs.where(), "tx.version < 2 refused")
    txts = [c.show() + " " + c.value_text for c in cs_]
    rep.ob(rule, "csv:disable_bit", any("1 << 31" in t and "truthy" in t for t in txts), fcs.where(), "input sequence disable flag (bit 31) refused")
    rep.ob(rule, "csv:type_bit", any("1 << 22" in t and "!=" in t for t in txts), fcs.where(), "type flag (bit 22) must agree")
    rep.ob(rule, "csv:masked_compare", any("65535" in c.subject and c.op == ">" and "65535" in c.value_text for c in cs_), fcs.where(), "masked values compared with >")
    gcs = ctx.cfg(fcs)
    ver = [n for t, pol, n in ctx.refusals(fcs) if "tx.version" in norm(t)]
    okn = bool(ver) and any("sequence & 1 << 31" == t and p is False for t, p in gcs.facts()[ver[0].id])
    rep.ob(rule, "csv:operand_disable_is_nop", okn, fcs.where(), "the relative-lock refusals apply only when the operand's bit 31 is clear")
    # tapscript sigops budget
    vt = ctx.func(f"{ENG}._verify_taproot")
    b0 = [n for n in own_nodes(vt.node) if isinstance(n, ast.Assign) and norm(n.targets[0]) == "budget"]
    rep.ob(rule, "tapscript:budget_start", bool(b0) and norm(b0[0].value) in ("50 + len(witness.serialize())", "len(witness.serialize()) + 50"), vt.where(), f"budget = {norm(b0[0].value) if b0 else None}")
    oc = ctx.func(f"{TAP}.op_checksig")
    dec = [n for n in own_nodes(oc.node) if isinstance(n, ast.AugAssign) and norm(n.target) == "budget" and isinstance(n.op, ast.Sub)]
    g = ctx.cfg(oc)
    okd = bool(dec) and ctx.fold(dec[0].value, oc.module) == 50 and any(p and _emptiness_subject(t) is not None for t, p in g.facts_at_ast(dec[0].value))
    rep.ob(rule, "tapscript:budget_per_sigop", okd, oc.where(), "50 per non-empty signature")
    rep.ob(rule, "tapscript:budget_exhausted", has_bound(refusal_constraints(ctx, oc), "<", 0, subject="budget") is not None, oc.where(), "refuses budget < 0")
    initial_stack_limits(ctx, rep, rule)


# ---------------------------------------------------------------------------
def _emptiness_subject(txt: str) -> str | None:
    """`x` if the fact text is a test of x being non-empty: `x`, `len(x) > 0`, `len(x) != 0`, `len(x) >= 1`, `x != b''`."""
    t = str(txt).replace(" ", "")
    try:
        e = ast.parse(t, mode="eval").body
    except SyntaxError:
        return None
    if isinstance(e, ast.Name):
        return e.id
    if isinstance(e, ast.Compare) and len(e.ops) == 1:
        l, op, r = e.left, e.ops[0], e.comparators[0]
        if isinstance(l, ast.Call) and isinstance(l.func, ast.Name) and l.func.id == "len" and isinstance(l.args[0], ast.Name) and isinstance(r, ast.Constant):
            if (isinstance(op, (ast.Gt, ast.NotEq)) and r.value == 0) or (isinstance(op, ast.GtE) and r.value == 1):
                return l.args[0].id
        if isinstance(l, ast.Name) and isinstance(op, ast.NotEq) and isinstance(r, ast.Constant) and r.value == b"":
            return l.id
    return None


def initial_stack_limits(ctx: Ctx, rep: Report, rule: str) -> None:
    """The 520-byte limit on the initial stack of a p2wsh / tapscript spend -- and not on the p2wsh witness script, its last element."""
    for q, what in ((f"{ENG}._verify_witness_v0", "p2wsh initial stack"), (f"{TAP}.verify_script_path_vc0", "tapscript initial stack")):
        fi = ctx.func(q)
        its: list[str] = []
        for c in refusal_constraints(ctx, fi):
            if c.op != "truthy" or c.node is None:
                continue
            for x in ast.walk(c.node):
                b_: dict[str, str] = {}
                if PT.match(PT.compile_("any((len($v) > MAX_SCRIPT_ELEMENT_SIZE for $v in $$it))"), x, b_) or PT.match(PT.compile_("max((len($v) for $v in $$it)) > MAX_SCRIPT_ELEMENT_SIZE"), x, b_):
                    its.append(b_.get("$$it", ""))
        ok = bool(its)
        if ok and "witness_v0" in fi.name:
            # the last element of a p2wsh witness is the witness script (up to 10 000 bytes): only what precedes it is held to 520
            from sa.canon import expand as _ex
            okx = any(_ex(fi, i).replace(" ", "").endswith("[:-1]") for i in its)
            rep.ob(rule, f"{fi.name}:witness_script_not_an_element", okx, fi.where(), "the 520-byte limit is on stack[:-1]: the witness script itself may be longer" if okx else
                   f"the 520-byte element limit is applied to {its}: a witness script of 521..10000 bytes, which BIP141 allows, is refused")
        rep.ob(rule, f"{fi.name}:initial_stack_520", ok, fi.where(), f"{what}: elements over 520 bytes refused")


def sigops_charge(ctx: Ctx, rep: Report, rule: str) -> None:
    """BIP342: every signature check with a *non-empty signature* costs 50 of
    the budget, whatever the public key is (an upgradable key type is charged
    too) and whether or not the signature verifies; an empty signature costs
    nothing. In op_checksig the charge is therefore guarded by the emptiness of
    the signature and by nothing else: under a key-size test an upgradable key
    is checked for free (Core: TAPSCRIPT_VALIDATION_WEIGHT not raised), under
    `is not None` an empty signature is charged and a 1-of-40 multi_a leaf the
    library built is refused."""
    fi = ctx.func(f"{TAP}.op_checksig")
    g = ctx.cfg(fi)
    charges = [n for n in own_nodes(fi.node) if isinstance(n, ast.AugAssign) and isinstance(n.op, ast.Sub) and isinstance(n.target, ast.Name)
               and n.target.id in fi.params() and isinstance(n.value, ast.Constant)]
    rep.ob(rule, "op_checksig:one_charge", len(charges) == 1 and charges[0].value.value == 50, fi.where(), f"{len(charges)} budget charge(s) of {[c.value.value for c in charges]} (BIP342: 50 per non-empty signature)")
    if len(charges) != 1:
        return
    ch = charges[0]
    # the two operands, in the order they are popped: the key, then the signature
    pops = [a for a in fi.node.body if isinstance(a, ast.Assign) and isinstance(a.value, ast.Call) and isinstance(a.value.func, ast.Attribute) and a.value.func.attr == "pop"
            and isinstance(a.targets[0], ast.Name)]
    if len(pops) < 2:
        rep.unknown(rule, "op_checksig:operands", fi.where(), "the two pops were not found")
        return
    key, sig = pops[0].targets[0].id, pops[1].targets[0].id
    facts = g.facts_at_ast(ch)
    pos = [(t, pol) for t, pol in facts if pol]
    on_sig = [t for t, pol in pos if _emptiness_subject(t) == sig]
    rep.ob(rule, "op_checksig:charged_iff_nonempty", bool(on_sig), fi.where(ch),
           f"the charge is under `{on_sig[0]}`" if on_sig else f"the charge is not under a test of the signature being non-empty (it holds under {sorted(str(t) for t, _ in pos)}): an empty signature is charged")
    other = [str(t) for t, pol in pos if _emptiness_subject(t) != sig]
    rep.ob(rule, "op_checksig:charged_whatever_the_key", not other, fi.where(ch),
           "no other condition on the charge" if not other else f"the charge also needs {other}: a non-empty signature beside another key type is checked for free")
    # the exhaustion test follows the charge, under the same guard
    # the refusal of an exhausted budget, however it is spelled (flipped, or behind a name): the range extractor reads all three
    cx = has_bound(refusal_constraints(ctx, fi), "<", 0, subject=ch.target.id)
    ex = [cx.node] if cx is not None and cx.node is not None else []
    okx = bool(ex) and getattr(ex[0], "lineno", 0) > ch.lineno and (cx.test_id < 0 or {t for t, pol in g.facts()[cx.test_id] if pol} >= set(on_sig))
    rep.ob(rule, "op_checksig:exhaustion", okx, fi.where(ex[0] if ex else ch), "refused when the budget falls below zero, right after the charge")
    rep.floor(rule, 4)


def rule_sigops_charge(ctx: Ctx, rep: Report) -> None:
    """C08.sigops_charge: the tapscript sigops budget is charged for every non-empty signature and for nothing else (see sigops_charge)."""
    sigops_charge(ctx, rep, "C08.sigops_charge")


def _eval_bool(e: ast.AST, env: dict[str, object]):
    """Evaluate a flag expression over a finite environment; raises KeyError on what it does not know."""
    if isinstance(e, ast.BoolOp):
        vals = [_eval_bool(v, env) for v in e.values]
        return all(vals) if isinstance(e.op, ast.And) else any(vals)
    if isinstance(e, ast.UnaryOp) and isinstance(e.op, ast.Not):
        return not _eval_bool(e.operand, env)
    if isinstance(e, ast.Constant):
        return e.value
    if isinstance(e, ast.Name):
        return env[e.id]
    if isinstance(e, (ast.Set, ast.Tuple, ast.List)):
        return {_eval_bool(x, env) for x in e.elts}
    if isinstance(e, ast.Compare) and len(e.ops) == 1:
        op, r = e.ops[0], e.comparators[0]
        if isinstance(op, (ast.In, ast.NotIn)) and isinstance(r, ast.Name) and r.id == "flags":
            v = env["flag:" + ast.unparse(e.left)]
            return v if isinstance(op, ast.In) else not v
        a, b = _eval_bool(e.left, env), _eval_bool(r, env)
        if isinstance(op, ast.Eq):
            return a == b
        if isinstance(op, ast.NotEq):
            return a != b
        if isinstance(op, ast.In):
            return a in b
        if isinstance(op, ast.NotIn):
            return a not in b
        if isinstance(op, ast.Is):
            return a is b
        if isinstance(op, ast.IsNot):
            return a is not b
        if a is None or b is None:
            raise KeyError("ordering of None")
        if isinstance(op, ast.Lt):
            return a < b
        if isinstance(op, ast.LtE):
            return a <= b
        if isinstance(op, ast.Gt):
            return a > b
        if isinstance(op, ast.GtE):
            return a >= b
    if isinstance(e, ast.BinOp) and isinstance(e.op, ast.BitAnd):
        # `flags & ScriptFlag.X` as a truth value
        for side in (e.left, e.right):
            if isinstance(side, ast.Name) and side.id == "flags":
                other = e.right if side is e.left else e.left
                return env["flag:" + ast.unparse(other)]
    raise KeyError(ast.unparse(e))


def rule_minimalif(ctx: Ctx, rep: Report) -> None:
    """C08.minimalif: the argument of OP_IF / OP_NOTIF must be empty or exactly
    01 in tapscript always (BIP342, consensus) and in witness v0 under the
    MINIMALIF policy flag; never in legacy scripts. The condition under which
    each of the two op codes refuses is evaluated over every (segwit version,
    flag) pair and compared with that table -- and so with its sibling."""
    from sa.canon import expand
    rule = "C08.minimalif"
    for name in ("op_if", "op_notif"):
        fi = ctx.func(f"{OPS}.{name}")
        tests = [i for i in own_nodes(fi.node) if isinstance(i, ast.If) and any(isinstance(x, ast.Raise) for x in i.body) and "not in" in norm(i.test) and "stack[-1]" in norm(i.test)]
        if len(tests) != 1:
            rep.ob(rule, f"{name}:refusal", False, fi.where(), f"{len(tests)} refusals of a non-minimal argument")
            continue
        text = str(expand(fi, tests[0].test))
        tree = ast.parse(text, mode="eval").body
        conj = tree.values if isinstance(tree, ast.BoolOp) and isinstance(tree.op, ast.And) else [tree]
        when = [c for c in conj if "stack[-1]" not in ast.unparse(c)]
        shape = [c for c in conj if "stack[-1]" in ast.unparse(c)]
        oks = len(shape) == 1 and ast.unparse(shape[0]).replace(" ", "") in ("stack[-1]notin{b'',b'\\x01'}", "stack[-1]notin{b'\\x01',b''}", "stack[-1]notin(b'',b'\\x01')")
        rep.ob(rule, f"{name}:minimal_forms", oks, fi.where(tests[0]), f"refuses what is neither empty nor 01: `{ast.unparse(shape[0]) if shape else text}`")
        bad = []
        try:
            for v in (None, -1, 0, 1, 2):
                for fl in (False, True):
                    env = {"segwit_version": v, "flag:ScriptFlag.MINIMALIF": fl}
                    got = all(bool(_eval_bool(c, env)) for c in when)
                    want = v == 1 or (v == 0 and fl)
                    if got != want:
                        bad.append(f"segwit_version={v}, MINIMALIF {'set' if fl else 'clear'}: enforced={got}, Core: {want}")
        except KeyError as e:
            rep.unknown(rule, f"{name}:table", fi.where(tests[0]), f"cannot evaluate {e} in `{text}`")
            continue
        rep.ob(rule, f"{name}:table", not bad, fi.where(tests[0]), "enforced in tapscript always, in witness v0 under MINIMALIF, never elsewhere (10 cases)" if not bad else "; ".join(bad[:3]))
    rep.floor(rule, 4)


def rule_strictenc_hashtypes(ctx: Ctx, rep: Report) -> None:
    """C08.strictenc_hashtypes: under STRICTENC the last byte of an ECDSA signature
    is one of Core's IsDefinedHashtypeSignature six -- ALL, NONE, SINGLE, each
    with or without ANYONECANPAY -- and the set fix_signature tests membership in
    folds to exactly those: taproot's SIGHASH_DEFAULT (0x00) is not among them."""
    rule = "C08.strictenc_hashtypes"
    fi = ctx.func(f"{ENG}.script.fix_signature")
    sets = []
    for i in own_nodes(fi.node):
        if isinstance(i, ast.If) and any(isinstance(x, ast.Raise) for x in i.body) and "STRICTENC" in norm(i.test):
            for c in ast.walk(i.test):
                if isinstance(c, ast.Compare) and isinstance(c.ops[0], ast.NotIn):
                    sets.append((c, ctx.fold(c.comparators[0], fi.module)))
    if len(sets) != 1 or not isinstance(sets[0][1], (set, frozenset)):
        rep.ob(rule, "fix_signature:set", False, fi.where(), f"the STRICTENC membership test was not found or does not fold: {[norm(c) for c, _ in sets]}")
        return
    c, v = sets[0]
    want = frozenset({1, 2, 3, 0x81, 0x82, 0x83})
    rep.ob(rule, "fix_signature:set", frozenset(v) == want, fi.where(c), "the six defined ECDSA hash types" if frozenset(v) == want else
           f"`{norm(c)}` admits {sorted(hex(x) for x in frozenset(v) - want)} and refuses {sorted(hex(x) for x in want - frozenset(v))} beyond Core's six: another verdict under STRICTENC")
    rep.floor(rule, 1)


def rule_key_encoding_always_judged(ctx: Ctx, rep: Report) -> None:
    """C08.key_encoding_always_judged: Core's EvalChecksigPreTapscript (and each
    round of OP_CHECKMULTISIG) runs CheckSignatureEncoding and then
    CheckPubKeyEncoding before it looks at whether the signature verifies, and
    an empty signature passes the first: the key's encoding is judged whatever
    the signature. In the legacy op_checksig no answer is returned on a path
    that has not been through check_pub_key -- an early `return False` for an
    empty signature makes `0 <05> CHECKSIG NOT` succeed under STRICTENC where
    Core says PUBKEYTYPE."""
    rule = "C08.key_encoding_always_judged"
    fi = ctx.func(f"{ENG}.script.op_checksig")
    g = ctx.cfg(fi)
    gate = [c for c in own_nodes(fi.node) if isinstance(c, ast.Call) and call_name(c) == "check_pub_key"]
    if not gate:
        rep.ob(rule, "op_checksig:gate", False, fi.where(), "check_pub_key is not called")
        return
    ids = [i for c in gate for i in g.nodes_containing(c)]
    n = 0
    for r in own_nodes(fi.node):
        if not isinstance(r, ast.Return):
            continue
        n += 1
        path = g.path_avoiding(g.nodes_containing(r), ids)
        rep.ob(rule, f"op_checksig:return@{n}", path is None, fi.where(r), "answered only after the key's encoding was judged" if path is None else
               f"`{norm(r)}` is reached without check_pub_key: the key's encoding is not judged on that path (Core judges it before the verdict, for an empty signature too)")
    rep.floor(rule, 3)


def rule_der_shape_only(ctx: Ctx, rep: Report) -> None:
    """C08.der_shape_only: Core's CheckSignatureEncoding judges the *shape* of a
    signature (IsValidSignatureEncoding: strict DER) and, under LOW_S, its s;
    whether r and s are in 1..n-1, or r an x-coordinate at all, is the
    verification's business, which answers false -- `<sig with r = 5> <key>
    CHECKSIG NOT` succeeds under DERSIG. fix_signature, which is the engine's
    CheckSignatureEncoding, therefore parses without validating the values
    (`check_validity=False`): a parse that validates turns a failed
    verification into a script error."""
    rule = "C08.der_shape_only"
    fi = ctx.func(f"{ENG}.script.fix_signature")
    n = 0
    for c in own_nodes(fi.node):
        if isinstance(c, ast.Call) and norm(c.func) == "Sig.parse":
            lax = any(k.arg == "strict" and isinstance(k.value, ast.Constant) and k.value.value is False for k in c.keywords)
            if lax:
                continue
            n += 1
            ok = any(k.arg == "check_validity" and isinstance(k.value, ast.Constant) and k.value.value is False for k in c.keywords)
            rep.ob(rule, "fix_signature:strict_parse", ok, fi.where(c), "the strict parse judges the encoding only" if ok else
                   f"`{norm(c)}` validates r and s as well as the encoding: a DER-valid signature with r or s out of range (or r no x-coordinate) ends the script under DERSIG/LOW_S/STRICTENC, where Core pushes false")
    rep.floor(rule, 1)


def rule_sticky_flags_(ctx: Ctx, rep: Report) -> None:
    """C08.sticky_flags: a flag raised inside a loop and read after it is accumulated, not overwritten (see sigcommon.rule_sticky_flags)."""
    from rules.sigcommon import rule_sticky_flags
    rule_sticky_flags(ctx, rep, "C08.sticky_flags", ('btclib.script',))


# ---------------------------------------------------------------------------
def rule_flags(ctx: Ctx, rep: Report) -> None:
    """C08.flags: the flag enum is Core's, and every flag is consulted by the engine."""
    rule = "C08.flags"
    mem = ctx.folder.enum_members(f"{ENG}.flags.ScriptFlag")
    where = "btclib/script/engine/flags.py:1"
    rep.ob(rule, "names", set(mem) == set(SPEC.FLAG_BITS) | SPEC.FLAG_BITS_18_20, where,
           f"missing {sorted((set(SPEC.FLAG_BITS) | SPEC.FLAG_BITS_18_20) - set(mem))}, extra {sorted(set(mem) - set(SPEC.FLAG_BITS) - SPEC.FLAG_BITS_18_20)}")
    for n, bit in SPEC.FLAG_BITS.items():
        rep.ob(rule, f"bit:{n}", mem.get(n) == 1 << bit, where, f"{n} = {mem.get(n)!r} (Core: 1 << {bit})")
    hi = {mem.get(n) for n in SPEC.FLAG_BITS_18_20}
    rep.ob(rule, "bits:18-20", hi == {1 << 18, 1 << 19, 1 << 20}, where, "the three taproot policy flags occupy bits 18..20")
    # every member is read somewhere in the engine package (a test, or a mask a test uses)
    used: dict[str, int] = {n: 0 for n in mem}
    for mi in ctx.prog.modules.values():
        if not (mi.name.startswith(ENG) or mi.name == "btclib.script.taproot") or mi.name == f"{ENG}.flags":
            continue
        for n in ast.walk(mi.tree):
            if isinstance(n, ast.Attribute) and isinstance(n.value, ast.Name) and n.value.id == "ScriptFlag" and n.attr in used:
                used[n.attr] += 1
    for n in sorted(mem):
        rep.ob(rule, f"consulted:{n}", used[n] > 0, where, f"referenced {used[n]} times in the engine" if used[n] else "a flag nobody consults is a rule nobody enforces")
    allf = ctx.module(f"{ENG}.flags").assigns.get("ALL_FLAGS")
    if allf:
        names = {x.attr for x in ast.walk(allf[0]) if isinstance(x, ast.Attribute) and isinstance(x.value, ast.Name) and x.value.id == "ScriptFlag"}
        rep.ob(rule, "ALL_FLAGS", names == SPEC.MANDATORY, where, f"ALL_FLAGS = {sorted(names)} (Core's consensus flags)")


# ---------------------------------------------------------------------------
def rule_sig_rules(ctx: Ctx, rep: Report) -> None:
    """C08.sig_rules: signature / public key / control block size rules (BIP341, BIP342)."""
    rule = "C08.sig_rules"
    gh = ctx.func(f"{TAP}.get_hashtype")
    cs = refusal_constraints(ctx, gh)
    ok = has(cs, "len(signature)", "not in", frozenset({64, 65})) is not None or \
        (has(cs, "len(signature)", "!=", 64) is not None and has(cs, "len(signature)", "!=", 65) is not None)
    rep.ob(rule, "taproot_sig_size", ok, gh.where(), "signature length must be 64 or 65" if ok else
           f"no refusal of a taproot signature whose length is neither 64 nor 65; refusals: {[c.show() for c in cs]}")
    g = ctx.cfg(gh)
    z = [c for c in cs if c.op == "==" and c.value == 0]
    okz = bool(z) and any("len(signature) == 65" == t and p for t, p in g.facts_at_ast(z[0].node))
    rep.ob(rule, "taproot_sig_explicit_default", okz, gh.where(), "a 65-byte signature with hash type 0 is refused")
    # every consumer obtains the hash type from get_hashtype before using signature[:64]
    for q in (f"{TAP}.verify_key_path", f"{TAP}.op_checksig"):
        fi = ctx.func(q)
        g2 = ctx.cfg(fi)
        ghc = ctx.calls_to(fi, "get_hashtype", last=True)
        ver = ctx.calls_to(fi, "ssa_verify", last=True)
        okp = bool(ghc) and bool(ver) and g2.path_avoiding([i for c in ver for i in g2.nodes_containing(c)], [i for c in ghc for i in g2.nodes_containing(c)]) is None
        rep.ob(rule, f"{fi.name}:size_checked_before_verify", okp, fi.where(), "get_hashtype dominates the signature verification")
    oc = ctx.func(f"{TAP}.op_checksig")
    ocs = refusal_constraints(ctx, oc)
    rep.ob(rule, "tapscript_pubkey_empty", has(ocs, "len(pub_key)", "==", 0) is not None or has(ocs, "pub_key", "falsy") is not None, oc.where(), "empty public key refused")
    tests = [norm(n.test) for n in own_nodes(oc.node) if isinstance(n, ast.If)]
    rep.ob(rule, "tapscript_pubkey_32", "len(pub_key) == 32" in tests, oc.where(), "32-byte keys are verified")
    rep.ob(rule, "tapscript_pubkey_unknown", has(ocs, "ScriptFlag.DISCOURAGE_UPGRADABLE_PUBKEYTYPE", "in") is not None, oc.where(), "other sizes: unknown key type (policy refusal only)")
    # control block
    co = ctx.func("btclib.script.taproot.check_output_pubkey")
    ccs = refusal_constraints(ctx, co, accept_return=("False",))
    mx = SPEC.TAPROOT_CONTROL_BASE_SIZE + SPEC.TAPROOT_CONTROL_NODE_SIZE * SPEC.TAPROOT_CONTROL_MAX_NODE_COUNT
    rep.ob(rule, "control_max", has_bound(ccs, ">", mx, subject="len(control)") is not None, co.where(), f"len(control) > {mx} refused")
    rep.ob(rule, "control_shape", any(c.subject == "len(control)" and c.op == "!=" and (c.value_text.split(" |")[0] == "33 + 32 * m" or c.value_text.split(" |")[0] == "32 * m + 33") for c in ccs), co.where(), "len(control) == 33 + 32m")
    from sa import pattern as PT_
    mm_: dict[str, str] = {}
    md = PT_.find(co.node, "$m = (len(control) - 33) // 32", mm_)
    rep.ob(rule, "control_m", md is not None, co.where(md), "m = (len(control) - 33) // 32")
    masks = {ctx.fold(n.right, co.module) for n in own_nodes(co.node) if isinstance(n, ast.BinOp) and isinstance(n.op, ast.BitAnd) and "control[0]" in norm(n.left)}
    rep.ob(rule, "control_masks", {0xFE, 1} <= masks, co.where(), f"leaf version mask and parity bit: {sorted(m for m in masks if isinstance(m, int))}")
    tu = ctx.func(f"{ENG}.taproot_unwrap_script")
    mk = {ctx.fold(n.right, tu.module) for n in own_nodes(tu.node) if isinstance(n, ast.BinOp) and isinstance(n.op, ast.BitAnd)}
    rep.ob(rule, "leaf_version_mask", 0xFE in mk, tu.where(), "leaf version = control[0] & 0xfe")
    vt = ctx.func(f"{ENG}._verify_taproot")
    rep.ob(rule, "leaf_version_c0", any(norm(n.test) == "leaf_version != 192" or norm(n.test) == "leaf_version != 0xC0" for n in own_nodes(vt.node) if isinstance(n, ast.If)), vt.where(), "only leaf version 0xc0 is executed")
    ga = ctx.func(f"{ENG}.taproot_get_annex")
    tests = [norm(n.test) for n in own_nodes(ga.node) if isinstance(n, ast.If)]
    rep.ob(rule, "annex", any("len(witness.stack) >= 2" in t and "b'P'" in t for t in tests), ga.where(), f"annex iff >= 2 elements and first byte 0x50: {tests}")
    # the engine refuses unless the control block proves the script
    r = [(norm(t), pol) for t, pol, _ in ctx.refusals(tu)]
    rep.ob(rule, "control_block_gate", any("check_output_pubkey" in t and pol is False for t, pol in r), tu.where(), "taproot_unwrap_script raises unless check_output_pubkey(...) is true")
    # legacy public key prefixes
    cp = ctx.func(f"{LEG}.check_pub_key")
    txt = PT.text(cp)
    rep.ob(rule, "check_pub_key", "33" in txt and "65" in txt and ("WITNESS_PUBKEYTYPE" in txt and "STRICTENC" in txt), cp.where(), "compressed 33 / uncompressed 65 rules under STRICTENC and WITNESS_PUBKEYTYPE")


# ---------------------------------------------------------------------------
STACK_INDEX_OK = {
    f"{ENG}.taproot_unwrap_script": "called by _verify_taproot only after len(stack) == 0 and == 1 were handled: at least two elements",
    f"{ENG}.verify_input:segwit_version": "is_segwit(script) holds, so the script just executed pushed a version and a program",
}


def rule_error_class(ctx: Ctx, rep: Report) -> None:
    """C08.error_class: a refusal is the library's script/value error, never an unrelated exception."""
    rule = "C08.error_class"
    R = Raises(ctx)
    for q in (f"{ENG}.verify_input", f"{ENG}.verify_transaction", f"{LEG}.verify_script", f"{TAP}.verify_script_path_vc0", f"{TAP}.verify_key_path"):
        fi = ctx.func(q)
        esc = {x for x in R.of(fi) if not (R.is_subclass(x, "btclib.exceptions.BTClibValueError") or R.is_subclass(x, "btclib.exceptions.BTClibTypeError"))}
        rep.ob(rule, f"{fi.qualname}:classes", not esc, fi.where(), "explicit raises are BTClibValueError (ScriptError) or a type error" if not esc else
               f"may raise {sorted(esc)}")
    # both interpreters convert IndexError (stack underflow) and BTClibValueError into ScriptError
    for q in (f"{LEG}.verify_script", f"{TAP}.verify_script_path_vc0"):
        fi = ctx.func(q)
        tries = [n for n in own_nodes(fi.node) if isinstance(n, ast.Try) and any(isinstance(c, ast.Call) and call_name(c) == "_run_ops" for s in n.body for c in ast.walk(s))]
        names = set()
        conv = True
        for t in tries:
            for h in t.handlers:
                for e in ((h.type.elts if isinstance(h.type, ast.Tuple) else [h.type]) if h.type is not None else []):
                    names.add(norm(e))
                rs = [r for r in ast.walk(h) if isinstance(r, ast.Raise)]
                conv &= bool(rs) and all(r.exc is not None and "ScriptError" in norm(r.exc) for r in rs)
        rep.ob(rule, f"{fi.qualname}:underflow_converted", {"IndexError", "BTClibValueError"} <= names and conv, fi.where(),
               f"_run_ops wrapped: {sorted(names)} -> ScriptError")
    # every op_* handler is reachable only through the two dispatch loops (so inside those wrappers)
    for mod in (OPS, TAP, LEG):
        mi = ctx.module(mod)
        for name, fi in sorted(mi.functions.items()):
            if not name.startswith("op_") or "." in name:
                continue
            pops = [c for c in own_nodes(fi.node) if (isinstance(c, ast.Call) and call_name(c) == "pop") or
                    (isinstance(c, ast.Subscript) and isinstance(c.slice, ast.UnaryOp))]
            if not pops:
                continue
            callers = ctx.callers(fi.qualname)
            ok = True
            for cf, call in callers:
                if cf.name in ("_run_ops",) or cf.name.startswith("op_"):
                    continue
                gf = ctx.cfg(cf)
                guarded = any(t == "stack" and p is True for t, p in gf.facts_at_ast(call))
                if not guarded:
                    ok = False
            rep.ob(rule, f"handler_callers:{fi.qualname}", ok, fi.where(),
                   "called only from the dispatch loops / other handlers, or under a non-empty-stack guard" if ok else f"called from {sorted({cf.qualname for cf, _ in callers})}: a stack underflow there is a bare IndexError")
    # stack subscripts outside the interpreters are guarded
    for q in (f"{ENG}.verify_input", f"{ENG}._verify_taproot", f"{ENG}._verify_witness_v0", f"{ENG}.taproot_unwrap_script", f"{ENG}.taproot_get_annex", f"{TAP}.verify_key_path"):
        fi = ctx.func(q)
        g = ctx.cfg(fi)
        for n in own_nodes(fi.node):
            if isinstance(n, ast.Subscript) and isinstance(n.ctx, ast.Load) and not isinstance(n.slice, ast.Slice) and isinstance(n.value, (ast.Name, ast.Attribute)) \
                    and ("stack" in norm(n.value)) and not isinstance(parent(n), ast.Subscript):
                idx = ctx.fold(n.slice, fi.module)
                if not isinstance(idx, int):
                    continue
                base = norm(n.value)
                facts = g.facts_at_ast(n)
                guarded = any((base in t or f"len({base})" in t) for t, _ in facts)
                key = f"{q}:{base}[{idx}]"
                if not guarded:
                    tab = STACK_INDEX_OK.get(q) or (STACK_INDEX_OK.get(f"{q}:segwit_version") if "is_segwit" in norm(_stmt(n)) else None)
                    if q == f"{TAP}.verify_key_path":
                        tab = "called by _verify_taproot with len(stack) == 1"
                    rep.ob(rule, key, tab is not None, fi.where(n), f"reviewed: {tab}" if tab else "stack subscript with no length guard: IndexError on a short stack")
                else:
                    rep.ob(rule, key, True, fi.where(n), "under a length / truthiness guard")
    # the callers' preconditions the table relies on
    vt = ctx.func(f"{ENG}._verify_taproot")
    g = ctx.cfg(vt)
    cu = ctx.calls_to(vt, "taproot_unwrap_script", last=True)
    facts = g.facts_at_ast(cu[0]) if cu else frozenset()
    rep.ob(rule, "_verify_taproot:unwrap_needs_two", (PT.fact(facts, "len(stack) == 0", False) and PT.fact(facts, "len(stack) == 1", False)) or PT.fact(facts, "len(stack) < 2", False) or PT.fact(facts, "len(stack) >= 2", True), vt.where(),
           "taproot_unwrap_script is reached only with at least two stack elements")
    # KeyError-freedom of the tapscript name lookup: pre-scan refuses unnamed bytes
    pr = ctx.func("btclib.script.taproot.parse")
    els = [n for n in own_nodes(pr.node) if isinstance(n, ast.Raise) and "unknown op code" in norm(n)]
    vs = ctx.func(f"{TAP}.verify_script_path_vc0")
    pre = ctx.calls_to(vs, "parse", last=True)
    run = ctx.calls_to(vs, "_run_ops", last=True)
    gv = ctx.cfg(vs)
    okk = bool(els) and bool(pre) and bool(run) and gv.path_avoiding([i for c in run for i in gv.nodes_containing(c)], [i for c in pre for i in gv.nodes_containing(c)]) is None
    rep.ob(rule, "tapscript:OP_CODE_NAMES_lookup_total", okk, vs.where(), "the pre-scan (taproot.parse) refuses a byte with no name before _run_ops subscripts OP_CODE_NAMES")
    rep.floor(rule, 20)


def _conj(test: ast.AST, pol: bool) -> list[tuple[str, bool]]:
    """A fact as literal conjuncts: `not a` -> (a, False); (a and b) true / (a or b) false split."""
    if isinstance(test, ast.UnaryOp) and isinstance(test.op, ast.Not):
        return _conj(test.operand, not pol)
    if isinstance(test, ast.BoolOp) and isinstance(test.op, ast.And) == pol:
        return [x for v in test.values for x in _conj(v, pol)]
    return [(norm(test), pol)]


def _stmt(n: ast.AST) -> ast.AST:
    while n is not None and not isinstance(n, ast.stmt):
        n = parent(n)
    return n


# ---------------------------------------------------------------------------
def rule_core_rows(ctx: Ctx, rep: Report) -> None:
    """C08.core_rows: each structural Core script error has a refusal in the engine."""
    rule = "C08.core_rows"
    vi = ctx.func(f"{ENG}.verify_input")
    g = ctx.cfg(vi)
    refs = ctx.refusals(vi)

    from sa.canon import expand, flag_locals
    p2sh_flags = flag_locals(vi, "'p2sh'")
    if len(p2sh_flags) != 1:
        raise AnalysisError(f"verify_input: the p2sh flag local is not recognised: {sorted(p2sh_flags)}")
    p2sh_name = next(iter(p2sh_flags))

    def find(what: str, pred) -> None:
        """pred(lits): lits = the refusing condition as (text, polarity) conjuncts, locals
        expanded to their definitions, the p2sh flag local spelled <p2sh>."""
        hit = []
        for t, pol, n in refs:
            lits = []
            for x, p in sorted(set(g.facts()[n.id]) | {(norm(t), pol)}):
                fa = g.fact_ast.get(x)
                if x == p2sh_name:
                    lits.append(("<p2sh>", p))
                    continue
                for sub, sp in (_conj(fa, p) if fa is not None else [(x, p)]):
                    lits.append(("<p2sh>" if sub == p2sh_name else expand(vi, sub), sp))
            if pred(lits):
                hit.append(n)
        rep.ob(rule, what, bool(hit), vi.where(hit[0].ast if hit else None), f"refusal `{norm(hit[0].ast)}`" if hit else f"no refusal in verify_input for {what}")

    def lit(lits, pol, *subs, no=()):
        return any(p == pol and all(s_ in x for s_ in subs) and not any(s_ in x for s_ in no) for x, p in lits)

    segwit = lambda L, pol: lit(L, pol, "is_segwit(")  # noqa: E731 -- "the script is a witness program"
    flag = lambda L: lit(L, True, "ScriptFlag.WITNESS in")  # noqa: E731
    find("WITNESS_MALLEATED", lambda L: flag(L) and segwit(L, True) and lit(L, True, "script_sig", no=("serialize", "is_segwit(")) and lit(L, False, "<p2sh>"))
    find("WITNESS_MALLEATED_P2SH", lambda L: flag(L) and segwit(L, True) and lit(L, True, "<p2sh>") and (lit(L, True, "script_sig", "!=", "serialize(") or lit(L, False, "script_sig", "==", "serialize(")))
    find("WITNESS_UNEXPECTED", lambda L: segwit(L, False) and lit(L, True, "script_witness"))
    find("CLEANSTACK", lambda L: lit(L, True, "ScriptFlag.CLEANSTACK in") and lit(L, True, "stack", no=("ScriptFlag",)))
    # BIP16: push-only is consensus for p2sh
    vp = ctx.calls_to(vi, "validate_push_only", last=True)
    okp = any(("p2sh" in " ".join(t for t, p in g.facts_at_ast(c) if p)) or any("'p2sh'" in t for t, p in g.facts_at_ast(c) if p) for c in vp)
    rep.ob(rule, "SIG_PUSHONLY(p2sh)", okp, vi.where(), "validate_push_only(script_sig) on the p2sh arm")
    w0 = ctx.func(f"{ENG}._verify_witness_v0")
    c0 = refusal_constraints(ctx, w0)
    rep.ob(rule, "WITNESS_PROGRAM_MISMATCH", any(c.op == "!=" and "sha256(" in str(c.subject) + str(c.value_text) and "payload" in str(c.subject) + str(c.value_text) for c in c0), w0.where(), "payload != sha256(witness script) refused")
    rep.ob(rule, "WITNESS_PROGRAM_WITNESS_EMPTY", any(c.op == "falsy" and c.subject == "stack" for c in c0), w0.where(), "empty p2wsh witness refused")
    rep.ob(rule, "CLEANSTACK(witness)", any(c.op == "truthy" and c.subject == "stack" for c in c0), w0.where(), "a witness script must leave exactly one element")
    wp = ctx.func(f"{ENG}._verify_witness_program")
    cp = refusal_constraints(ctx, wp)
    rep.ob(rule, "DISCOURAGE_UPGRADABLE_WITNESS_PROGRAM", any("DISCOURAGE_UPGRADABLE_WITNESS_PROGRAM" in c.subject for c in cp), wp.where(), "unknown witness versions refused under the flag")
    vt = ctx.func(f"{ENG}._verify_taproot")
    ct = refusal_constraints(ctx, vt)
    rep.ob(rule, "WITNESS_PROGRAM_WITNESS_EMPTY(taproot)", any(c.subject == "len(stack)" and c.op == "==" and c.value == 0 for c in ct), vt.where(), "empty taproot witness refused")
    rep.ob(rule, "DISCOURAGE_UPGRADABLE_TAPROOT_VERSION", any("DISCOURAGE_UPGRADABLE_TAPROOT_VERSION" in c.subject for c in ct), vt.where(), "unknown leaf versions refused under the flag")
    vs = ctx.func(f"{TAP}.verify_script_path_vc0")
    rep.ob(rule, "DISCOURAGE_OP_SUCCESS", any("DISCOURAGE_OP_SUCCESS" in c.subject for c in refusal_constraints(ctx, vs)), vs.where(), "OP_SUCCESS refused under the flag")
    oi = ctx.func(f"{OPS}.op_if")
    txt = PT.text(oi)
    rep.ob(rule, "MINIMALIF", "MINIMALIF" in txt and any(c.op == "not in" and c.value == frozenset({b"", b"\x01"}) for c in refusal_constraints(ctx, oi)), oi.where(), "IF/NOTIF operand must be empty or 0x01 (consensus in tapscript, flag in v0)")
    nf = ctx.func(f"{LEG}.assert_nullfail")
    gn = ctx.cfg(nf)
    rep.ob(rule, "NULLFAIL", any("any(signatures)" in norm(t) and pol and any("NULLFAIL" in x and p for x, p in gn.facts()[n.id]) for t, pol, n in ctx.refusals(nf)), nf.where(), "non-empty signature on a failed check refused under NULLFAIL")
    nd = ctx.func(f"{LEG}.assert_nulldummy")
    rep.ob(rule, "NULLDUMMY", any("NULLDUMMY" in norm(t) for t, pol, _ in ctx.refusals(nd)), nd.where(), "non-empty CHECKMULTISIG dummy refused under NULLDUMMY")
    po = ctx.func(f"{ENG}.validate_push_only")
    rep.ob(rule, "SIG_PUSHONLY:opcode_bound", has_bound(refusal_constraints(ctx, po), ">", 0x60) is not None, po.where(), "push-only means every opcode <= OP_16")
    sp = ctx.func(f"{ENG}._check_script_sig_policy")
    fl = {x.attr for x in own_nodes(sp.node) if isinstance(x, ast.Attribute) and isinstance(x.value, ast.Name) and x.value.id == "ScriptFlag"}
    rep.ob(rule, "SIGPUSHONLY+CONST_SCRIPTCODE", {"SIGPUSHONLY", "CONST_SCRIPTCODE"} <= fl, sp.where(), f"script_sig policy flags consulted: {sorted(fl)}")
    # IF / NOTIF are one rule: both calls take the same arguments, tapscript's with MINIMALIF as consensus
    for dialect, modq, want in (("legacy", LEG, "segwit_version"), ("tapscript", TAP, "1")):
        fi = ctx.func(f"{modq}._run_ops")
        ci_ = [c for c in own_nodes(fi.node) if isinstance(c, ast.Call) and call_name(c) == "op_if"]
        cn = [c for c in own_nodes(fi.node) if isinstance(c, ast.Call) and call_name(c) == "op_notif"]
        ok = len(ci_) == 1 and len(cn) == 1 and [norm(a) for a in ci_[0].args] == [norm(a) for a in cn[0].args] and norm(ci_[0].args[-1]) == want
        rep.ob(rule, f"MINIMALIF:{dialect}:if==notif", ok, fi.where(), f"op_if{tuple(norm(a) for a in ci_[0].args) if ci_ else ()} / op_notif{tuple(norm(a) for a in cn[0].args) if cn else ()}")
    # NULLFAIL looks at every signature of the failed check
    fi = ctx.func(f"{LEG}._run_ops")
    nfs = [c for c in own_nodes(fi.node) if isinstance(c, ast.Call) and call_name(c) == "assert_nullfail"]
    args = sorted(norm(c.args[2]) for c in nfs if len(c.args) >= 3)
    rep.ob(rule, "NULLFAIL:all_signatures", args == ["[signature]", "signatures"], fi.where(), f"assert_nullfail is handed {args} (every signature of the failed CHECKSIG / CHECKMULTISIG)")
    rep.floor(rule, 15)


def rule_params_forwarded_(ctx: Ctx, rep: Report) -> None:
    """C08.params_forwarded: a parameter is handed on to callees that have a parameter of the same name (see sigcommon.rule_params_forwarded)."""
    from rules.sigcommon import rule_params_forwarded
    rule_params_forwarded(ctx, rep, "C08.params_forwarded", ('btclib.script.engine',), 100)


def rule_f13_f14(ctx: Ctx, rep: Report) -> None:
    """C08.core_order: two orderings Core's interpreter fixes.
    (F13) ExecuteWitnessScript scans a tapscript for OP_SUCCESSx *before* the
    witness element size limit ("overrides everything, including stack element
    size limits"): the 520-byte refusal must not be reachable ahead of the
    OP_SUCCESS arm. (F14) CheckPubKeyEncoding under WITNESS_PUBKEYTYPE fails the
    script for every key that is not IsCompressedPubKey -- so that refusal sits
    ahead of every `return False` / `return <shape test>` of check_pub_key."""
    rule = "C08.core_order"
    vs = ctx.func(f"{TAP}.verify_script_path_vc0")
    g = ctx.cfg(vs)
    size = [n for t, pol, n in ctx.refusals(vs) if pol and any(
        PT.match(PT.compile_("any((len($v) > MAX_SCRIPT_ELEMENT_SIZE for $v in $$it))"), x, {}) for x in ast.walk(t))]
    succ = [n for n in g.nodes if n.kind == "test" and n.ast is not None and "OP_SUCCESS" in str(norm(n.ast)) and "DISCOURAGE" not in str(norm(n.ast))]
    if not size or not succ:
        rep.unknown(rule, "tapscript:op_success_before_element_size", vs.where(), "the OP_SUCCESS arm or the element size refusal is not in the shape this rule reads")
    else:
        early = g.path_avoiding([n.id for n in size], [n.id for n in succ])
        rep.ob(rule, "tapscript:op_success_before_element_size", early is None, vs.where(size[0].ast),
               "the OP_SUCCESS scan precedes the 520-byte element limit" if early is None else
               "the 520-byte witness element limit is applied before the OP_SUCCESS scan: a tapscript with an OP_SUCCESS and an oversize witness element is refused where Core accepts")
    cp = ctx.func(f"{LEG}.check_pub_key")
    g2 = ctx.cfg(cp)
    wp = [n for t, pol, n in ctx.refusals(cp) if any("WITNESS_PUBKEYTYPE" in str(x) for x, p_ in list(g2.facts()[n.id]) + [(norm(t), pol)])]
    rets = [n for n in g2.nodes if n.kind == "stmt" and isinstance(n.ast, ast.Return)]
    if not wp:
        rep.ob(rule, "check_pub_key:witness_pubkeytype", False, cp.where(), "no refusal under WITNESS_PUBKEYTYPE")
    else:
        # every return reachable under (segwit and WITNESS_PUBKEYTYPE) must be behind the refusal's test
        asked = [m.id for m in g2.nodes if m.kind == "test" and any(m.stmt is w.stmt for w in wp)]  # every leaf of the refusing `if`
        skipped = [r for r in rets if g2.path_avoiding([r.id], asked) is not None
                   and not (isinstance(r.ast.value, ast.Constant) and r.ast.value.value is True)]
        # a return ahead of the test is fine only if it answers for a well-formed compressed key
        rep.ob(rule, "check_pub_key:witness_pubkeytype_first", not skipped, cp.where(skipped[0].ast if skipped else wp[0].ast),
               "no verdict on the key's shape is given before WITNESS_PUBKEYTYPE has been asked" if not skipped else
               f"`{norm(skipped[0].ast)}` answers for a malformed key before WITNESS_PUBKEYTYPE is asked: in a witness v0 script the CHECKSIG fails quietly where Core fails the script")
        ok_shape = any(PT.match(PT.compile_("len(pub_key) == 33"), x, {}) for n in g2.nodes if n.ast is not None for x in ast.walk(n.ast) if isinstance(x, ast.Compare))
        rep.ob(rule, "check_pub_key:compressed_shape", ok_shape, cp.where(), "compressed = 33 octets behind 0x02 / 0x03")


def rule_foreign_errors(ctx: Ctx, rep: Report) -> None:
    """C08.foreign_errors: "a refusal is always the library's script error and
    never an unrelated exception" -- the two places the engine hands a key and
    a signature to libsecp256k1 catch the bindings' plain ValueError (a key of
    legal shape that is not on the curve) and answer False, as the Python arm
    does. C04's handler-coverage rule, read for the script package."""
    from rules import C04
    tmp = Report("C04", rep.tier)
    tmp.quiet = True
    C04.rule_no_foreign_escape(ctx, tmp)
    n = 0
    for o in tmp.obs:
        if o.instance.startswith("btclib.script."):
            n += 1
            rep.ob("C08.foreign_errors", o.instance, o.held, o.site, o.detail)
    rep.floor("C08.foreign_errors", 2)


def rule_sighash_messages(ctx: Ctx, rep: Report) -> None:
    """C08.sighash_messages: the engine's verdict on a signature is the verdict on
    the message it hashes: the BIP341 / BIP143 / legacy case splits of C09 and
    the annex handling are reported here too -- two parts of the taproot message
    written in the other order refuse every annex-carrying SIGHASH_SINGLE spend
    Core accepts."""
    from rules import C09
    n = 0
    for fn, name in ((C09.rule_bip341, "bip341"), (C09.rule_bip143, "bip143"), (C09.rule_annex_whole, "annex_whole")):
        tmp = Report("C09", rep.tier)
        tmp.quiet = True
        fn(ctx, tmp)
        for o in tmp.obs:
            n += 1
            rep.ob("C08.sighash_messages", f"{name}:{o.instance}", o.held, o.site, o.detail)
    rep.floor("C08.sighash_messages", 20)


RULES = [
    ("C08.sighash_messages", rule_sighash_messages),

    ("C08.sticky_flags", rule_sticky_flags_),
    ("C08.der_shape_only", rule_der_shape_only),
    ("C08.key_encoding_always_judged", rule_key_encoding_always_judged),
    ("C08.strictenc_hashtypes", rule_strictenc_hashtypes),
    ("C08.sigops_charge", rule_sigops_charge),
    ("C08.minimalif", rule_minimalif),
    ("C08.foreign_errors", rule_foreign_errors),
    ("C08.core_order", rule_f13_f14),
    ("C08.params_forwarded", rule_params_forwarded_),
    ("C08.opcodes", rule_opcodes),
    ("C08.limits", rule_limits),
    ("C08.flags", rule_flags),
    ("C08.sig_rules", rule_sig_rules),
    ("C08.error_class", rule_error_class),
    ("C08.core_rows", rule_core_rows),
]

CONTROLS = [
    {"rule": "C08.core_order", "name": "the element size limit is applied before the OP_SUCCESS scan (F13)", "module": TAP,
     "edit": lambda ctx: M.sub_expr(ctx, f"{TAP}.verify_script_path_vc0", lambda n: isinstance(n, ast.Assign) and "parse(script_bytes" in norm(n.value),
                                    "if any(len(x) > MAX_SCRIPT_ELEMENT_SIZE for x in stack):\n        raise BTClibValueError('early')\n    script = parse(script_bytes, exit_on_op_success=True)")},
    {"rule": "C08.core_order", "name": "a malformed key is answered False before WITNESS_PUBKEYTYPE is asked (F14)", "module": LEG,
     "edit": lambda ctx: M.sub_expr(ctx, f"{LEG}.check_pub_key", lambda n: isinstance(n, ast.Expr) and "assert_type(segwit" in norm(n),
                                    "assert_type(segwit, bool, 'segwit')\n    if not pub_key or pub_key[0] not in {2, 3, 4, 6, 7}:\n        return False")},
    {"rule": "C08.foreign_errors", "name": "the engine's ECDSA arm catches the library's ValueError only", "module": LEG,
     "edit": lambda ctx: M.sub_expr(ctx, f"{LEG}.dsa_verify", lambda n: isinstance(n, ast.ExceptHandler) and norm(n.type) == "ValueError", lambda n: norm(n).replace("except ValueError", "except BTClibValueError", 1))},
    {"rule": "C08.opcodes", "name": "OP_CAT re-enabled by dropping it from the disabled set", "module": LEG,
     "edit": lambda ctx: M.sub_module_expr(ctx, LEG, lambda n: isinstance(n, ast.Constant) and n.value == "OP_CAT", '"OP_SIZE"')},
    {"rule": "C08.opcodes", "name": "tapscript OP_SUCCESS list loses 0x50", "module": "btclib.script.op_codes_tapscript",
     "edit": lambda ctx: M.sub_module_expr(ctx, "btclib.script.op_codes_tapscript", lambda n: isinstance(n, ast.Constant) and n.value == 80 and isinstance(parent(n), ast.List), "81")},
    {"rule": "C08.limits", "name": "stack limit compared with >=", "module": OPS,
     "edit": lambda ctx: M.sub_expr(ctx, f"{OPS}.assert_stack_size", lambda n: isinstance(n, ast.Compare), lambda n: norm(n).replace(">", ">="))},
    {"rule": "C08.limits", "name": "CSV compares unmasked sequences", "module": OPS,
     "edit": lambda ctx: M.sub_expr(ctx, f"{OPS}.op_checksequenceverify", lambda n: isinstance(n, ast.Compare) and "65535" in norm(n), "sequence > tx.vin[i].sequence")},
    {"rule": "C08.flags", "name": "NULLFAIL no longer consulted", "module": LEG,
     "edit": lambda ctx: M.sub_expr(ctx, f"{LEG}.assert_nullfail", lambda n: isinstance(n, ast.Compare) and "NULLFAIL" in norm(n), "False")},
    {"rule": "C08.sig_rules", "name": "taproot signature size unchecked", "module": TAP,
     "edit": lambda ctx: M.drop_if(ctx, f"{TAP}.get_hashtype", lambda n: "not in" in norm(n.test))},
    {"rule": "C08.error_class", "name": "tapscript no longer converts IndexError", "module": TAP,
     "edit": lambda ctx: M.sub_expr(ctx, f"{TAP}.verify_script_path_vc0", lambda n: isinstance(n, ast.ExceptHandler) and "IndexError" in norm(n.type), lambda n: norm(n).replace("IndexError", "KeyError", 1))},
    {"rule": "C08.core_rows", "name": "tapscript NOTIF loses consensus MINIMALIF", "module": TAP,
     "edit": lambda ctx: M.sub_expr(ctx, f"{TAP}._run_ops", lambda n: isinstance(n, ast.Call) and call_name(n) == "op_notif", "script_op_codes.op_notif(stack, condition_stack, flags, 0)")},
    {"rule": "C08.core_rows", "name": "p2sh-wrapped witness malleation accepted", "module": ENG,
     "edit": lambda ctx: M.drop_if(ctx, f"{ENG}.verify_input", lambda n: "serialize" in norm(n.test) and "p2sh" in norm(n.test))},
]
