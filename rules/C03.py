"""C03 -- BIP340 Schnorr: sign, verify and batch-verify agree with the BIP.

Values are not decided. Decided: r is held to be an x-coordinate (a field
element) and s to [0, n) before any use, for single and batch verification
(every member); zero challenges are refused; the batch coefficients cannot
be zero; wrappers are total; the codec layout.
"""

from __future__ import annotations

import ast

from sa import mutate as M
from sa import pattern as PT
from sa.ctx import Ctx
from sa.layout import ints, read_atoms, write_atoms
from sa.loader import call_name, norm, own_nodes, parent
from sa.ranges import has, has_bound, refusal_constraints
from sa.report import Report
from rules.sigcommon import rule_bool_total, rule_config_forwarded, rule_normalise

NOTES = ("C03: decides the r/s/x range refusals and that they dominate every use (every batch member included), zero-"
         "challenge refusals, the non-zero batch coefficient, totality of the wrappers and the 64-byte codec; the BIP340 "
         "equation, nonce derivation bytes and batch <=> conjunction are not decided.")
S = "btclib.ecc.ssa"
CV = "btclib.curves.curve"


def rule_sig_range(ctx: Ctx, rep: Report) -> None:
    """C03.sig_range: r lifts to a point (so r in [0, p)), s in [0, n)."""
    rule = "C03.sig_range"
    fi = ctx.func(f"{S}.Sig.assert_valid")
    cs = refusal_constraints(ctx, fi)
    rep.ob(rule, "s>=0", has_bound(cs, "<", 0, subject="self.s") is not None, fi.where(), "s < 0 refused")
    rep.ob(rule, "s<n", has(cs, "self.s", ">=", "self.ec.n") is not None, fi.where(), "s >= n refused" )
    r = [c for c in cs if c.op == "falsy" and "_is_x_coordinate_var(self.r" in c.subject]
    rep.ob(rule, "r_is_x_coordinate", bool(r), fi.where(), "refuses unless _is_x_coordinate_var(self.r, ec)")
    ix = ctx.func(f"{CV}._is_x_coordinate_var")
    ci = refusal_constraints(ctx, ix, accept_return=("False",))
    okx = has_bound(ci, "<", 0, subject="x") is not None and has(ci, "x", ">=", "ec.p") is not None
    rep.ob(rule, "x_in_field(python arm)", okx, ix.where(), "x outside [0, p) answers False")
    xo = ctx.func(f"{CV}._x_octets")
    tests = [norm(n.test) for n in own_nodes(xo.node) if isinstance(n, ast.If)]
    rep.ob(rule, "x_in_field(delegated arm)", any("0 <= x < ec.p" in t for t in tests), xo.where(), "octets are made only for 0 <= x < p")
    xb = ctx.func(f"{S}._x_only_bytes")
    cb = refusal_constraints(ctx, xb)
    rep.ob(rule, "_x_only_bytes", has_bound(cb, "<", 0, subject="x") is not None and has(cb, "x", ">=", "ec.p") is not None, xb.where(), "a public key x outside [0, p) refused")
    init = ctx.func(f"{S}.Sig.__init__")
    kd = {a.arg: d for a, d in zip(init.node.args.kwonlyargs, init.node.args.kw_defaults) if d is not None}
    rep.ob(rule, "ctor_validates_by_default", "check_validity" in kd and ctx.fold(kd["check_validity"], init.module) is True, init.where(), "check_validity defaults to True")


def rule_normalise_(ctx: Ctx, rep: Report) -> None:
    """C03.normalise: single verification validates the signature first; batch
    verification validates every member and refuses malformed batches."""
    rule = "C03.normalise"
    rule_normalise(ctx, rep, rule, [S], 2)
    b = ctx.func(f"{S}.assert_batch_as_valid_")
    g = ctx.cfg(b)
    sig_p = b.params()[2]
    loops = [n for n in own_nodes(b.node) if isinstance(n, ast.For) and norm(n.iter) == sig_p and len(n.body) == 1
             and isinstance(n.body[0], ast.Expr) and isinstance(n.body[0].value, ast.Call) and norm(n.body[0].value.func) == f"{norm(n.target)}.assert_valid"]
    acc = [n for n in own_nodes(b.node) if isinstance(n, ast.For) and "zip(" in norm(n.iter)]
    ok = bool(loops) and bool(acc)
    if ok:
        hdr = [m.id for m in g.nodes if m.kind == "for" and m.ast is loops[0]]
        tg = [m.id for m in g.nodes if m.kind == "for" and m.ast is acc[0]]
        ok = g.path_avoiding(tg, hdr) is None
    rep.ob(rule, "batch:every_member_validated", ok, b.where(), "`for sig in sigs: sig.assert_valid()` dominates the accumulation loop" if ok else "a batch member's r/s are used unvalidated")
    cs = refusal_constraints(ctx, b)
    rep.ob(rule, "batch:empty_refused", any(c.subject == "batch_size" and c.op == "==" and c.value == 0 for c in cs), b.where(), "an empty batch is refused")
    rep.ob(rule, "batch:lengths", sum(1 for c in cs if c.op == "!=" and c.value_text.startswith("batch_size")) >= 2, b.where(), "msgs and sigs must be as many as the keys")
    rep.ob(rule, "batch:one_curve", any("sig.ec != ec" in c.subject for c in cs), b.where(), "mixed curves refused")
    z = [n for n in acc if "strict=True" in norm(n.iter)] if acc else []
    rep.ob(rule, "batch:zip_strict", bool(z), b.where(), "the accumulation zips strictly")
    # size 1 delegates to the single verification
    one = [c for c in own_nodes(b.node) if isinstance(c, ast.Call) and call_name(c) == "assert_as_valid_"]
    rep.ob(rule, "batch:size_one", bool(one) and any(t == "batch_size == 1" and p for t, p in g.facts_at_ast(one[0])), b.where(), "a batch of one is the single verification")
    # public keys are range-checked in the loop
    rep.ob(rule, "batch:keys_checked", any(isinstance(c, ast.Call) and call_name(c) == "_x_only_bytes" for n in acc for c in ast.walk(n)), b.where(), "each key's x is range-checked")


def rule_challenge_nonzero(ctx: Ctx, rep: Report) -> None:
    """C03.challenge_nonzero: a zero challenge is refused where it is made and where it is used."""
    rule = "C03.challenge_nonzero"
    for q in (f"{S}.challenge_", f"{S}._sign_"):
        fi = ctx.func(q)
        g = ctx.cfg(fi)
        hits = [n for t, pol, n in ctx.refusals(fi) if norm(t) == "c == 0" and pol]
        ok = bool(hits) and g.must_pass([h.id for h in hits]) is None
        rep.ob(rule, fi.name, ok, fi.where(), "c == 0 refused on every path to a return" if ok else "a zero challenge can be returned / signed with")
    ch = ctx.func(f"{S}.challenge_")
    tag = [c for c in own_nodes(ch.node) if isinstance(c, ast.Call) and call_name(c) == "tagged_hash"]
    rep.ob(rule, "challenge_:tag", bool(tag) and ctx.fold(tag[0].args[0], ch.module) == b"BIP0340/challenge", ch.where(), "tag BIP0340/challenge")
    w = ints(write_atoms(ctx, ch))
    order = [a.subject for a in w]
    rep.ob(rule, "challenge_:order", order[:2] == [ch.params()[2], ch.params()[1]] and all(a.endian == "big" and a.signed is False for a in w), ch.where(),
           f"bytes(R.x) || bytes(P.x) || m : {order}")


def rule_batch_coeff(ctx: Ctx, rep: Report) -> None:
    """C03.batch_coeff: the random batch coefficient is in [1, n-1]; it is 1 only for the first member."""
    rule = "C03.batch_coeff"
    b = ctx.func(f"{S}.assert_batch_as_valid_")
    rd = [n for n in own_nodes(b.node) if isinstance(n, ast.Assign) and norm(n.targets[0]) == "rand"]
    ok = False
    detail = "no `rand` definition"
    if rd:
        v = rd[0].value
        detail = norm(v)
        if isinstance(v, ast.IfExp):
            ok = norm(v.test) == "i == 0" and ctx.fold(v.body, b.module) == 1 and norm(v.orelse) in ("1 + secrets.randbelow(ec.n - 1)", "secrets.randbelow(ec.n - 1) + 1")
    rep.ob(rule, "coefficient", ok, b.where(), f"rand = {detail}" + ("" if ok else ": a coefficient that can be 0 removes a member from the conjunction"))
    uses = [n for n in own_nodes(b.node) if isinstance(n, ast.Call) and call_name(n) == "append" and "rand" in norm(n)]
    rep.ob(rule, "coefficient_used", len(uses) >= 2 and any("rand * c % ec.n" in norm(u) for u in uses), b.where(), "a_i and a_i*e_i enter the multi-scalar product")
    acc = [n for n in own_nodes(b.node) if isinstance(n, ast.AugAssign) and norm(n.target) == "t"]
    rep.ob(rule, "s_accumulated", bool(acc) and norm(acc[0].value) in ("rand * sig.s", "sig.s * rand"), b.where(), "t += a_i * s_i")


def rule_bool(ctx: Ctx, rep: Report) -> None:
    """C03.bool_total: verify / batch_verify wrappers answer False, never raise."""
    rule_bool_total(ctx, rep, "C03.bool_total", [f"{S}.verify_", f"{S}.verify", f"{S}.batch_verify_", f"{S}.batch_verify"])
    # the python arm's post-sign check converts its failure to the runtime class
    sg = ctx.func(f"{S}.sign_")
    ck = ctx.prog.functions.get(f"{S}.sign_._checked")
    ok = ck is not None and any(isinstance(r, ast.Raise) and "BTClibRuntimeError" in norm(r) for r in own_nodes(ck.node))
    rep.ob("C03.bool_total", "sign_._checked:runtime_class", ok, (ck or sg).where(), "a failed post-sign check raises BTClibRuntimeError")


def rule_codec(ctx: Ctx, rep: Report) -> None:
    """C03.codec: 64 bytes, r then s, big-endian unsigned; exact length; no trailing bytes."""
    rule = "C03.codec"
    ci = ctx.cls(f"{S}.Sig")
    w, r = ints(write_atoms(ctx, ci.methods["serialize"])), ints(read_atoms(ctx, ci.methods["parse"]))
    rep.ob(rule, "serialize", [a.subject for a in w] == ["self.r", "self.s"] and all(a.endian == "big" and a.signed is False for a in w), ci.methods["serialize"].where(), f"{[(a.subject, a.show()) for a in w]}")
    p = ci.methods["parse"]
    mp: dict[str, str] = {}
    sol = PT.solve(p.node, ["$buf = $st.read(_REQUIRED_LENGTH)", "$r = int.from_bytes($buf[:$ec.p_size], byteorder='big', signed=False)",
                            "$s = int.from_bytes($buf[$ec.p_size:], byteorder='big', signed=False)"], mp)
    if sol:
        mp = sol[1]
    ctor = [c for c in own_nodes(p.node) if isinstance(c, ast.Call) and norm(c.func) == "cls" and len(c.args) >= 2]
    okc = bool(sol) and bool(ctor) and [norm(a) for a in ctor[0].args[:2]] == [mp.get("r"), mp.get("s")]
    rep.ob(rule, "parse", okc and len(r) == 2 and all(a.endian == "big" and a.signed is False for a in r), p.where(), "r = first p_size bytes, s = the rest, big-endian unsigned, handed to the constructor in that order")
    rep.ob(rule, "length", ctx.const(S, "_REQUIRED_LENGTH") == 64, "btclib/ecc/ssa.py:1", "_REQUIRED_LENGTH = 64")
    sl = [norm(n) for n in own_nodes(p.node) if isinstance(n, ast.Subscript) and norm(n.value) == mp.get("buf", "sig_bin")]
    rep.ob(rule, "parse:slices", len(sl) == 2, p.where(), f"the 64 bytes are sliced exactly twice: {sorted(sl)}")


def rule_signer_config(ctx: Ctx, rep: Report) -> None:
    """C03.signer_config: the Signer hands its own curve and hash function to every function it delegates to."""
    rule_config_forwarded(ctx, rep, "C03.signer_config", f"{S}.Signer", {"_ec": "ec", "_hf": "hf"}, 3)


def rule_verify_range(ctx: Ctx, rep: Report) -> None:
    """C03.verify_range: "False otherwise" -- the key and r that the challenge
    writes with a fixed-width to_bytes are range-checked before it on every
    path (the lift `_y_even_var` is that check on the Python arm); else an
    out-of-range key is an OverflowError instead of an answer."""
    from rules.C19 import rule_to_bytes_range
    rule_to_bytes_range(ctx, rep, "C03.verify_range", only_module=S, floor=3)


def rule_signer_arm(ctx: Ctx, rep: Report) -> None:
    """C03.signer_arm: a Signer signs on the arm its state was laid out for at
    construction (key in the bindings' buffer, or as an int): it never asks the
    dispatch predicate again, whose answer is process-wide state that may have
    moved -- else the signature depends on that state and not on (key, message)."""
    from rules.C04 import token_reask
    token_reask(ctx, rep, "C03.signer_arm", S)
    rep.floor("C03.signer_arm", 2)


def rule_dispatch_hf(ctx: Ctx, rep: Report) -> None:
    """C03.dispatch_hf: every dispatch in the module asks the bindings predicate
    with the hash function the caller named -- BIP340's tagged hashes inside libsecp256k1 are SHA256: a signature asked under another hash function is the Python arm's."""
    from rules.C04 import predicate_hf
    predicate_hf(ctx, rep, "C03.dispatch_hf", S)
    rep.floor("C03.dispatch_hf", 3)


def rule_own_fields(ctx: Ctx, rep: Report) -> None:
    """C03.own_fields: an object hands its own fields to the functions it delegates to (see sigcommon.rule_own_fields_forwarded)."""
    from rules.sigcommon import rule_own_fields_forwarded
    rule_own_fields_forwarded(ctx, rep, "C03.own_fields", ('btclib.ecc.ssa',), 3)


def rule_params_forwarded_(ctx: Ctx, rep: Report) -> None:
    """C03.params_forwarded: a parameter is handed on to callees that have a parameter of the same name (see sigcommon.rule_params_forwarded)."""
    from rules.sigcommon import rule_params_forwarded
    rule_params_forwarded(ctx, rep, "C03.params_forwarded", ('btclib.ecc.ssa',), 30)


def rule_terms_multiset(ctx: Ctx, rep: Report) -> None:
    """C03.terms_multiset: the terms of a sum are one per seat, never deduplicated (see sigcommon.rule_terms_are_a_multiset)."""
    from rules.sigcommon import rule_terms_are_a_multiset
    rule_terms_are_a_multiset(ctx, rep, "C03.terms_multiset", ('btclib.curves.curve', 'btclib.ecc.ssa'), 2)


def rule_aux_in_commitment(ctx: Ctx, rep: Report) -> None:
    """C03.aux_in_commitment: with a sign-to-contract commitment the auxiliary
    randomness still counts: what replaces `aux` is the hash of aux *and* the
    commitment. Built from the commitment alone, every (message, key,
    commitment) has one signature whatever aux the caller gave -- not the
    signature the documented derivation defines for that aux."""
    rule = "C03.aux_in_commitment"
    fi = ctx.func(f"{S}.sign_")
    calls = [c for c in own_nodes(fi.node) if isinstance(c, ast.Call) and call_name(c) == "commit_entropy_" and c.args]
    if not calls:
        rep.unknown(rule, "sign_", fi.where(), "no commit_entropy_ call")
        return
    for c in calls:
        names = {x.id for x in ast.walk(c.args[0]) if isinstance(x, ast.Name)}
        ok = "aux" in names and "commit_hash" in names
        rep.ob(rule, "sign_:commit_entropy_(aux || commitment)", ok, fi.where(c), "aux and the commitment are hashed together" if ok else
               f"the committing nonce input is `{norm(c.args[0])[:60]}`: {'aux' if 'aux' not in names else 'the commitment'} does not enter it")


def rule_length_dispatch_(ctx: Ctx, rep: Report) -> None:
    """C03.length_dispatch: a branch on the length of an admitted key names one of the admitted sizes (see sigcommon.rule_length_dispatch)."""
    from rules.sigcommon import rule_length_dispatch
    rule_length_dispatch(ctx, rep, "C03.length_dispatch", ("btclib.ecc.ssa", "btclib.ecc.bip340_nonce", "btclib.curves"), 1)


def rule_nonce_preimage(ctx: Ctx, rep: Report) -> None:
    """C03.nonce_preimage: BIP340's nonce preimage is t || bytes(P) || m: the
    masked key, the public key's x at the width of a field element (ec.p_size,
    32 on secp256k1), and the message, in this order. The three parts are read
    off the join in `_bip340_nonce_`; the x-coordinate is recognised as the
    parameter that is neither the message, the key that is xor-ed, nor aux."""
    rule = "C03.nonce_preimage"
    fi = ctx.func("btclib.ecc.bip340_nonce._bip340_nonce_")
    joins = [c for c in own_nodes(fi.node) if isinstance(c, ast.Call) and isinstance(c.func, ast.Attribute) and c.func.attr == "join" and c.args and isinstance(c.args[0], (ast.List, ast.Tuple))]
    if len(joins) != 1 or len(joins[0].args[0].elts) != 3:
        rep.unknown(rule, "shape", fi.where(), "the three-part join was not found")
        return
    p0, p1, p2 = joins[0].args[0].elts
    params = fi.params()

    def tb(e):
        return (e.func.value, e.args[0] if e.args else next((k.value for k in e.keywords if k.arg == "length"), None)) \
            if isinstance(e, ast.Call) and isinstance(e.func, ast.Attribute) and e.func.attr == "to_bytes" else (None, None)
    r1, w1 = tb(p1)
    ok1 = isinstance(r1, ast.Name) and r1.id in params and w1 is not None and str(norm(w1)).replace(" ", "") == f"{params[4]}.p_size"
    rep.ob(rule, "bytes(P)", ok1, fi.where(p1), f"the second part is `{norm(p1)[:60]}`" + ("" if ok1 else ": the x-coordinate of the public key is not written at the field width ec.p_size"))
    r0, w0 = tb(p0)
    from sa.canon import expand
    ok0 = r0 is not None and "^" in str(expand(fi, r0))
    rep.ob(rule, "t", ok0, fi.where(p0), f"the first part is the xor-masked key `{norm(p0)[:50]}`")
    ok2 = isinstance(p2, ast.Name) and p2.id == params[0]
    rep.ob(rule, "m", ok2, fi.where(p2), f"the third part is the message `{norm(p2)}`")
    rep.floor(rule, 3)


def rule_config_not_replaced_(ctx: Ctx, rep: Report) -> None:
    """C03.config_not_replaced: the curve / hash function / network a function takes is handed on as its own, never replaced by a module constant (see sigcommon.rule_config_not_replaced)."""
    from rules.sigcommon import rule_config_not_replaced
    rule_config_not_replaced(ctx, rep, "C03.config_not_replaced", ('btclib.ecc.ssa', 'btclib.ecc.bip340_nonce', 'btclib.hashes'), 1)


def rule_hash_params_(ctx: Ctx, rep: Report) -> None:
    """C03.hash_params: a `..._hash` parameter is handed a digest, never the caller's text as it came (see sigcommon.rule_hash_params)."""
    from rules.sigcommon import rule_hash_params
    rule_hash_params(ctx, rep, "C03.hash_params", ('btclib.ecc.ssa', 'btclib.ecc.bip340_nonce', 'btclib.hashes'), 1)


def rule_tagged_hash_layout(ctx: Ctx, rep: Report) -> None:
    """C03.tagged_hash_layout: BIP340's tagged hash is hf(hf(tag) || hf(tag) || m):
    the tag digest *twice*, whatever the hash function, then the message. The
    bytes fed to the second hash before the message are the first hash's digest
    added to itself (or times the constant 2) -- a count computed from the
    block size is 2 for sha256 and 3 for sha1, and every signature, nonce and
    challenge under that hash changes."""
    rule = "C03.tagged_hash_layout"
    fi = ctx.func("btclib.hashes.tagged_hash")
    ups = sorted([c for c in own_nodes(fi.node) if isinstance(c, ast.Call) and isinstance(c.func, ast.Attribute) and c.func.attr == "update" and c.args], key=lambda c: c.lineno)
    if len(ups) < 3:
        rep.unknown(rule, "tagged_hash", fi.where(), f"{len(ups)} update calls")
        return
    first_obj = norm(ups[0].func.value)
    second = [u for u in ups if norm(u.func.value) != first_obj]
    digests = {a.targets[0].id for a in own_nodes(fi.node) if isinstance(a, ast.Assign) and isinstance(a.targets[0], ast.Name) and isinstance(a.value, ast.Call) and isinstance(a.value.func, ast.Attribute)
               and a.value.func.attr == "digest" and norm(a.value.func.value) == first_obj}
    e = second[0].args[0] if second else None
    ok = False
    if isinstance(e, ast.BinOp) and isinstance(e.op, ast.Add):
        ok = isinstance(e.left, ast.Name) and isinstance(e.right, ast.Name) and e.left.id == e.right.id and e.left.id in digests
    elif isinstance(e, ast.BinOp) and isinstance(e.op, ast.Mult):
        nm, k = (e.left, e.right) if isinstance(e.left, ast.Name) else (e.right, e.left)
        ok = isinstance(nm, ast.Name) and nm.id in digests and isinstance(k, ast.Constant) and k.value == 2
    rep.ob(rule, "tagged_hash:prefix", ok, fi.where(second[0] if second else None), "hf(tag) || hf(tag)" if ok else f"the prefix is `{norm(e) if e is not None else None}`, not the tag digest twice")
    okm = len(second) >= 2 and isinstance(second[1].args[0], ast.Name) and second[1].args[0].id == fi.params()[1]
    rep.ob(rule, "tagged_hash:message", okm, fi.where(), "then the message")
    okt = isinstance(ups[0].args[0], ast.Name) and ups[0].args[0].id == fi.params()[0]
    rep.ob(rule, "tagged_hash:tag", okt, fi.where(ups[0]), "the first hash is of the tag")
    rep.floor(rule, 3)


def rule_point_coordinates_unreduced_(ctx: Ctx, rep: Report) -> None:
    """C03.point_coordinates_unreduced: no pair is built from a point's coordinates with the x reduced mod n (see sigcommon.rule_point_coordinates_unreduced)."""
    from rules.sigcommon import rule_point_coordinates_unreduced
    rule_point_coordinates_unreduced(ctx, rep, "C03.point_coordinates_unreduced", ('btclib.ecc', 'btclib.curves'))


def rule_commitment_absent_is_none(ctx: Ctx, rep: Report) -> None:
    """C03.commitment_absent_is_none: in sign-to-contract the committed value and the
    receipt are optional, and absent means None: the empty octets are a value
    like any other (the signer commits to them and hands a receipt back). The
    functions of ssa.py and dsa.py decide their presence with `is None` / `is
    not None`, never by truthiness -- `if not commit_hash` makes the verifier
    refuse the receipt the signer just issued for b\"\"."""
    rule = "C03.commitment_absent_is_none"
    names = {"commit_hash", "commit", "receipt"}
    n = 0
    for q, fi in sorted(ctx.prog.functions.items()):
        if not (q.startswith("btclib.ecc.ssa.") or q.startswith("btclib.ecc.dsa.")):
            continue
        mine = names & set(fi.params())
        if not mine:
            continue
        for t in own_nodes(fi.node):
            tests: list[ast.AST] = []
            if isinstance(t, (ast.If, ast.IfExp, ast.While)):
                tests = [t.test]
            elif isinstance(t, ast.BoolOp):
                tests = list(t.values)
            for e in tests:
                inner = e.operand if isinstance(e, ast.UnaryOp) and isinstance(e.op, ast.Not) else e
                if isinstance(inner, ast.Name) and inner.id in mine:
                    n += 1
                    rep.ob(rule, f"{q}:{norm(e)}", False, fi.where(e), f"`{norm(e)}` reads the empty octets as no `{inner.id}` at all: a commitment to b\"\" is signed and then refused, or silently not checked")
                elif isinstance(inner, ast.Compare) and isinstance(inner.left, ast.Name) and inner.left.id in mine and isinstance(inner.ops[0], (ast.Is, ast.IsNot)):
                    n += 1
                    rep.ob(rule, f"{q}:{norm(inner)}", True, fi.where(e), "presence decided by `is None`")
    rep.floor(rule, 6)


def rule_commitment_hashed_by_both_sides(ctx: Ctx, rep: Report) -> None:
    """C03.commitment_hashed_by_both_sides: the hash-first spellings (`sign`, `verify`,
    `assert_as_valid`, of ssa.py and dsa.py) take the committed value itself
    and hand its digest to the `_` functions: whatever is passed as
    `commit_hash=` there is `reduce_to_hlen(commit, hf)` -- or None for no
    commitment -- on every path and for every length of `commit`. A signer
    that skips the hash for a value already one digest long commits to
    another value than the verifier opens."""
    rule = "C03.commitment_hashed_by_both_sides"
    n = 0
    for q, fi in sorted(ctx.prog.functions.items()):
        if not (q.startswith("btclib.ecc.ssa.") or q.startswith("btclib.ecc.dsa.")) or "commit" not in fi.params():
            continue

        def hashed(e: ast.AST) -> bool:
            if isinstance(e, ast.Call) and call_name(e) == "reduce_to_hlen" and e.args and isinstance(e.args[0], ast.Name) and e.args[0].id == "commit":
                return True
            if isinstance(e, ast.IfExp):
                return all(hashed(x) or (isinstance(x, ast.Constant) and x.value is None) for x in (e.body, e.orelse))
            return False

        for c in own_nodes(fi.node):
            if not isinstance(c, ast.Call):
                continue
            for k in c.keywords:
                if k.arg != "commit_hash":
                    continue
                n += 1
                v = k.value
                if isinstance(v, ast.Name):
                    defs = [a for a in own_nodes(fi.node) if (isinstance(a, ast.Assign) and any(isinstance(t, ast.Name) and t.id == v.id for t in a.targets))
                            or (isinstance(a, (ast.AugAssign, ast.AnnAssign)) and isinstance(a.target, ast.Name) and a.target.id == v.id)]
                    bad = [a for a in defs if not (isinstance(a, ast.Assign) and hashed(a.value))]
                    ok = bool(defs) and not bad
                    shown = norm(bad[0]) if bad else norm(v)
                else:
                    ok = hashed(v)
                    shown = norm(v)
                rep.ob(rule, f"{q}:{call_name(c)}", ok, fi.where(c), "the digest of `commit`, always" if ok else
                       f"`{shown[:70]}` is handed on as the commitment's digest without being `reduce_to_hlen(commit, hf)`: the other side hashes every `commit`, whatever its length")
    rep.floor(rule, 4)


def rule_stream_param_untouched_(ctx: Ctx, rep: Report) -> None:
    """C03.stream_param_untouched: `Sig.parse` takes exactly the 64 octets: what
    tells octets (trailing bytes refused) from the caller's stream (left where
    it is) is the argument's own type, seen by both helpers as the caller
    gave it (sigcommon.stream_param_untouched, ecc package)."""
    from rules import sigcommon
    sigcommon.rule_stream_param_untouched(ctx, rep, "C03.stream_param_untouched", ("btclib.ecc.",), 3)


def rule_preimages_take_values_whole(ctx: Ctx, rep: Report) -> None:
    """C03.preimages_take_values_whole: what BIP340's challenge and the sign-to-contract
    tweak hash is the caller's octets as they are, after the fixed-width
    fields: `x_K || x_Q || msg` and `R || commit_hash`. The value expressions
    of `ssa.challenge_` and `commit_nonce._tweak` (locals inlined, normal
    form) have the converted parameter itself in that place -- not a digest
    of it above some length, not a padded copy: either makes two different
    inputs one preimage, or the batch verifier disagree with the bindings."""
    from sa import values as VX
    rule = "C03.preimages_take_values_whole"
    ch = ctx.func("btclib.ecc.ssa.challenge_")
    vx = VX.of(ch)
    ok = vx.anywhere("tagged_hash(b'BIP0340/challenge', b''.join([$$k, $$q, bytes_from_octets(msg)]), hf)") or \
        vx.anywhere("tagged_hash(b'BIP0340/challenge', $$k + $$q + bytes_from_octets(msg), hf)") or \
        vx.anywhere("tagged_hash(b'BIP0340/challenge', b''.join(($$k, $$q, bytes_from_octets(msg))), hf)")
    rep.ob(rule, "ssa.challenge_:msg", ok, ch.where(), "x_K || x_Q || msg, the message as it is" if ok else
           "the challenge preimage does not end in the caller's message as it is: a rewritten message is another challenge than BIP340's, and than the bindings'")
    tw = ctx.func("btclib.ecc.commit_nonce._tweak")
    vx = VX.of(tw)
    ok = vx.anywhere("bytes_from_point(receipt, ec) + bytes_from_octets(commit_hash)") or vx.anywhere("b''.join([bytes_from_point(receipt, ec), bytes_from_octets(commit_hash)])")
    rep.ob(rule, "commit_nonce._tweak:commit_hash", ok, tw.where(), "R || commit_hash, the committed value as it is" if ok else
           "the tweak preimage does not end in the committed value as it is: a padded or rewritten value lets one receipt open for several values")
    rep.floor(rule, 2)


RULES = [
    ("C03.preimages_take_values_whole", rule_preimages_take_values_whole),

    ("C03.stream_param_untouched", rule_stream_param_untouched_),

    ("C03.commitment_hashed_by_both_sides", rule_commitment_hashed_by_both_sides),

    ("C03.commitment_absent_is_none", rule_commitment_absent_is_none),

    ("C03.point_coordinates_unreduced", rule_point_coordinates_unreduced_),

    ("C03.tagged_hash_layout", rule_tagged_hash_layout),
    ("C03.config_not_replaced", rule_config_not_replaced_),
    ("C03.hash_params", rule_hash_params_),

    ("C03.length_dispatch", rule_length_dispatch_),
    ("C03.nonce_preimage", rule_nonce_preimage),
    ("C03.aux_in_commitment", rule_aux_in_commitment),
    ("C03.terms_multiset", rule_terms_multiset),
    ("C03.params_forwarded", rule_params_forwarded_),
    ("C03.own_fields", rule_own_fields),
    ("C03.dispatch_hf", rule_dispatch_hf),
    ("C03.signer_arm", rule_signer_arm),
    ("C03.signer_config", rule_signer_config),
    ("C03.verify_range", rule_verify_range),
    ("C03.sig_range", rule_sig_range),
    ("C03.normalise", rule_normalise_),
    ("C03.challenge_nonzero", rule_challenge_nonzero),
    ("C03.batch_coeff", rule_batch_coeff),
    ("C03.bool_total", rule_bool),
    ("C03.codec", rule_codec),
]

CONTROLS = [
    {"rule": "C03.dispatch_hf", "name": "sign_ asks the bindings without the hash function", "module": S,
     "edit": lambda ctx: M.sub_expr(ctx, f"{S}.sign_", lambda n: isinstance(n, ast.Call) and call_name(n) == "_libsecp256k1_serves" and len(n.args) == 2, "_libsecp256k1_serves(ec, None)")},
    {"rule": "C03.signer_config", "name": "Signer.sign_ falls back without its hash function", "module": S,
     "edit": lambda ctx: M.sub_expr(ctx, f"{S}.Signer.sign_", lambda n: isinstance(n, ast.Call) and call_name(n) == "sign_" and len(n.args) >= 5,
                                    "sign_(msg, self._q, aux, self._ec, verify=verify)")},
    {"rule": "C03.verify_range", "name": "the lift no longer precedes the challenge", "module": S,
     "edit": lambda ctx: M.sub_expr(ctx, f"{S}.assert_as_valid_", M.is_text("y_Q = _y_even_var(x_Q, sig.ec)"), "y_Q = 0")},
    {"rule": "C03.signer_arm", "name": "Signer.sign_ asks the predicate again", "module": S,
     "edit": lambda ctx: M.sub_expr(ctx, f"{S}.Signer.sign_", M.is_text("self._signer is None"), "not _libsecp256k1_serves(self._ec, self._hf)")},
    {"rule": "C03.sig_range", "name": "s may equal n", "module": S,
     "edit": lambda ctx: M.sub_expr(ctx, f"{S}.Sig.assert_valid", M.is_text("0 <= self.s < self.ec.n"), "0 <= self.s <= self.ec.n")},
    {"rule": "C03.normalise", "name": "batch members not validated", "module": S,
     "edit": lambda ctx: M.sub_expr(ctx, f"{S}.assert_batch_as_valid_", lambda n: isinstance(n, ast.Expr) and norm(n) == "sig.assert_valid()", "pass")},
    {"rule": "C03.challenge_nonzero", "name": "zero challenge returned", "module": S,
     "edit": lambda ctx: M.drop_if(ctx, f"{S}.challenge_", lambda n: norm(n.test) == "c == 0")},
    {"rule": "C03.batch_coeff", "name": "coefficient may be zero", "module": S,
     "edit": lambda ctx: M.sub_expr(ctx, f"{S}.assert_batch_as_valid_", M.is_text("1 + secrets.randbelow(ec.n - 1)"), "secrets.randbelow(ec.n)")},
    {"rule": "C03.bool_total", "name": "batch_verify_ catches ValueError only", "module": S,
     "edit": lambda ctx: M.sub_expr(ctx, f"{S}.batch_verify_", lambda n: isinstance(n, ast.Tuple) and "BTClibRuntimeError" in norm(n), "ValueError")},
    {"rule": "C03.codec", "name": "s parsed from the wrong offset", "module": S,
     "edit": lambda ctx: M.sub_expr(ctx, f"{S}.Sig.parse", M.is_text("sig_bin[ec.p_size:]"), "sig_bin[ec.n_size - 1:]")},
]
