"""C16 -- interactive protocols complete: honest parties always agree.

Agreement is a value property: not decided. Decided: both sides of each
protocol derive their shared quantities through the same function (call
graph); MAC is verified before the caller's decryptor runs; partial and
aggregate signatures are stored only past a successful verification; range
refusals of BIP327 contributions; the proof predicates are total.
"""

from __future__ import annotations

import ast

from sa import mutate as M
from sa import pattern as PT
from sa import values as VX
from sa.consts import UNKNOWN
from sa.ctx import Ctx
from sa.effects import Raises
from sa.loader import AnalysisError, call_name, norm, own_nodes, parent
from sa.ranges import has, has_bound, refusal_constraints
from sa.report import Report

NOTES = ("C16: decides single-implementation of shared derivations, MAC-then-decrypt, verify-before-store in the BIP373 "
         "roles, BIP327 range refusals, totality of the proof predicates; that honest parties end in agreement (MuSig2 "
         "aggregation, ECDH equality, DLEQ soundness) is arithmetic and is not decided.")
SP = "btclib.silent_payments"
PM = "btclib.psbt.musig2"
MU = "btclib.ecc.musig2"
EC = "btclib.ecc.ecies"


def rule_ecies_order(ctx: Ctx, rep: Report) -> None:
    """C16.ecies_order: the MAC is verified before anything is decrypted."""
    rule = "C16.ecies_order"
    d = ctx.func(f"{EC}.decrypt")
    g = ctx.cfg(d)
    mac = [c for c in own_nodes(d.node) if isinstance(c, ast.Call) and call_name(c) == "assert_valid_mac" and ctx.unconditional(g, c)]
    dec = [c for c in own_nodes(d.node) if isinstance(c, ast.Call) and isinstance(c.func, ast.Name) and c.func.id == d.params()[2]]
    ok = bool(mac) and bool(dec) and g.path_avoiding([i for c in dec for i in g.nodes_containing(c)], [i for c in mac for i in g.nodes_containing(c)]) is None
    rep.ob(rule, "decrypt:mac_first", ok, d.where(), "assert_valid_mac dominates the call of the caller's decrypt_f" if ok else "the ciphertext is handed to decrypt_f before (or without) the MAC check")
    if mac:
        rep.ob(rule, "decrypt:mac_key", norm(mac[0].args[0]) == "key_m", d.where(), "the MAC is checked with the derived MAC key")
    am = ctx.func(f"{EC}.Envelope.assert_valid_mac")
    r = [(norm(t), pol) for t, pol, _ in ctx.refusals(am)]
    rep.ob(rule, "mac:constant_time_refusal", any("hmac.compare_digest(" in t and pol is False for t, pol in r), am.where(), "raises unless hmac.compare_digest(mac, recomputed)")
    dk = ctx.func(f"{EC}.derive_keys")
    rep.ob(rule, "derive_keys:one_source", len(ctx.callers(f"{EC}.derive_keys")) >= 2, dk.where(), f"encrypt and decrypt both derive (iv, key_e, key_m) through derive_keys ({len(ctx.callers(f'{EC}.derive_keys'))} call sites)")


def rule_sp_shared(ctx: Ctx, rep: Report) -> None:
    """C16.sp_shared: sender and scanner derive t_k, the input hash and the shared secret through one function each."""
    rule = "C16.sp_shared"
    pairs = [
        ("_output_tweak", [f"{SP}.output_key", f"{SP}.scan_outputs"]),
        ("_input_hash_", [f"{SP}.input_hash", f"{SP}.tweak_data"]),
        ("shared_secret", [f"{SP}.output_keys", f"{SP}.scan_outputs"]),
        ("label_tweak", [f"{SP}.labeled_address_from_keys", f"{SP}.label_lookup"]),
    ]
    for callee, users in pairs:
        for u in users:
            fi = ctx.func(u)
            rep.ob(rule, f"{fi.name}->{callee}", bool(ctx.calls_to(fi, f"{SP}.{callee}")), fi.where(), f"calls {callee}")
    # no second implementation of the tagged hashes
    for tagname, owner in (("_SHARED_SECRET_TAG", "_output_tweak"), ("_INPUTS_TAG", "_input_hash_"), ("_LABEL_TAG", "label_tweak")):
        users = {fi.name for fi in ctx.module(SP).functions.values() for n in own_nodes(fi.node) if isinstance(n, ast.Name) and n.id == tagname}
        if not users:
            continue
        rep.ob(rule, f"{tagname}:one_user", users == {owner}, f"{ctx.module(SP).relpath}:1", f"tag used by {sorted(users)}")
    ps = ctx.func(f"{SP}.prv_key_sum")
    txt = PT.text(ps)
    neg = False
    for i_ in own_nodes(ps.node):
        if isinstance(i_, ast.If):
            t_ = norm(VX.normal(i_.test))
            if "is_p2tr(" in t_ and "% 2" in t_ and "mult(" in t_ and any(isinstance(a_, ast.Assign) and VX.has(VX.normal(a_.value), "secp256k1.n - $$a") for b_ in i_.body for a_ in ast.walk(b_)):
                neg = True
    rep.ob(rule, "prv_key_sum:taproot_negation", neg, ps.where(), "a taproot key with odd y is negated (sender side)")
    rep.ob(rule, "prv_key_sum:zero_refused", any(c.subject == "total" and c.op == "==" and c.value == 0 for c in refusal_constraints(ctx, ps)), ps.where(), "a zero sum is refused")
    pt = ctx.func(f"{SP}._pub_key_from_p2tr")
    rep.ob(rule, "pub_key_from_p2tr:even_y", "point_from_bip340pub_key(" in norm(pt.node), pt.where(), "the scanner lifts a taproot output key as a BIP340 (even-y) key -- the public twin of the negation")
    ih = ctx.func(f"{SP}._input_hash_")
    rep.ob(rule, "input_hash:lowest_outpoint", "lowest = min((outpoint.serialize() for outpoint in outpoints))" in norm(ih.node), ih.where(), "the lexicographically smallest serialized outpoint")
    sc = ctx.func(f"{SP}._scalar")
    cs = refusal_constraints(ctx, sc)
    rep.ob(rule, "_scalar:range", any(c.op in (">=", "==", "falsy", "<=") for c in cs), sc.where(), f"out-of-range hash scalars refused: {[c.show() for c in cs]}")


def rule_musig_store(ctx: Ctx, rep: Report) -> None:
    """C16.musig_store: BIP373 roles store a signature only after it verified."""
    rule = "C16.musig_store"
    ps = ctx.func(f"{PM}.partial_sign")
    g = ctx.cfg(ps)
    store = [n for n in g.nodes if n.kind == "stmt" and isinstance(n.ast, ast.Assign) and "musig2_partial_sigs[" in norm(n.ast.targets[0])]
    ver = [n for t, pol, n in ctx.refusals(ps) if pol is False and isinstance(t, ast.Call) and call_name(t) == "partial_sig_verify_"]
    ok = bool(store) and bool(ver) and g.path_avoiding([s.id for s in store], [v.id for v in ver]) is None
    rep.ob(rule, "partial_sign:verify_before_store", ok, ps.where(), "the partial signature is stored only past partial_sig_verify_" if ok else "a partial signature is stored unverified")
    if ver:
        a = ver[0].ast.args
        rep.ob(rule, "partial_sign:verifies_what_it_stores", norm(a[0]) == "psig" and bool(store) and norm(store[0].ast.value) == "psig", ps.where(), "the verified value is the stored one")
    pa = ctx.func(f"{PM}.partial_sigs_agg")
    g = ctx.cfg(pa)
    stores = [n for n in g.nodes if n.kind == "stmt" and isinstance(n.ast, ast.Assign) and ("taproot_key_spend_signature" in norm(n.ast.targets[0]) or "taproot_script_spend_signatures[" in norm(n.ast.targets[0]))]
    ver = [n for t, pol, n in ctx.refusals(pa) if pol is False and isinstance(t, ast.Call) and call_name(t) == "verify_"]
    ok = len(stores) >= 2 and bool(ver) and g.path_avoiding([s.id for s in stores], [v.id for v in ver]) is None
    rep.ob(rule, "partial_sigs_agg:verify_before_store", ok, pa.where(), "the aggregate is written only past ssa.verify_" if ok else "an aggregate signature is written unverified")
    rep.ob(rule, "partial_sigs_agg:missing_refused", any(c.subject == "missing" and c.op == "truthy" for c in refusal_constraints(ctx, pa)), pa.where(), "a missing participant's partial signature is refused")
    if ver:
        a = ver[0].ast.args
        rep.ob(rule, "partial_sigs_agg:key", norm(a[1]) == "x_only_pub_key" and norm(a[0]) == "session.context.msg", pa.where(), "verified under the session's aggregate key and message")
    txt = PT.text(pa)
    bb: dict[str, str] = {}
    rep.ob(rule, "partial_sigs_agg:sighash_suffix", VX.of(pa).anywhere("$$s + $$pi.sig_hash_type.to_bytes(1, 'big') if $$t else $$s", bb) and ".sig_hash_type" in bb.get("$$t", ""), pa.where(), "a non-default hash type is appended")
    ap = ctx.func(f"{PM}.assert_valid_participants")
    rep.ob(rule, "assert_valid_participants", bool(refusal_constraints(ctx, ap)) and ("key_agg" in norm(ap.node)), ap.where(), "the aggregate key is recomputed from the participants and compared")


def rule_musig_ranges(ctx: Ctx, rep: Report) -> None:
    """C16.musig_ranges: BIP327 range refusals."""
    rule = "C16.musig_ranges"
    sg = ctx.func(f"{MU}.sign")
    cs = refusal_constraints(ctx, sg)
    for k in ("k_1_", "k_2_"):
        ok = has_bound(cs, "<=", 0, subject=k) is not None and has(cs, k, ">=", "secp256k1.n") is not None
        rep.ob(rule, f"sign:{k}", ok, sg.where(), f"0 < {k} < n")
    rep.ob(rule, "sign:pubkey_bound_to_nonce", any(c.op == "!=" and "sec_nonce[2 * _SCALAR_SIZE:]" in c.subject + c.value_text for c in cs), sg.where(), "the signing key must be the one the nonce was generated for")
    pv = ctx.func(f"{MU}.partial_sig_verify_")
    g = ctx.cfg(pv)
    t = [n for n in g.nodes if n.kind == "test" and norm(n.ast) in ("s >= secp256k1.n", "secp256k1.n <= s")]
    okr = bool(t) and "return:False" in ctx.edge_outcomes(g, t[0].id, "T")
    rep.ob(rule, "partial_sig_verify_:s<n", okr, pv.where(), "s >= n answers False")
    rep.ob(rule, "sizes", ctx.const(MU, "_SCALAR_SIZE") == 32 and ctx.const(MU, "_NONCE_SIZE") == 66, f"{ctx.module(MU).relpath}:1", "scalars 32 bytes, public nonces 66")
    rep.ob(rule, "psbt:pubkey_size", ctx.const("btclib.psbt.psbt_utils", "MUSIG2_PUB_KEY_SIZE") == 33, "btclib/psbt/psbt_utils.py:1", "participant keys are 33 bytes")
    ka = ctx.func(f"{MU}.key_agg_and_tweak")
    rep.ob(rule, "tweaks_and_flags_same_length", any("len(" in c.subject and c.op == "!=" for c in refusal_constraints(ctx, ka)) or "strict=True" in norm(ka.node), ka.where(), "as many tweak flags as tweaks")


def rule_gacc(ctx: Ctx, rep: Report) -> None:
    """C16.gacc: BIP327 multiplies the signer's key (and the verifier's
    coefficient) by g * gacc, with g = 1 or n - 1 by the parity of the
    aggregate key: gacc is applied on *both* parities. Signing and partial
    verification are siblings and must agree, so in each function that reads
    the accumulator at least one use of it is outside every branch that tests
    the parity -- a gacc that enters only on the even arm verifies honest
    partial signatures as false after an x-only tweak negated the key."""
    rule = "C16.gacc"
    mi = ctx.module("btclib.ecc.musig2")
    n = 0
    for fi in sorted(mi.functions.values(), key=lambda f: f.qualname):
        refs = [x for x in own_nodes(fi.node) if isinstance(x.__class__, type) and isinstance(x, (ast.Attribute, ast.Name)) and isinstance(getattr(x, "ctx", None), ast.Load)
                and (x.attr if isinstance(x, ast.Attribute) else x.id) == "gacc"]
        # only the functions that decide on the parity of the aggregate key are in question
        parity = any(("% 2" in str(norm(t.ast)) or "& 1" in str(norm(t.ast)) or "has_even_y" in str(norm(t.ast))) for t in ctx.cfg(fi).nodes if t.kind == "test" and t.ast is not None) or \
            any(isinstance(e, ast.IfExp) and ("% 2" in str(norm(e.test)) or "has_even_y" in str(norm(e.test))) for e in own_nodes(fi.node))
        if not parity:
            continue
        if not refs:
            continue
        g = ctx.cfg(fi)
        n += 1
        free = [x for x in refs if not any("% 2" in str(t) or "& 1" in str(t) or "has_even_y" in str(t) for t, _ in g.facts_at_ast(x))]
        rep.ob(rule, fi.qualname, bool(free), fi.where(refs[0]), "the accumulator multiplies on both parities" if free else
               f"every use of gacc in {fi.name} is under a parity test: on the other parity the accumulated negations are dropped")
    rep.floor(rule, 3)


def _up(n: ast.AST):
    n = parent(n)
    while n is not None and isinstance(n, ast.expr):
        yield n
        n = parent(n)


def rule_sum_multiset(ctx: Ctx, rep: Report) -> None:
    """C16.sum_multiset: BIP352 sums one term per eligible input; two inputs
    with the same key (or the same ECDH share) are two terms. What is handed
    to pub_key_sum / prv_key_sum is therefore built as a list (or from dict
    *values*, one per input), never passed through a set -- a set drops the
    repeated term and sender and receiver derive different outputs."""
    from sa.canon import expand
    rule = "C16.sum_multiset"
    n = 0
    for fi in sorted(ctx.prog.functions.values(), key=lambda f: f.qualname):
        if not fi.module.name.endswith("silent_payments"):
            continue
        for c in own_nodes(fi.node):
            if not (isinstance(c, ast.Call) and call_name(c) in ("pub_key_sum", "prv_key_sum") and c.args):
                continue
            n += 1
            text = str(expand(fi, c.args[0]))
            tree = ast.parse(text, mode="eval")
            bad = [x for x in ast.walk(tree) if isinstance(x, (ast.Set, ast.SetComp)) or (isinstance(x, ast.Call) and call_name(x) in ("set", "frozenset", "fromkeys"))]
            rep.ob(rule, f"{fi.qualname}:{call_name(c)}({norm(c.args[0])[:40]})", not bad, fi.where(c), "one term per input" if not bad else
                   f"the terms pass through a set (`{text[:80]}`): equal terms of different inputs collapse into one")
    rep.floor(rule, 4)


def rule_ecies_kdf(ctx: Ctx, rep: Report) -> None:
    """C16.ecies_kdf: the key derivation hashes the *compressed* shared point,
    whatever encoding the peer's public key arrived in -- the same key written
    as 33 or 65 bytes is one key, and both sides must derive one set of keys."""
    rule = "C16.ecies_kdf"
    dk = ctx.func("btclib.ecc.ecies.derive_keys")
    calls = [c for c in own_nodes(dk.node) if isinstance(c, ast.Call) and call_name(c) == "bytes_from_point"]
    if not calls:
        rep.unknown(rule, "derive_keys", dk.where(), "no bytes_from_point call: shape not recognised")
        return
    for c in calls:
        kw = [k.value for k in c.keywords if k.arg == "compressed"]
        v = ctx.fold(kw[0], dk.module) if kw else True  # the default is compressed
        if v is UNKNOWN:
            # not a constant: acceptable only if it does not depend on an argument's encoding
            dep = any(isinstance(x, ast.Call) and call_name(x) == "len" for x in ast.walk(kw[0]))
            rep.ob(rule, "derive_keys:compressed", not dep, dk.where(c), f"compressed={norm(kw[0])}" + (": the KDF input follows the length of the key as it was written, so 33- and 65-byte spellings of one key derive different keys" if dep else ""))
        else:
            rep.ob(rule, "derive_keys:compressed", v is True, dk.where(c), "the shared point is hashed compressed" if v is True else "the shared point is hashed uncompressed: not the Electrum/BIE1 derivation")


def rule_agg_siblings(ctx: Ctx, rep: Report) -> None:
    """C16.agg_siblings: the plain and the adaptor aggregation are one sum: both add
    the partial signatures and the tweak term e*g*tacc (BIP327 PartialSigAgg),
    so each public `partial_sig_agg*` reaches -- itself or through the private
    helper they share -- a use of `tacc`. An aggregator without it completes to a
    signature that is invalid whenever the session has a tweak."""
    rule = "C16.agg_siblings"
    mi = ctx.module("btclib.ecc.musig2")
    n = 0

    def reaches_tacc(fi, depth=2, seen=None) -> bool:
        seen = seen or set()
        if fi.qualname in seen:
            return False
        seen.add(fi.qualname)
        if any(isinstance(x, ast.Attribute) and x.attr == "tacc" and any(isinstance(p_, ast.BinOp) for p_ in _up(x)) for x in own_nodes(fi.node)):
            return True
        if depth == 0:
            return False
        for c in own_nodes(fi.node):
            if isinstance(c, ast.Call):
                t = ctx.prog.functions.get(ctx.resolve_call(fi, c) or "")
                if t is not None and t.module is mi and t.name.startswith("_") and reaches_tacc(t, depth - 1, seen):
                    return True
        return False

    for name, fi in sorted(mi.functions.items()):
        if name.startswith("partial_sig_agg") or name.startswith("partial_sigs_agg"):
            n += 1
            ok = reaches_tacc(fi)
            rep.ob(rule, f"{name}:tweak_term", ok, fi.where(), "adds e*g*tacc" if ok else f"{name} never adds the tweak term: with any tweak in the session the aggregate is not a valid signature for the tweaked key")
    rep.floor(rule, 2)
    # BIP341's tweak preimage where the psbt layer computes it for a musig internal key: internal key first, merkle root second
    tw = ctx.func("btclib.psbt.musig2._tweaks")
    calls = [c for c in own_nodes(tw.node) if isinstance(c, ast.Call) and call_name(c) == "tagged_hash" and c.args and ctx.fold(c.args[0], tw.module) == b"TapTweak"]
    for c in calls:
        a = c.args[1] if len(c.args) > 1 else None
        ok = isinstance(a, ast.BinOp) and isinstance(a.op, ast.Add) and "internal_key" in str(norm(a.left)) and "merkle_root" in str(norm(a.right))
        rep.ob(rule, "psbt._tweaks:TapTweak_preimage", ok, tw.where(c), "TapTweak(internal key || merkle root)" if ok else
               f"the TapTweak preimage is `{norm(a) if a is not None else None}`: BIP341 hashes the internal key first, then the merkle root")


def rule_bool_total(ctx: Ctx, rep: Report) -> None:
    """C16.bool_total: proof predicates answer True/False."""
    rule = "C16.bool_total"
    R = Raises(ctx)
    for q in ("btclib.ecc.dleq.verify_proof", "btclib.ecc.pedersen.verify", "btclib.ecc.borromean.verify"):
        fi = ctx.func(q)
        esc = {x for x in R.of(fi) if not R.is_subclass(x, "TypeError")}
        rep.ob(rule, q, not esc, fi.where(), "answers True/False" if not esc else f"may raise {sorted(esc)}")
    pv = ctx.func(f"{MU}.partial_sig_verify_")
    esc = {x.replace("btclib.exceptions.", "") for x in R.of(pv) if not R.is_subclass(x, "TypeError")}
    allowed = {"BTClibValueError", "InvalidContributionError", "BTClibRuntimeError"}
    rep.ob(rule, f"{MU}.partial_sig_verify_", esc <= allowed, pv.where(), f"documented to raise for unparseable contributions: {sorted(esc)}")


def rule_params_forwarded_(ctx: Ctx, rep: Report) -> None:
    """C16.params_forwarded: a parameter is handed on to callees that have a parameter of the same name (see sigcommon.rule_params_forwarded)."""
    from rules.sigcommon import rule_params_forwarded
    rule_params_forwarded(ctx, rep, "C16.params_forwarded", ('btclib.ecc.musig2', 'btclib.ecc.ecies', 'btclib.ecc.dh', 'btclib.ecc.dleq', 'btclib.silent_payments', 'btclib.psbt.silent_payments', 'btclib.psbt.musig2', 'btclib.ecc.ellswift'), 80)


def rule_terms_multiset(ctx: Ctx, rep: Report) -> None:
    """C16.terms_multiset: the terms of a sum are one per seat, never deduplicated (see sigcommon.rule_terms_are_a_multiset)."""
    from rules.sigcommon import rule_terms_are_a_multiset
    rule_terms_are_a_multiset(ctx, rep, "C16.terms_multiset", ('btclib.ecc.musig2', 'btclib.psbt.musig2', 'btclib.silent_payments', 'btclib.psbt.silent_payments', 'btclib.descriptors.key_expression'), 8)


def rule_accumulators(ctx: Ctx, rep: Report) -> None:
    """C16.accumulators: BIP327's ApplyTweak answers (Q', g*gacc mod n, t + g*tacc
    mod n): the sign accumulator is the *product* over every tweak so far and
    the tweak accumulator the running sum with the same sign. In apply_tweak
    the new gacc is computed from this tweak's sign and the old gacc, the new
    tacc from the tweak, the sign and the old tacc. A gacc that is the last
    sign alone signs correctly after one tweak and with the wrong key after an
    x-only tweak that negated followed by any other."""
    from sa.canon import expand
    rule = "C16.accumulators"
    fi = ctx.func("btclib.ecc.musig2.apply_tweak")
    p0 = fi.params()[0]
    rets = [r for r in own_nodes(fi.node) if isinstance(r, ast.Return) and isinstance(r.value, ast.Call) and call_name(r.value) == "KeyAggContext" and len(r.value.args) == 3]
    if len(rets) != 1:
        rep.unknown(rule, "apply_tweak:return", fi.where(), f"{len(rets)} returns of a KeyAggContext")
        return
    _q, ga, ta = (str(expand(fi, a, depth=4)).replace(" ", "") for a in rets[0].value.args)
    # locals that are the old accumulators, bound singly or in one tuple assignment
    for a in own_nodes(fi.node):
        if isinstance(a, ast.Assign) and isinstance(a.targets[0], ast.Tuple) and isinstance(a.value, ast.Tuple) and len(a.targets[0].elts) == len(a.value.elts):
            for t_, v_ in zip(a.targets[0].elts, a.value.elts):
                if isinstance(t_, ast.Name) and isinstance(v_, ast.Attribute) and isinstance(v_.value, ast.Name) and v_.value.id == p0 and v_.attr in ("gacc", "tacc"):
                    import re as _re
                    ga = _re.sub(rf"\b{t_.id}\b", f"{p0}.{v_.attr}", ga)
                    ta = _re.sub(rf"\b{t_.id}\b", f"{p0}.{v_.attr}", ta)
    parity = "%2" in ga or "&1" in ga
    okg = f"{p0}.gacc" in ga and parity and "*" in ga
    rep.ob(rule, "apply_tweak:gacc", okg, fi.where(rets[0]), "gacc' = g * gacc" if okg else f"the new gacc is `{norm(rets[0].value.args[1])}` = `{ga[:90]}`: it is not the product of this tweak's sign and the accumulated one")
    okt = f"{p0}.tacc" in ta and ("%2" in ta or "&1" in ta) and "from_bytes" in ta and "+" in ta
    rep.ob(rule, "apply_tweak:tacc", okt, fi.where(rets[0]), "tacc' = t + g * tacc" if okt else f"the new tacc is `{norm(rets[0].value.args[2])}` = `{ta[:90]}`: it is not t + g * tacc")
    rep.floor(rule, 2)


def rule_kmax_per_scan_key(ctx: Ctx, rep: Report) -> None:
    """C16.kmax_per_scan_key: BIP352's K_MAX bounds the outputs *one scan key*
    receives in a transaction (its k counter), not the recipients of the
    transaction: the sender refuses a group -- the values collected under one
    scan key -- that is longer than K_MAX, and compares nothing else with it.
    Compared with the whole address list, a payment of 2324 outputs to two scan
    keys, which every recipient can find, is refused."""
    rule = "C16.kmax_per_scan_key"
    fi = ctx.func("btclib.silent_payments.output_keys")
    params = set(fi.params())
    cmps = [c for c in own_nodes(fi.node) if isinstance(c, ast.Compare) and len(c.ops) == 1 and any(isinstance(x, ast.Name) and x.id == "K_MAX" for x in ast.walk(c))]
    n = 0
    for c in cmps:
        lens = [x for x in ast.walk(c) if isinstance(x, ast.Call) and call_name(x) == "len" and x.args and isinstance(x.args[0], ast.Name)]
        if not lens:
            continue
        n += 1
        subj = lens[0].args[0].id
        loops = [f for f in own_nodes(fi.node) if isinstance(f, ast.For) and any(isinstance(t, ast.Name) and t.id == subj for t in ast.walk(f.target))
                 and isinstance(f.iter, ast.Call) and isinstance(f.iter.func, ast.Attribute) and f.iter.func.attr in ("values", "items")]
        ok = subj not in params and bool(loops)
        rep.ob(rule, f"output_keys:len({subj})", ok, fi.where(c), f"`{norm(c)}`: `{subj}` is one scan key's group" if ok else
               f"`{norm(c)}`: `{subj}` is {'the argument itself' if subj in params else 'not a per-scan-key group'}: K_MAX is compared with the recipients of the whole transaction")
    rep.floor(rule, 1)


def rule_kmax_everywhere(ctx: Ctx, rep: Report) -> None:
    """C16.kmax_everywhere: a scanner looks for the outputs of its scan key at
    k = 0 .. K_MAX-1 and stops, so every place that *derives* an output key
    from a counter k bounds that counter by K_MAX -- the sender in
    silent_payments, the scanner, and the psbt role that writes the output
    scripts are siblings here. A function that calls `output_key(..., k)` with
    a k it counts itself refuses (or ranges) against K_MAX."""
    rule = "C16.kmax_everywhere"
    n = 0
    for q, fi in sorted(ctx.prog.functions.items()):
        if not q.startswith(("btclib.silent_payments", "btclib.psbt.silent_payments")):
            continue
        calls = [c for c in own_nodes(fi.node) if isinstance(c, ast.Call) and call_name(c) == "output_key" and len(c.args) == 3 and not isinstance(c.args[2], ast.Constant)]
        if not calls:
            continue
        n += 1
        bounded = any(isinstance(x, ast.Compare) and any(isinstance(y, (ast.Name, ast.Attribute)) and str(norm(y)).endswith("K_MAX") for y in ast.walk(x)) for x in own_nodes(fi.node)) or \
            any(isinstance(x, ast.Call) and call_name(x) == "range" and any(str(norm(y)).endswith("K_MAX") for y in x.args) for x in own_nodes(fi.node))
        rep.ob(rule, q, bounded, fi.where(calls[0]), "the counter is bounded by K_MAX" if bounded else
               f"`{norm(calls[0])[:60]}` derives an output key from a counter nothing bounds: the output past K_MAX is one its recipient's scanner never reaches")
    rep.floor(rule, 2)


def rule_keys_in_address_order(ctx: Ctx, rep: Report) -> None:
    """C16.keys_in_address_order: `output_keys` promises one key per address, in
    the order of the addresses, and derives them group by group (a scan key's
    outputs share a secret and count k). What it returns is therefore rebuilt
    address by address: a sequence walked once per element of a list that the
    loop over the `addresses` parameter appended to -- never the group-ordered
    list itself, which pairs Y's amount with X' for [X, Y, X']."""
    rule = "C16.keys_in_address_order"
    fi = ctx.func("btclib.silent_payments.output_keys")
    addr = fi.params()[2]
    per_address = set()
    for lp in own_nodes(fi.node):
        if isinstance(lp, ast.For) and isinstance(lp.iter, ast.Name) and lp.iter.id == addr:
            for c in ast.walk(lp):
                if isinstance(c, ast.Call) and isinstance(c.func, ast.Attribute) and c.func.attr == "append" and isinstance(c.func.value, ast.Name) and isinstance(parent(parent(c)), ast.For):
                    per_address.add(c.func.value.id)
    rets = [r for r in own_nodes(fi.node) if isinstance(r, ast.Return) and r.value is not None and not (isinstance(r.value, ast.List) and not r.value.elts)]
    n = 0
    for r in rets:
        n += 1
        v = r.value
        ok = isinstance(v, ast.ListComp) and isinstance(v.generators[0].iter, ast.Name) and v.generators[0].iter.id in per_address
        ok = ok or (isinstance(v, ast.ListComp) and isinstance(v.generators[0].iter, ast.Name) and v.generators[0].iter.id == addr)
        rep.ob(rule, f"output_keys:return@{n}", ok, fi.where(r), "answered address by address" if ok else
               f"`{norm(r)[:70]}` answers the keys in the order they were derived (group by group), not in the order of the addresses")
    rep.floor(rule, 1)


def rule_points_compared_whole_(ctx: Ctx, rep: Report) -> None:
    """C16.points_compared_whole: a verification equation compares points on both coordinates (see sigcommon.rule_points_compared_whole)."""
    from rules.sigcommon import rule_points_compared_whole
    rule_points_compared_whole(ctx, rep, "C16.points_compared_whole", ('btclib.ecc.musig2', 'btclib.psbt.musig2', 'btclib.ecc.dleq', 'btclib.ecc.borromean'), 1)


def rule_config_not_replaced_(ctx: Ctx, rep: Report) -> None:
    """C16.config_not_replaced: the curve / hash function / network a function takes is handed on as its own, never replaced by a module constant (see sigcommon.rule_config_not_replaced)."""
    from rules.sigcommon import rule_config_not_replaced
    rule_config_not_replaced(ctx, rep, "C16.config_not_replaced", ('btclib.ecc.musig2', 'btclib.ecc.dleq', 'btclib.ecc.dh', 'btclib.ecc.ecies', 'btclib.ecc.ellswift', 'btclib.ecc.borromean', 'btclib.ecc.pedersen', 'btclib.silent_payments', 'btclib.psbt.musig2', 'btclib.psbt.silent_payments'), 1)


def rule_hash_params_(ctx: Ctx, rep: Report) -> None:
    """C16.hash_params: a `..._hash` parameter is handed a digest, never the caller's text as it came (see sigcommon.rule_hash_params)."""
    from rules.sigcommon import rule_hash_params
    rule_hash_params(ctx, rep, "C16.hash_params", ('btclib.ecc.musig2', 'btclib.ecc.dleq', 'btclib.ecc.dh', 'btclib.ecc.ecies', 'btclib.ecc.ellswift', 'btclib.ecc.borromean', 'btclib.ecc.pedersen', 'btclib.silent_payments', 'btclib.psbt.musig2', 'btclib.psbt.silent_payments'), 1)


def rule_taproot_input_key_is_the_output_key(ctx: Ctx, rep: Report) -> None:
    """C16.taproot_input_key_is_the_output_key: BIP352 sums, for a taproot input, the
    *output* key the spent script_pub_key carries -- script path or key path,
    whatever the internal key is. In the psbt role `input_pub_key`, the key
    answered on the p2tr arm is read off the script (a slice of what
    `_script_pub_key` answered), not off a psbt field such as
    `taproot_internal_key`: sender and recipient would sum different keys and
    the recipient finds nothing."""
    rule = "C16.taproot_input_key_is_the_output_key"
    fi = ctx.func("btclib.psbt.silent_payments.input_pub_key")
    g = ctx.cfg(fi)
    scripts = {a.targets[0].id for a in own_nodes(fi.node) if isinstance(a, ast.Assign) and isinstance(a.targets[0], ast.Name) and isinstance(a.value, ast.Call) and "script" in call_name(a.value)}
    n = 0
    for r in own_nodes(fi.node):
        if not (isinstance(r, ast.Return) and r.value is not None):
            continue
        facts = [str(t) for t, pol in g.facts_at_ast(r.value) if pol]
        if not any("is_p2tr" in t for t in facts):
            continue
        n += 1
        names = {x.id for x in ast.walk(r.value) if isinstance(x, ast.Name)}
        attrs = {x.attr for x in ast.walk(r.value) if isinstance(x, ast.Attribute)}
        ok = bool(names & scripts) and not (attrs & {"taproot_internal_key", "taproot_hd_key_paths", "hd_key_paths"})
        rep.ob(rule, "input_pub_key:p2tr", ok, fi.where(r), "the key is the one the spent script carries" if ok else
               f"`{norm(r)[:80]}`: the key of a taproot input is taken from the psbt's fields, not from the output key in the script being spent")
    rep.floor(rule, 1)


def rule_adaptor_inverse(ctx: Ctx, rep: Report) -> None:
    """C16.adaptor_inverse: `extract_adaptor` undoes `adapt`: adapt adds t to the
    pre-signature's s, negated when the nonce R has an odd y, and extract
    subtracts and negates on the same condition. The two read the same session
    values and nothing more -- a factor (gacc, the key's sign) that only one of
    them applies makes extract_adaptor(adapt(pre, t)) another t whenever that
    factor is not 1."""
    rule = "C16.adaptor_inverse"
    fa, fe = ctx.func("btclib.ecc.musig2.adapt"), ctx.func("btclib.ecc.musig2.extract_adaptor")

    def reads(fi):
        vals = {a.targets[0].id for a in own_nodes(fi.node) if isinstance(a, ast.Assign) and isinstance(a.targets[0], ast.Name) and isinstance(a.value, ast.Call) and call_name(a.value) == "session_values"}
        return {x.attr for x in own_nodes(fi.node) if isinstance(x, ast.Attribute) and isinstance(x.value, ast.Name) and x.value.id in vals}
    ra, re_ = reads(fa), reads(fe)
    rep.ob(rule, "adapt/extract_adaptor:same_values", ra == re_ and bool(ra), fe.where(), f"both read {sorted(ra)} of the session" if ra == re_ else
           f"adapt reads {sorted(ra)} of the session values, extract_adaptor reads {sorted(re_)}: the two are not inverse of each other when {sorted(ra ^ re_)} is not trivial")
    rep.floor(rule, 1)


def rule_single_pass_(ctx: Ctx, rep: Report) -> None:
    """C16.single_pass: a parameter admitted as an Iterable is walked at most once per path (see sigcommon.rule_single_pass)."""
    from rules.sigcommon import rule_single_pass
    rule_single_pass(ctx, rep, "C16.single_pass", ("btclib.silent_payments", "btclib.psbt.silent_payments", "btclib.ecc.musig2", "btclib.psbt.musig2"), 1)


def rule_paired_keys_read_by_script(ctx: Ctx, rep: Report) -> None:
    """C16.paired_keys_read_by_script: BIP352 reads a taproot input's key x-only -- the
    even-y point, the private key negated to match -- and every other key as
    it is, and the library's functions are told which is which by the
    script each key is *paired with* (`Sequence[tuple[PrvKey|PubKey, Octets]]`).
    A function that takes such pairs either hands them on whole, or asks
    `is_p2tr` of the script before it uses a key: sender, scanner, bindings
    arm and Python arm then fold the same keys. One that takes the keys out
    of the pairs and sums them as given finds nothing for half of all
    taproot keys."""
    rule = "C16.paired_keys_read_by_script"
    n = 0
    for q, fi in sorted(ctx.prog.functions.items()):
        if not (q.startswith("btclib.silent_payments.") or q.startswith("btclib.psbt.silent_payments.")):
            continue
        a = fi.node.args
        paired = [p_.arg for p_ in a.posonlyargs + a.args + a.kwonlyargs if p_.annotation is not None
                  and any(t in norm(p_.annotation).replace(" ", "") for t in ("tuple[PubKey,Octets]", "tuple[PrvKey,Octets]"))]
        for p_ in paired:
            uses = [x for x in own_nodes(fi.node) if isinstance(x, ast.Name) and x.id == p_ and isinstance(x.ctx, ast.Load)]
            opened = [x for x in uses if not (isinstance(parent(x), ast.Call) and x in parent(x).args and ctx.resolve_call(fi, parent(x)) in ctx.prog.functions)]
            asks = any(isinstance(c, ast.Call) and call_name(c) == "is_p2tr" for c in own_nodes(fi.node))
            n += 1
            ok = not opened or asks
            rep.ob(rule, f"{q}:{p_}", ok, fi.where(opened[0] if opened else fi.node), "handed on whole" if not opened else "each key read by `is_p2tr` of its script" if asks else
                   f"`{p_}` is taken apart here and no `is_p2tr` is asked of the scripts: a taproot key is used with the y it came with, where the other side reads it x-only")
    rep.floor(rule, 3)


def rule_annex_needs_two_elements(ctx: Ctx, rep: Report) -> None:
    """C16.annex_needs_two_elements: BIP341: "if there are at least two witness elements,
    and the first byte of the last element is 0x50, this last element is
    called annex". The three readers of a taproot witness -- the script
    engine, the sig_hash witness splitter, and silent payments' input-key
    extraction -- test the prefix only together with the count: a key-path
    witness is one signature, one in 256 of which begins with 0x50, and a
    reader that pops it as an annex skips an input the sender counted."""
    rule = "C16.annex_needs_two_elements"
    n = 0
    for q, fi in sorted(ctx.prog.functions.items()):
        for c in own_nodes(fi.node):
            if not (isinstance(c, ast.Compare) and len(c.ops) == 1 and isinstance(c.ops[0], (ast.Eq, ast.NotEq))):
                continue
            left, right = c.left, c.comparators[0]
            if not (isinstance(left, ast.Subscript) and isinstance(left.value, ast.Subscript) and norm(left.value.slice) == "-1" and norm(left.slice) in (":1", "0")):
                continue
            try:
                v = ctx.fold(right, fi.module)
            except Exception:  # noqa: BLE001
                continue
            if v not in (b"\x50", 0x50):
                continue
            stack = norm(left.value.value)
            n += 1
            counted = False
            p_ = parent(c)
            child = c
            while p_ is not None and p_ is not fi.node:
                tests = []
                if isinstance(p_, ast.BoolOp) and isinstance(p_.op, ast.And):
                    tests = [t for t in p_.values if t is not child]
                elif isinstance(p_, ast.If) and child in p_.body:
                    tests = [p_.test]
                for t in tests:
                    for s_ in (ast.walk(t) if isinstance(t, ast.BoolOp) else [t]):
                        if norm(s_).replace(" ", "") in (f"len({stack})>=2", f"len({stack})>1", f"1<len({stack})", f"2<=len({stack})"):
                            counted = True
                child, p_ = p_, parent(p_)
            rep.ob(rule, f"{q}:{norm(c)[:40]}", counted, fi.where(c), "tested with `at least two elements`" if counted else
                   f"`{norm(c)}` calls the last element an annex whatever the count: a lone 64-byte signature beginning with 0x50 is popped as one")
    rep.floor(rule, 3)


RULES = [
    ("C16.annex_needs_two_elements", rule_annex_needs_two_elements),

    ("C16.paired_keys_read_by_script", rule_paired_keys_read_by_script),

    ("C16.taproot_input_key_is_the_output_key", rule_taproot_input_key_is_the_output_key),
    ("C16.adaptor_inverse", rule_adaptor_inverse),
    ("C16.single_pass", rule_single_pass_),

    ("C16.config_not_replaced", rule_config_not_replaced_),
    ("C16.hash_params", rule_hash_params_),

    ("C16.points_compared_whole", rule_points_compared_whole_),
    ("C16.keys_in_address_order", rule_keys_in_address_order),
    ("C16.kmax_everywhere", rule_kmax_everywhere),
    ("C16.kmax_per_scan_key", rule_kmax_per_scan_key),
    ("C16.accumulators", rule_accumulators),
    ("C16.terms_multiset", rule_terms_multiset),
    ("C16.params_forwarded", rule_params_forwarded_),
    ("C16.ecies_order", rule_ecies_order),
    ("C16.sp_shared", rule_sp_shared),
    ("C16.musig_store", rule_musig_store),
    ("C16.musig_ranges", rule_musig_ranges),
    ("C16.gacc", rule_gacc),
    ("C16.agg_siblings", rule_agg_siblings),
    ("C16.sum_multiset", rule_sum_multiset),
    ("C16.ecies_kdf", rule_ecies_kdf),
    ("C16.bool_total", rule_bool_total),
]

CONTROLS = [
    {"rule": "C16.agg_siblings", "name": "the psbt layer hashes merkle root before internal key", "module": "btclib.psbt.musig2",
     "edit": lambda ctx: M.sub_expr(ctx, "btclib.psbt.musig2._tweaks", M.is_text("psbt_in.taproot_internal_key + psbt_in.taproot_merkle_root"), "psbt_in.taproot_merkle_root + psbt_in.taproot_internal_key")},
    {"rule": "C16.sum_multiset", "name": "the ECDH shares are collected in a set", "module": "btclib.psbt.silent_payments",
     "edit": lambda ctx: M.sub_expr(ctx, "btclib.psbt.silent_payments._share_and_sum", lambda n: isinstance(n, ast.Call) and call_name(n) == "pub_key_sum" and norm(n.args[0]) == "shares", "sp.pub_key_sum(list(set(shares)))")},
    {"rule": "C16.ecies_kdf", "name": "the KDF input follows the encoding of the peer's key", "module": "btclib.ecc.ecies",
     "edit": lambda ctx: M.sub_expr(ctx, "btclib.ecc.ecies.derive_keys", lambda n: isinstance(n, ast.keyword) and n.arg == "compressed", "compressed=len(sec) == 33")},
    {"rule": "C16.gacc", "name": "partial verification applies gacc on the even arm only", "module": "btclib.ecc.musig2",
     "edit": lambda ctx: M.sub_expr(ctx, "btclib.ecc.musig2.partial_sig_verify_", M.is_text("g = g * values.gacc % secp256k1.n"), "g = (g * values.gacc if values.Q[1] % 2 == 0 else g) % secp256k1.n")},
    {"rule": "C16.ecies_order", "name": "decrypt before the MAC check", "module": EC,
     "edit": lambda ctx: _swap_mac(ctx)},
    {"rule": "C16.sp_shared", "name": "the scanner computes its own t_k", "module": SP,
     "edit": lambda ctx: M.sub_expr(ctx, f"{SP}.scan_outputs", lambda n: isinstance(n, ast.Call) and call_name(n) == "_output_tweak", "_scalar(tagged_hash(b'BIP0352/SharedSecret', bytes_from_point(secret, secp256k1) + k.to_bytes(4, 'big')), 'tweak')")},
    {"rule": "C16.musig_store", "name": "partial_sign stores before verifying", "module": PM,
     "edit": lambda ctx: M.drop_if(ctx, f"{PM}.partial_sign", lambda n: "partial_sig_verify_" in norm(n.test))},
    {"rule": "C16.musig_store", "name": "aggregate written without verification", "module": PM,
     "edit": lambda ctx: M.drop_if(ctx, f"{PM}.partial_sigs_agg", lambda n: "ssa.verify_" in norm(n.test))},
    {"rule": "C16.musig_ranges", "name": "second nonce scalar may be zero", "module": MU,
     "edit": lambda ctx: M.sub_expr(ctx, f"{MU}.sign", M.is_text("0 < k_2_ < secp256k1.n"), "0 <= k_2_ < secp256k1.n")},
    {"rule": "C16.bool_total", "name": "dleq.verify_proof catches ValueError only", "module": "btclib.ecc.dleq",
     "edit": lambda ctx: M.sub_expr(ctx, "btclib.ecc.dleq.verify_proof", lambda n: isinstance(n, ast.ExceptHandler), lambda n: norm(n).replace("(ValueError, BTClibRuntimeError)", "KeyError"))},
]


def _swap_mac(ctx: Ctx):
    fi = ctx.prog.functions.get(f"{EC}.decrypt")
    if fi is None:
        return None
    mac = [n for n in fi.node.body if isinstance(n, ast.Expr) and "assert_valid_mac" in norm(n)]
    ret = [n for n in fi.node.body if isinstance(n, ast.Return)]
    if not mac or not ret:
        return None
    src = fi.module.source
    return M.replace_nodes(src, [(mac[0], "plain = " + norm(ret[0].value)), (ret[0], norm(mac[0]) + "\n    return plain")])
