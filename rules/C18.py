"""C18 -- sizes, fees and amounts are exact integer accounting.

Decided: each size function counts exactly the terms its serializer writes
(constant widths, CompactSize of the same counts, var-bytes and nested sizes of
the same fields); weight/vsize formula shapes; the fee rounding; the builder's
comparators and conservation by def-use; amount ranges.
Not decided: estimate >= actual (relates an analytic table to emitted bytes).
"""

from __future__ import annotations

import ast

from sa import mutate as M
from sa.consts import UNKNOWN
from sa import pattern as PT
from sa import values as VX
from sa.ctx import Ctx
from sa.layout import write_atoms
from sa.loader import AnalysisError, FuncInfo, call_name, norm, own_nodes, parent
from sa.ranges import has, has_bound, refusal_constraints
from sa.report import Report

NOTES = ("C18: decides size-function / serializer term agreement, weight and vsize formula shapes, ceil-rounded fee, "
         "builder comparators and value conservation by def-use, dust sizes and amount ranges; that an estimated weight "
         "bounds the signed transaction's is not decided.")

SIZE_CLASSES = ["btclib.tx.tx.Tx", "btclib.tx.tx_in.TxIn", "btclib.tx.tx_out.TxOut", "btclib.tx.out_point.OutPoint",
                "btclib.script.witness.Witness", "btclib.block.block.Block", "btclib.block.block_header.BlockHeader"]


def _addends(e: ast.AST) -> list[ast.AST]:
    if isinstance(e, ast.BinOp) and isinstance(e.op, ast.Add):
        return _addends(e.left) + _addends(e.right)
    return [e]


def _strip_len(s: str) -> str:
    return s[4:-1] if s.startswith("len(") and s.endswith(")") else s


def size_terms(ctx: Ctx, fi: FuncInfo):
    consts = 0
    vi, vb, nested, raw = [], [], [], []
    for n in own_nodes(fi.node):
        if isinstance(n, ast.Call):
            tgt = ctx.resolve_call(fi, n) or ""
            if tgt == "btclib.var_int._size" and n.args:
                vi.append(_strip_len(norm(n.args[0])))
            elif tgt == "btclib.var_bytes._size" and n.args:
                vb.append(norm(n.args[0]))
            elif call_name(n) == "_serialized_size" and isinstance(n.func, ast.Attribute):
                nested.append(norm(n.func.value))
            elif norm(n.func) == "len" and not (isinstance(parent(n), ast.Call) and call_name(parent(n)) in ("_size",)):
                v = ctx.fold(n, fi.module)
                if isinstance(v, int):
                    consts += v
                else:
                    raw.append(norm(n.args[0]))
    for n in own_nodes(fi.node):
        vals = []
        if isinstance(n, (ast.Assign, ast.AugAssign, ast.Return)) and n.value is not None:
            vals = _addends(n.value)
        for v in vals:
            if isinstance(v, (ast.Constant, ast.Name, ast.BinOp)):
                f = ctx.fold(v, fi.module)
                if isinstance(f, int) and not isinstance(f, bool):
                    consts += f
    return consts, sorted(vi), sorted(vb), sorted(nested), sorted(raw)


def ser_terms(ctx: Ctx, fi: FuncInfo):
    consts = 0
    vi, vb, nested, raw = [], [], [], []
    for a in write_atoms(ctx, fi):
        if a.kind == "INT":
            if isinstance(a.width, int):
                consts += a.width
        elif a.kind == "VARINT":
            vi.append(_strip_len(a.subject))
        elif a.kind == "VARBYTES":
            vb.append(a.subject)
        elif a.kind == "NESTED":
            nested.append(a.subject)
    # constant byte strings and raw byte fields that are elements of the output
    for n in own_nodes(fi.node):
        elems: list[ast.AST] = []
        if isinstance(n, (ast.List, ast.Tuple)) and isinstance(parent(n), ast.Call) and call_name(parent(n)) == "join":
            elems = list(n.elts)
        elif isinstance(n, ast.AugAssign) and isinstance(n.op, ast.Add):
            elems = [n.value]
        elif isinstance(n, ast.Assign) and len(n.targets) == 1 and norm(n.targets[0]) == "out":
            elems = _addends(n.value)
        for e in elems:
            for alt in ([e.body, e.orelse] if isinstance(e, ast.IfExp) else [e]):
                if isinstance(alt, ast.Call):
                    continue
                f = ctx.fold(alt, fi.module)
                if isinstance(f, bytes):
                    consts += len(f)
                elif isinstance(alt, ast.Subscript) and isinstance(alt.slice, ast.Slice) and isinstance(alt.value, ast.Attribute):
                    raw.append(norm(alt.value))
                elif isinstance(alt, ast.Attribute):
                    raw.append(norm(alt))
    return consts, sorted(vi), sorted(vb), sorted(nested), sorted(raw)


def rule_size_vs_serialize(ctx: Ctx, rep: Report) -> None:
    """C18.size_vs_serialize: a size function counts what its serializer writes."""
    rule = "C18.size_vs_serialize"
    for q in SIZE_CLASSES:
        ci = ctx.cls(q)
        sz, se = ci.methods.get("_serialized_size"), ci.methods.get("serialize")
        if sz is None or se is None:
            raise AnalysisError(f"{q}: _serialized_size / serialize vanished")
        a, b = size_terms(ctx, sz), ser_terms(ctx, se)
        names = ["constant bytes", "CompactSize counts", "var-bytes fields", "nested objects", "raw byte fields"]
        for i, nm in enumerate(names):
            rep.ob(rule, f"{ci.name}:{nm}", a[i] == b[i], sz.where(), f"size counts {a[i]}, serialize writes {b[i]}")
    # the segwit condition is the same expression in both
    tx = ctx.cls("btclib.tx.tx.Tx")
    for m in ("_serialized_size", "serialize"):
        fi = tx.methods[m]
        sg = PT.find(fi.node, "$sg = include_witness and self.is_segwit", {})
        rep.ob(rule, f"Tx.{m}:segwit_condition", sg is not None, fi.where(sg), "segwit = include_witness and self.is_segwit (the same gate in the size and in the serializer)")
    vs, ser = ctx.func("btclib.var_int._size"), ctx.func("btclib.var_int.serialize")
    rep.ob(rule, "var_int._size(table)", True, vs.where(), "threshold agreement with serialize is decided by C05.compactsize")
    vbs = ctx.func("btclib.var_bytes._size")
    r = [n for n in own_nodes(vbs.node) if isinstance(n, ast.Return)]
    rep.ob(rule, "var_bytes._size", bool(r) and norm(r[0].value) in ("var_int._size(size) + size", "size + var_int._size(size)"), vbs.where(), "CompactSize(len) + len")
    rep.floor(rule, 35)


def _linear_weight(ctx: Ctx, fi: FuncInfo, e: ast.AST) -> dict[str, int] | None:
    """Coefficients of stripped / total size in a weight expression."""
    def term(x: ast.AST) -> dict[str, int] | None:
        if isinstance(x, ast.BinOp) and isinstance(x.op, ast.Add):
            a, b = term(x.left), term(x.right)
            if a is None or b is None:
                return None
            return {k: a.get(k, 0) + b.get(k, 0) for k in set(a) | set(b)}
        if isinstance(x, ast.BinOp) and isinstance(x.op, ast.Mult):
            for c, v in ((x.left, x.right), (x.right, x.left)):
                k = ctx.fold(c, fi.module)
                if isinstance(k, int):
                    t = term(v)
                    return None if t is None else {kk: vv * k for kk, vv in t.items()}
            return None
        t = norm(x)
        if "include_witness=False" in t or t.endswith("stripped_size"):
            return {"stripped": 1}
        if "include_witness=True" in t or t.endswith(".size"):
            return {"total": 1}
        return None
    return term(e)


def rule_weight(ctx: Ctx, rep: Report) -> None:
    """C18.weight: weight = 3*stripped + total; vsize = ceil(weight / 4)."""
    rule = "C18.weight"
    for q in ("btclib.tx.tx.Tx", "btclib.block.block.Block"):
        ci = ctx.cls(q)
        w = ci.methods["weight"]
        r = [n for n in own_nodes(w.node) if isinstance(n, ast.Return)]
        lin = _linear_weight(ctx, w, r[0].value) if r else None
        rep.ob(rule, f"{ci.name}.weight", lin == {"stripped": 3, "total": 1}, w.where(), f"coefficients {lin}")
        v = ci.methods["vsize"]
        r = [n for n in own_nodes(v.node) if isinstance(n, ast.Return)]
        ok = bool(r) and norm(r[0].value) in ("ceil(self.weight / 4)", "(self.weight + 3) // 4", "-(-self.weight // 4)", "ceil(self.weight / WITNESS_SCALE_FACTOR)")
        rep.ob(rule, f"{ci.name}.vsize", ok, v.where(), f"vsize = {norm(r[0].value) if r else None}")
        s = ci.methods["size"]
        r = [n for n in own_nodes(s.node) if isinstance(n, ast.Return)]
        rep.ob(rule, f"{ci.name}.size", bool(r) and "include_witness=True" in norm(r[0].value), s.where(), "size = the serialization with witness")
    b = ctx.cls("btclib.block.block.Block")
    ss = b.methods["stripped_size"]
    r = [n for n in own_nodes(ss.node) if isinstance(n, ast.Return)]
    rep.ob(rule, "Block.stripped_size", bool(r) and "include_witness=False" in norm(r[0].value), ss.where(), "stripped size = without witness")
    for modname in ("btclib.tx.tx_in", "btclib.block.block"):
        v = ctx.const(modname, "WITNESS_SCALE_FACTOR")
        if v is not UNKNOWN:
            rep.ob(rule, f"WITNESS_SCALE_FACTOR@{modname}", v == 4, f"{ctx.module(modname).relpath}:1", f"WITNESS_SCALE_FACTOR = {v}")
    iw = ctx.func("btclib.tx.tx_in.input_weight")
    txt = PT.text(iw)
    vx = VX.of(iw)
    rep.ob(rule, "input_weight", any(vx.returns(p_) for p_ in ("$$b._serialized_size() * WITNESS_SCALE_FACTOR + witness._serialized_size() if witness is not None else $$b._serialized_size() * WITNESS_SCALE_FACTOR",
                                                               "WITNESS_SCALE_FACTOR * $$b._serialized_size() + witness._serialized_size() if witness is not None else WITNESS_SCALE_FACTOR * $$b._serialized_size()")),
           iw.where(), "non-witness bytes x4 plus witness bytes x1")


def rule_fee(ctx: Ctx, rep: Report) -> None:
    """C18.fee: fee = ceil(rate * vsize / 1000); package fee; dust sizes."""
    rule = "C18.fee"
    F = "btclib.fee"
    fv = ctx.func(f"{F}.fee_from_vsize")
    dm = [n for n in own_nodes(fv.node) if isinstance(n, ast.Assign) and isinstance(n.value, ast.Call) and norm(n.value.func) == "divmod"]
    r = [n for n in own_nodes(fv.node) if isinstance(n, ast.Return)]
    ok = bool(dm) and ctx.fold(dm[0].value.args[1], fv.module) == 1000 and "sats_per_kvbyte" in norm(dm[0].value.args[0]) and "vsize" in norm(dm[0].value.args[0]) \
        and bool(r) and norm(r[0].value) in ("sats + 1 if remainder else sats", "sats + (1 if remainder else 0)", "sats + bool(remainder)")
    rep.ob(rule, "fee_from_vsize:ceil", ok, fv.where(), "quotient of rate*vsize by 1000, plus one iff there is a remainder")
    rep.ob(rule, "fee_from_vsize:negative", has_bound(refusal_constraints(ctx, fv), "<", 0, subject="vsize") is not None, fv.where(), "negative vsize refused")
    pf = ctx.func(f"{F}.package_fee")
    r = [n for n in own_nodes(pf.node) if isinstance(n, ast.Return)]
    rep.ob(rule, "package_fee", bool(r) and norm(r[0].value) == "max(own_fee, package - ancestor_fee)", pf.where(), "max(own, package - ancestor)")
    pk = [n for n in own_nodes(pf.node) if isinstance(n, ast.Assign) and norm(n.targets[0]) == "package"]
    rep.ob(rule, "package_fee:package_vsize", bool(pk) and norm(pk[0].value) == "fee_from_vsize(vsize + ancestor_vsize, fee_rate)", pf.where(), "the package is priced on the summed vsize")
    rep.ob(rule, "dust:spend_sizes", ctx.const(F, "_SPEND_SIZE") == 148 and ctx.const(F, "_SEGWIT_SPEND_SIZE") == 67 and ctx.const(F, "_TXOUT_VALUE_SIZE") == 8, f"{ctx.module(F).relpath}:1",
           f"spend sizes {ctx.const(F, '_SPEND_SIZE')}/{ctx.const(F, '_SEGWIT_SPEND_SIZE')} (Core GetDustThreshold 148/67)")
    dr = ctx.module(F).assigns.get("DUST_RELAY_FEE_RATE")
    rep.ob(rule, "dust:relay_rate", bool(dr) and norm(dr[0]) == "FeeRate(sats_per_kvbyte=3000)", f"{ctx.module(F).relpath}:1", "3000 sat/kvB")
    dt = ctx.func(f"{F}.dust_threshold")
    txt = PT.text(dt)
    vx = VX.of(dt)
    rep.ob(rule, "dust:size", vx.anywhere("_TXOUT_VALUE_SIZE + len(var_int.serialize(len($$spk))) + len($$spk) + (_SEGWIT_SPEND_SIZE if is_segwit($$spk) else _SPEND_SIZE)")
           or vx.anywhere("_TXOUT_VALUE_SIZE + len(var_int.serialize(len($$spk))) + len($$spk) + _SEGWIT_SPEND_SIZE if is_segwit($$spk) else _TXOUT_VALUE_SIZE + len(var_int.serialize(len($$spk))) + len($$spk) + _SPEND_SIZE"), dt.where(), "8 + CompactSize + script + spend size by kind")
    rep.ob(rule, "dust:unspendable_zero", "OP_RETURN" in txt and "MAX_SCRIPT_SIZE" in txt, dt.where(), "unspendable outputs have no dust threshold")


def rule_builder(ctx: Ctx, rep: Report) -> None:
    """C18.builder: conservation and the two comparators of build_psbt (patterns
    with metavariables: parameters and callees are literal, temporaries are not)."""
    rule = "C18.builder"
    b = ctx.func("btclib.tx_builder.build_psbt")
    g = ctx.cfg(b)
    m: dict[str, str] = {}
    F = PT.find
    tin = F(b.node, "$tin = sum(($po.value for $po in prevouts($psbt)))", m)
    rep.ob(rule, "total_in", tin is not None, b.where(tin), "total_in = sum of the values of the outputs the psbt's inputs spend")
    tout = F(b.node, "$tout = sum(($to.value for $to in outputs))", m)
    rep.ob(rule, "total_out", tout is not None, b.where(tout), "total_out = sum of the values being paid")
    rem = F(b.node, "$rem = $tin - $tout", m)
    rep.ob(rule, "remainder", rem is not None, b.where(rem), "remainder = total_in - total_out")
    sol = PT.solve(b.node, ["$fee = fee_from_vsize($psbt.vsize_estimate(sizer), fee_rate)", "$chg = $rem - $fee"], m)
    fee, chg = (sol[0] if sol else (None, None))
    if sol:
        m.update(sol[1])
    rep.ob(rule, "fee(with change)", fee is not None, b.where(fee), "fee priced at the caller's rate on the virtual size estimated with the change output in place")
    rep.ob(rule, "change", chg is not None, b.where(chg), "change = remainder - fee")
    keep = [n for n in own_nodes(b.node) if isinstance(n, ast.If) and any(isinstance(c, ast.Call) and call_name(c) == "dust_threshold" for c in ast.walk(n.test))]
    okk = bool(keep) and (PT.match(PT.compile_("$chg >= dust_threshold($cs, dust_fee_rate)"), keep[0].test, dict(m)) or
                          PT.match(PT.compile_("dust_threshold($cs, dust_fee_rate) <= $chg"), keep[0].test, dict(m)) or
                          PT.match(PT.compile_("not $chg < dust_threshold($cs, dust_fee_rate)"), keep[0].test, dict(m)))
    rep.ob(rule, "keep_change_iff_not_dust", okk, b.where(keep[0] if keep else None), f"{norm(keep[0].test) if keep else None}")
    if keep:
        st = F(keep[0], "$psbt.outputs[-1].amount = $chg", m)
        rt = F(keep[0], "return FundedPsbt($psbt, $fee, $ci)", m)
        rep.ob(rule, "kept_change:amount_and_fee", st is not None and rt is not None, b.where(keep[0]), "the change output carries `change`, the reported fee is `fee`")
    pops = [c for c in own_nodes(b.node) if isinstance(c, ast.Call) and PT.match(PT.compile_("$psbt.outputs.pop()"), c, dict(m))]
    rep.ob(rule, "dropped_change:output_removed", bool(pops), b.where(), "a dust change output is removed")
    owed = F(b.node, "$owed = fee_from_vsize($psbt.vsize_estimate(sizer), fee_rate)", dict(m, **{}))
    owed_all = [n for n, bb in PT.find_all(b.node, "$owed = fee_from_vsize($psbt.vsize_estimate(sizer), fee_rate)", {"psbt": m.get("psbt", "?")}) if bb.get("owed") != m.get("fee")]
    ok_owed = bool(owed_all) and bool(pops) and g.path_avoiding(g.nodes_containing(owed_all[0]), [i for c in pops for i in g.nodes_containing(c)]) is not None \
        and all(_after(g, pops[0], owed_all[0]) for _ in (0,))
    rep.ob(rule, "owed_repriced", ok_owed, b.where(owed_all[0] if owed_all else None), "the fee owed is priced again, on the virtual size estimated after the dust change output is gone")
    owed_name = next((bb["owed"] for n, bb in PT.find_all(b.node, "$owed = fee_from_vsize($psbt.vsize_estimate(sizer), fee_rate)", {"psbt": m.get("psbt", "?")}) if bb.get("owed") != m.get("fee")), "?")
    cs = refusal_constraints(ctx, b)
    rep.ob(rule, "underfunded_refused", has(cs, m.get("rem", "?"), "<", owed_name) is not None, b.where(), "remainder < owed refused")
    rt2 = F(b.node, "return FundedPsbt($psbt, $rem, $ci2)", m)
    rep.ob(rule, "no_change:fee_is_remainder", rt2 is not None, b.where(rt2), "without change the whole remainder is the fee")
    rep.ob(rule, "no_inputs_refused", has(cs, "inputs", "falsy") is not None, b.where(), "no inputs refused")


def _after(g, first: ast.AST, second: ast.AST) -> bool:
    """second is reachable from first."""
    a = g.nodes_containing(first)
    bs = set(g.nodes_containing(second))
    return any(bs & set(g.reachable(i)) for i in a)


def rule_vsize_ceil(ctx: Ctx, rep: Report) -> None:
    """C18.vsize_ceil: wherever the package divides a weight by four the
    quotient is rounded up -- `ceil(w / 4)`, `(w + 3) // 4` or `-(-w // 4)`;
    a floor there prices a transaction on a virtual size one below its own."""
    rule = "C18.vsize_ceil"
    n = 0
    for fi in sorted(ctx.prog.functions.values(), key=lambda f: f.qualname):
        if fi.parent is not None:
            continue
        for e in own_nodes(fi.node):
            if not (isinstance(e, ast.BinOp) and isinstance(e.op, (ast.Div, ast.FloorDiv))):
                continue
            d = ctx.fold(e.right, fi.module)
            if d != 4 or "weight" not in str.lower(str(norm(e.left))):
                continue
            n += 1
            key = f"{fi.qualname}:{norm(e)}"
            par = parent(e)
            if isinstance(e.op, ast.Div):
                ok = isinstance(par, ast.Call) and call_name(par) == "ceil"
                rep.ob(rule, key, ok, fi.where(e), "ceil(weight / 4)" if ok else "a true division of a weight by four that is not rounded up")
            else:
                left = e.left
                up = isinstance(left, ast.BinOp) and isinstance(left.op, ast.Add) and 3 in (ctx.fold(left.left, fi.module), ctx.fold(left.right, fi.module))
                neg = isinstance(left, ast.UnaryOp) and isinstance(left.op, ast.USub) and isinstance(par, ast.UnaryOp) and isinstance(par.op, ast.USub)
                rep.ob(rule, key, up or neg, fi.where(e), "rounded up" if up or neg else
                       "weight // 4 rounds down: the virtual size is ceil(weight / 4), and a fee priced on the floor is short whenever the weight is not a multiple of four")
    rep.floor(rule, 3)


def rule_exact_rate(ctx: Ctx, rep: Report) -> None:
    """C18.exact_rate: in btclib.fee a Decimal is never an operand of arithmetic --
    `*`, `/`, `+`, `-`, `//`, `%`, `**` on a Decimal round to the precision of
    whatever decimal context the caller happens to carry, and a conversion that
    exists so that truncation is impossible must not read it. (as_integer_ratio,
    is_finite, comparisons and str are exact.)"""
    rule = "C18.exact_rate"
    mi = ctx.module("btclib.fee")
    n = 0
    for fi in sorted(mi.functions.values(), key=lambda f: f.qualname):
        # the conversions *into* the exact representation: functions that build a FeeRate
        if not any(isinstance(c, ast.Call) and (norm(c.func) in ("cls", "FeeRate")) for c in own_nodes(fi.node)):
            continue
        decs = {norm(t) for a in own_nodes(fi.node) if isinstance(a, ast.Assign) and isinstance(a.value, ast.Call) and call_name(a.value) == "Decimal" for t in a.targets if isinstance(t, ast.Name)}
        for d in sorted(decs):
            n += 1
            bad = [e for e in own_nodes(fi.node) if isinstance(e, (ast.BinOp, ast.AugAssign)) and
                   any(isinstance(o, ast.Name) and o.id == d for o in ((e.left, e.right) if isinstance(e, ast.BinOp) else (e.target, e.value)))]
            rep.ob(rule, f"{fi.qualname}:{d}", not bad, fi.where(bad[0] if bad else None),
                   "read through as_integer_ratio / comparisons only" if not bad else
                   f"`{norm(bad[0])}` is Decimal arithmetic: it rounds to the caller's decimal context, so the conversion is exact only under a wide enough one")
    rep.floor(rule, 1)


def rule_dust_unspendable(ctx: Ctx, rep: Report) -> None:
    """C18.dust_unspendable: the zero threshold is for a script that *starts*
    with OP_RETURN (nothing else is unspendable by that byte): the test is on
    the first byte, never a search of the whole script -- 0x6a occurs inside
    pushed data of ordinary outputs, which would then be "never dust"."""
    rule = "C18.dust_unspendable"
    dt = ctx.func("btclib.fee.dust_threshold")
    sp = dt.params()[0]
    tests = [c for c in own_nodes(dt.node) if isinstance(c, (ast.Compare, ast.Call)) and "OP_RETURN" in norm(c) and sp in norm(c)
             and not any(isinstance(x, (ast.Compare,)) and x is not c and "OP_RETURN" in norm(x) for x in ast.walk(c))]
    tests = [c for c in tests if isinstance(c, ast.Compare) or call_name(c) in ("startswith",)]
    if not tests:
        rep.unknown(rule, "dust_threshold", dt.where(), "no comparison of the script with OP_RETURN found in the shape this rule reads")
        return
    for c in tests:
        if isinstance(c, ast.Call):
            rep.ob(rule, "first_byte", True, dt.where(c), "startswith(OP_RETURN)")
            continue
        op = c.ops[0]
        sides = [c.left, c.comparators[0]]
        first = any(isinstance(x, ast.Subscript) and norm(x.value) == sp and norm(x.slice) in (":1", "0:1", "0") for x in sides)
        if isinstance(op, (ast.In, ast.NotIn)):
            rep.ob(rule, "first_byte", False, dt.where(c), f"`{norm(c)}` searches the whole script for the OP_RETURN byte: an ordinary output whose pushed data contains 0x6a gets a dust threshold of zero")
        elif isinstance(op, (ast.Eq, ast.NotEq)) and first:
            rep.ob(rule, "first_byte", True, dt.where(c), "compares the first byte")
        else:
            rep.unknown(rule, "first_byte", dt.where(c), f"`{norm(c)}`: shape not recognised")


def rule_money(ctx: Ctx, rep: Report) -> None:
    """C18.money: amount ranges."""
    rule = "C18.money"
    A = "btclib.amount"
    rep.ob(rule, "constants", ctx.const(A, "_MAX_SATOSHI") == 21 * 10**14 or ctx.const(A, "_MAX_SATOSHI") == 2_100_000_000_000_000, f"{ctx.module(A).relpath}:1", f"_MAX_SATOSHI = {ctx.const(A, '_MAX_SATOSHI')!r}")
    vs = ctx.func(f"{A}.valid_sats_amount")
    cs = refusal_constraints(ctx, vs)
    ok = has(cs, "sats", "<", "dust") is not None and has(cs, "sats", ">", "_MAX_SATOSHI") is not None or (has(cs, "sats", "<", "dust") is not None and has_bound(cs, ">", 21 * 10**14, subject="sats") is not None)
    rep.ob(rule, "sats_range", ok, vs.where(), "dust <= sats <= 21e14")
    rep.ob(rule, "sats_bool_refused", any("isinstance(amount, bool)" in c.subject for c in cs), vs.where(), "a bool is not an amount")
    vb = ctx.func(f"{A}.valid_btc_amount")
    cb = refusal_constraints(ctx, vb)
    rep.ob(rule, "btc_range", has(cb, "btc", "<", "dust") is not None and has(cb, "btc", ">", "_MAX_BITCOIN") is not None, vb.where(), "dust <= btc <= 21e6")
    rep.ob(rule, "btc_8_decimals", "btc == btc.quantize(_BITCOIN_PER_SATOSHI)" in norm(vb.node), vb.where(), "no more than eight decimals")
    to = ctx.func("btclib.tx.tx_out.TxOut.assert_valid")
    rep.ob(rule, "TxOut.assert_valid", bool(ctx.calls_to(to, "valid_sats_amount", last=True)), to.where(), "an output's value is a valid satoshi amount")


def rule_params_forwarded_(ctx: Ctx, rep: Report) -> None:
    """C18.params_forwarded: a parameter is handed on to callees that have a parameter of the same name (see sigcommon.rule_params_forwarded)."""
    from rules.sigcommon import rule_params_forwarded
    rule_params_forwarded(ctx, rep, "C18.params_forwarded", ('btclib.fee', 'btclib.amount', 'btclib.psbt.psbt_size'), 15)


def rule_finalized_predicate(ctx: Ctx, rep: Report) -> None:
    """C18.finalized_predicate: "this input is finalized" is one predicate wherever
    it is asked -- a final script_sig *or* a final witness (a native segwit
    input has only the latter). The size estimate, the signer's skip, the
    finalizer and PsbtIn.serialize must agree, or a finalized p2wpkh / p2tr
    input is re-estimated from fields `finalize` has just cleared."""
    rule = "C18.finalized_predicate"
    n = 0
    for fi in sorted(ctx.prog.functions.values(), key=lambda f: f.qualname):
        if not fi.module.name.startswith("btclib.psbt"):
            continue
        tests = [t.ast for t in ctx.cfg(fi).nodes if t.kind == "test" and t.ast is not None] if any(
            isinstance(x, ast.Attribute) and x.attr == "final_script_sig" for x in own_nodes(fi.node)) else []
        # group leaf tests by their statement: `a or b` is two leaves of one `if`
        by_stmt: dict[int, list[str]] = {}
        for t in ctx.cfg(fi).nodes if tests else []:
            if t.kind == "test" and t.ast is not None and isinstance(t.ast, ast.Attribute) and t.ast.attr in ("final_script_sig", "final_script_witness"):
                by_stmt.setdefault(id(t.stmt), []).append(t.ast.attr)
        for x in own_nodes(fi.node):
            if isinstance(x, ast.BoolOp) and isinstance(x.op, ast.Or) and not isinstance(parent(x), (ast.If, ast.While, ast.IfExp)):
                attrs = [v.attr for v in x.values if isinstance(v, ast.Attribute)]
                if "final_script_sig" in attrs or "final_script_witness" in attrs:
                    by_stmt.setdefault(id(x), []).extend(attrs)
        for k, attrs in by_stmt.items():
            if set(attrs) == {"final_script_witness"}:
                continue  # "does it have a witness to copy", not "is it finalized"
            n += 1
            ok = {"final_script_sig", "final_script_witness"} <= set(attrs)
            rep.ob(rule, f"{fi.qualname}:{'|'.join(sorted(set(attrs)))}@{n}", ok, fi.where(), "asks both final fields" if ok else
                   f"`finalized` is decided on {sorted(set(attrs))} alone: an input finalized with only the other field is not seen as finalized")
    rep.floor(rule, 3)


def rule_no_stale_cache_(ctx: Ctx, rep: Report) -> None:
    """C18.no_stale_cache: a memoized mutable answer is never handed out or edited; a cached_property lives only in a frozen dataclass (see sigcommon.rule_no_stale_cache)."""
    from rules.sigcommon import rule_no_stale_cache
    rule_no_stale_cache(ctx, rep, "C18.no_stale_cache", ('btclib.tx', 'btclib.psbt', 'btclib.amount'), 1)


def rule_multisig_m(ctx: Ctx, rep: Report) -> None:
    """C18.multisig_m: the number of signatures a bare multisig spend pushes is
    the m of its OP_m, and OP_1..OP_16 are the bytes 0x51..0x60: the expression
    psbt_size computes m with, evaluated at each of the sixteen bytes, gives
    1..16. (`& 0x0F` agrees on fifteen of them and answers 0 for OP_16.)"""
    rule = "C18.multisig_m"
    fi = ctx.func("btclib.psbt.psbt_size._solution_sizes")
    params = fi.params()
    cands = [a for a in own_nodes(fi.node) if isinstance(a, ast.Assign) and isinstance(a.targets[0], ast.Name)
             and any(isinstance(x, ast.Subscript) and isinstance(x.value, ast.Name) and x.value.id in params and ctx.fold(x.slice, fi.module) == 0 for x in ast.walk(a.value))]
    used = [a for a in cands if any(isinstance(m, ast.BinOp) and isinstance(m.op, ast.Mult) and any(isinstance(y, ast.Name) and y.id == a.targets[0].id for y in (m.left, m.right)) for m in own_nodes(fi.node))]
    if len(used) != 1:
        rep.unknown(rule, "_solution_sizes:m", fi.where(), f"{len(used)} candidates for the signature count")
        return
    a = used[0]
    sub = [x for x in ast.walk(a.value) if isinstance(x, ast.Subscript) and isinstance(x.value, ast.Name) and x.value.id in params][0]
    text = str(norm(a.value))
    bad = []
    for b in range(0x51, 0x61):
        e = ast.parse(text.replace(str(norm(sub)), str(b)), mode="eval").body
        v = ctx.fold(e, fi.module)
        if v != b - 0x50:
            bad.append(f"OP_{b - 0x50} (0x{b:02x}) -> {v!r}")
    rep.ob(rule, "_solution_sizes:m", not bad, fi.where(a), f"`{text}` is 1..16 on OP_1..OP_16" if not bad else f"`{text}`: {', '.join(bad[:3])}: the size of a 16-of-16 spend is estimated with no signature")
    rep.floor(rule, 1)


def rule_amount_precision(ctx: Ctx, rep: Report) -> None:
    """C18.amount_precision: MAX_MONEY is 2 099 999 997 690 000 satoshi, sixteen
    digits: a decimal context the amount conversions set up for themselves
    carries at least that many (the default 28 does), or the product is rounded
    and btc_from_sats(sats_from_btc(x)) is another amount. Any `prec` stored
    into a context in btclib.amount is compared with the digits of MAX_MONEY."""
    rule = "C18.amount_precision"
    mi = ctx.module("btclib.amount")
    mm = ctx.const("btclib.amount", "MAX_MONEY")
    if not isinstance(mm, int):
        mm = ctx.fold(ast.parse("MAX_MONEY", mode="eval").body, mi)
    need = len(str(mm)) if isinstance(mm, int) else 16
    n = 0
    for q, fi in sorted(mi.functions.items()):
        for a in own_nodes(fi.node):
            if isinstance(a, ast.Assign) and any(isinstance(t, ast.Attribute) and t.attr == "prec" for t in a.targets):
                v = ctx.fold(a.value, mi)
                n += 1
                ok = isinstance(v, int) and v >= need
                rep.ob(rule, f"{fi.qualname}:prec", ok, fi.where(a), f"precision {v} holds the {need} digits of MAX_MONEY" if ok else
                       f"`{norm(a)}`: MAX_MONEY has {need} digits; amounts above 10^{v} satoshi are rounded by the conversion")
            if isinstance(a, ast.Call) and call_name(a) in ("Context", "localcontext", "setcontext", "getcontext"):
                for k in a.keywords:
                    if k.arg == "prec":
                        v = ctx.fold(k.value, mi)
                        n += 1
                        ok = isinstance(v, int) and v >= need
                        rep.ob(rule, f"{fi.qualname}:prec", ok, fi.where(a), f"precision {v}" if ok else f"`{norm(a)[:60]}`: MAX_MONEY has {need} digits")
    # the module's own context constants (`_CONTEXT = Context(prec=...)`)
    for st in mi.tree.body:
        if isinstance(st, ast.Assign) and isinstance(st.value, ast.Call) and call_name(st.value) == "Context":
            for k in st.value.keywords:
                if k.arg == "prec":
                    v = ctx.fold(k.value, mi)
                    n += 1
                    ok = isinstance(v, int) and v >= need
                    rep.ob(rule, f"btclib.amount.{norm(st.targets[0])}:prec", ok, f"btclib/amount.py:{st.lineno}", f"precision {v} holds the {need} digits of MAX_MONEY" if ok else
                           f"`{norm(st)[:60]}`: MAX_MONEY has {need} digits; amounts above 10^{v} satoshi are rounded by the conversion")
    rep.ob(rule, "scanned", True, "btclib/amount.py:1", f"{n} precisions set in btclib.amount; {need} digits needed")
    rep.floor(rule, 2)


def rule_ctor_copies_containers_(ctx: Ctx, rep: Report) -> None:
    """C18.ctor_copies_containers: a constructor stores its own copy of a sequence / mapping argument (see sigcommon.rule_ctor_copies_containers)."""
    from rules.sigcommon import rule_ctor_copies_containers
    rule_ctor_copies_containers(ctx, rep, "C18.ctor_copies_containers", ('btclib.psbt', 'btclib.tx', 'btclib.script'), 15)


def rule_nested_validated_(ctx: Ctx, rep: Report) -> None:
    """C18.nested_validated: assert_valid validates every nested wire object (see sigcommon.rule_nested_validated)."""
    from rules.sigcommon import rule_nested_validated
    rule_nested_validated(ctx, rep, "C18.nested_validated", ('btclib.psbt', 'btclib.tx'), 6)


def rule_taproot_sig_size_by_type(ctx: Ctx, rep: Report) -> None:
    """C18.taproot_sig_size_by_type: a BIP341 key path signature is 64 bytes under
    SIGHASH_DEFAULT (field absent or 0) and 65 under every other type BIP341
    admits -- 1, 2, 3 and their ANYONECANPAY forms 0x81, 0x82, 0x83. The
    answer of `_taproot_sig_size` is folded for each of those eight field
    values and compared."""
    import copy
    from sa.consts import Unknown
    rule = "C18.taproot_sig_size_by_type"
    fi = ctx.func("btclib.psbt.psbt_size._taproot_sig_size")
    rets = sorted((r for r in own_nodes(fi.node) if isinstance(r, ast.Return) and r.value is not None), key=lambda r: r.lineno)
    if len(rets) != 1 or not fi.node.args.args:
        rep.unknown(rule, "_taproot_sig_size", fi.where(), "not a single-return function of the input")
        return
    par = fi.node.args.args[0].arg
    local = {a.targets[0].id: a.value for a in own_nodes(fi.node) if isinstance(a, ast.Assign) and len(a.targets) == 1 and isinstance(a.targets[0], ast.Name)}

    class Sub(ast.NodeTransformer):
        def visit_Attribute(self, n):
            if isinstance(n.value, ast.Name) and n.value.id == par and n.attr == "sig_hash_type":
                return ast.Name(id="__sht", ctx=ast.Load())
            return self.generic_visit(n)

        def visit_Name(self, n):
            if n.id in local and isinstance(n.ctx, ast.Load):
                return self.visit(copy.deepcopy(local[n.id]))
            return n

    expr = Sub().visit(copy.deepcopy(rets[0].value))
    try:
        base = ctx.fold(ast.Name(id="SCHNORR_SIG_SIZE", ctx=ast.Load()), fi.module)
    except Unknown:
        base = 64
    for v in (None, 0, 1, 2, 3, 0x81, 0x82, 0x83):
        try:
            got = ctx.fold(expr, fi.module, {"__sht": v})
        except Unknown as e:
            rep.unknown(rule, f"sig_hash_type={v!r}", fi.where(rets[0]), f"not folded: {e}")
            continue
        want = base + (0 if v in (None, 0) else 1)
        rep.ob(rule, f"sig_hash_type={v!r}", got == want, fi.where(rets[0]),
               f"{got} bytes" if got == want else f"`{norm(rets[0])}` is {got} bytes where a signature under sig_hash type {v!r} is {want}")
    rep.floor(rule, 8)


RULES = [
    ("C18.taproot_sig_size_by_type", rule_taproot_sig_size_by_type),

    ("C18.nested_validated", rule_nested_validated_),

    ("C18.ctor_copies_containers", rule_ctor_copies_containers_),

    ("C18.multisig_m", rule_multisig_m),
    ("C18.amount_precision", rule_amount_precision),
    ("C18.no_stale_cache", rule_no_stale_cache_),

    ("C18.finalized_predicate", rule_finalized_predicate),
    ("C18.params_forwarded", rule_params_forwarded_),
    ("C18.size_vs_serialize", rule_size_vs_serialize),
    ("C18.weight", rule_weight),
    ("C18.fee", rule_fee),
    ("C18.builder", rule_builder),
    ("C18.vsize_ceil", rule_vsize_ceil),
    ("C18.exact_rate", rule_exact_rate),
    ("C18.dust_unspendable", rule_dust_unspendable),
    ("C18.money", rule_money),
]

CONTROLS = [
    {"rule": "C18.amount_precision", "name": "the module's context pins fifteen digits", "module": "btclib.amount",
     "edit": lambda ctx: M.sub_module_expr(ctx, "btclib.amount", lambda n: isinstance(n, ast.keyword) and n.arg == "prec" and isinstance(n.value, ast.Constant), "prec=15")},
    {"rule": "C18.multisig_m", "name": "m read off the low four bits of OP_m", "module": "btclib.psbt.psbt_size",
     "edit": lambda ctx: M.sub_expr(ctx, "btclib.psbt.psbt_size._solution_sizes", lambda n: isinstance(n, ast.BinOp) and isinstance(n.op, ast.Sub) and "payload[0]" in norm(n.left), "payload[0] & 0x0F")},

    {"rule": "C18.no_stale_cache", "name": "the weight of a mutable transaction is computed once", "module": "btclib.tx.tx",
     "edit": lambda ctx: M.sub_module_expr(ctx, "btclib.tx.tx", lambda n: isinstance(n, ast.Name) and n.id == "property" and isinstance(parent(n), ast.FunctionDef) and parent(n).name == "weight",
                                           "__import__('functools').cached_property")},

    {"rule": "C18.finalized_predicate", "name": "the size estimate asks the final script_sig alone", "module": "btclib.psbt.psbt_size",
     "edit": lambda ctx: M.sub_expr(ctx, "btclib.psbt.psbt_size.estimated_input_sizes", M.is_text("psbt_in.final_script_sig or psbt_in.final_script_witness"), "psbt_in.final_script_sig")},
    {"rule": "C18.vsize_ceil", "name": "the fee owed is priced on weight // 4", "module": "btclib.tx_builder",
     "edit": lambda ctx: M.sub_expr(ctx, "btclib.tx_builder.build_psbt", lambda n: isinstance(n, ast.Assign) and norm(n.targets[0]) == "owed",
                                    "owed = fee_from_vsize(psbt.weight_estimate(sizer) // 4, fee_rate)")},
    {"rule": "C18.exact_rate", "name": "sat/vB scaled by Decimal multiplication", "module": "btclib.fee",
     "edit": lambda ctx: M.sub_expr(ctx, "btclib.fee.FeeRate.from_sats_per_vbyte", lambda n: isinstance(n, ast.Assign) and "as_integer_ratio" in norm(n.value),
                                    "numerator, denominator = int(rate * _VBYTES_PER_KVBYTE), _VBYTES_PER_KVBYTE")},
    {"rule": "C18.dust_unspendable", "name": "OP_RETURN searched anywhere in the script", "module": "btclib.fee",
     "edit": lambda ctx: M.sub_expr(ctx, "btclib.fee.dust_threshold", lambda n: isinstance(n, ast.Compare) and "OP_RETURN" in norm(n) and isinstance(n.ops[0], ast.Eq),
                                    "BYTE_FROM_OP_CODE_NAME['OP_RETURN'] in script_pub_key")},
    {"rule": "C18.size_vs_serialize", "name": "TxIn size forgets the sequence", "module": "btclib.tx.tx_in",
     "edit": lambda ctx: M.sub_expr(ctx, "btclib.tx.tx_in.TxIn._serialized_size", lambda n: isinstance(n, ast.Return), "return self.prev_out._serialized_size() + var_bytes._size(self.script_sig)")},
    {"rule": "C18.size_vs_serialize", "name": "Tx size counts the output count as one byte", "module": "btclib.tx.tx",
     "edit": lambda ctx: M.sub_expr(ctx, "btclib.tx.tx.Tx._serialized_size", M.is_text("size += var_int._size(len(self.vout))"), "size += 1")},
    {"rule": "C18.weight", "name": "block weight uses 4x stripped", "module": "btclib.block.block",
     "edit": lambda ctx: M.sub_expr(ctx, "btclib.block.block.Block.weight", M.is_text("WITNESS_SCALE_FACTOR - 1"), "WITNESS_SCALE_FACTOR")},
    {"rule": "C18.weight", "name": "vsize rounds down", "module": "btclib.tx.tx",
     "edit": lambda ctx: M.sub_expr(ctx, "btclib.tx.tx.Tx.vsize", M.is_text("ceil(self.weight / 4)"), "self.weight // 4")},
    {"rule": "C18.fee", "name": "fee rounds down", "module": "btclib.fee",
     "edit": lambda ctx: M.sub_expr(ctx, "btclib.fee.fee_from_vsize", lambda n: isinstance(n, ast.IfExp), "sats")},
    {"rule": "C18.builder", "name": "change kept when above dust (strict)", "module": "btclib.tx_builder",
     "edit": lambda ctx: M.sub_expr(ctx, "btclib.tx_builder.build_psbt", M.is_text("change >= dust_threshold(change_script, dust_fee_rate)"), "change > dust_threshold(change_script, dust_fee_rate)")},
    {"rule": "C18.builder", "name": "underfunding compared with <=", "module": "btclib.tx_builder",
     "edit": lambda ctx: M.sub_expr(ctx, "btclib.tx_builder.build_psbt", M.is_text("remainder < owed"), "remainder + 1 < owed")},
    {"rule": "C18.money", "name": "max satoshi off by one", "module": "btclib.amount",
     "edit": lambda ctx: M.sub_expr(ctx, "btclib.amount.valid_sats_amount", M.is_text("dust <= sats <= _MAX_SATOSHI"), "dust <= sats < _MAX_SATOSHI")},
]
