"""C06 -- text encodings and addresses round-trip and accept exactly what the specs accept.

Round-trip equality and the polymod arithmetic are not decided. Decided: the
checksum comparison gates every decoded payload; the comparison-only
acceptance rules of BIP173/BIP350/BIP141 and Base58Check against spec rows;
the checksum constants and generator; network prefix tables (a mainnet prefix
is never a test one).
"""

from __future__ import annotations

import ast
import json
import os

from sa import mutate as M
from sa.consts import UNKNOWN
from sa import pattern as PT
from sa.ctx import Ctx
from sa.loader import AnalysisError, call_name, norm, own_nodes, parent
from sa.ranges import has, has_bound, refusal_constraints
from sa.report import Report

NOTES = ("C06: decides checksum gating, comparison-only acceptance rows (BIP173/350/141, Base58Check), checksum constants "
         "and network prefix tables; round-trip equality and the checksum arithmetic are not decided.")
BE = "btclib.bech32"
B58 = "btclib.base58"
B32 = "btclib.b32"
SPK = "btclib.script.script_pub_key"


def rule_checksum_gate(ctx: Ctx, rep: Report) -> None:
    """C06.checksum_gate: a decoder returns a payload only past the checksum comparison."""
    rule = "C06.checksum_gate"
    d = ctx.func(f"{B58}.decode")
    g = ctx.cfg(d)
    hits = [n for t, pol, n in ctx.refusals(d) if pol and isinstance(t, ast.Compare) and isinstance(t.ops[0], ast.NotEq) and "checksum" in norm(t) and ("h256[:4]" in norm(t) or "hash256" in norm(t))]
    ok = bool(hits) and g.must_pass([h.id for h in hits]) is None
    rep.ob(rule, "base58.decode", ok, d.where(), "checksum != hash256(payload)[:4] refused on every path to a return" if ok else "a payload is returned without the checksum comparison")
    mb: dict[str, str] = {}
    sp = PT.find(d.node, "$res, $chk = ($res[:-4], $res[-4:])", mb)
    rep.ob(rule, "base58.decode:split", sp is not None, d.where(sp), "payload = all but the last 4 bytes, checksum = the last 4")
    h = PT.find(d.node, "$h = hash256($res)", mb)
    rep.ob(rule, "base58.decode:hash_of_payload", h is not None and sp is not None and h.lineno > sp.lineno, d.where(h), "the hash is of the payload (after the split)")
    e = ctx.func(f"{B58}.encode")
    rets = [n for n in own_nodes(e.node) if isinstance(n, ast.Return)]
    rep.ob(rule, "base58.encode", bool(rets) and norm(rets[0].value) == "_b58encode(v + h256[:4])", e.where(), "appends hash256(v)[:4]")
    bd = ctx.func(f"{BE}.decode")
    gb = ctx.cfg(bd)
    rets = [n for n in gb.nodes if n.kind == "stmt" and isinstance(n.ast, ast.Return)]
    ok = bool(rets) and all(any("_verify_checksum" in t and p for t, p in gb.facts()[n.id]) for n in rets)
    rep.ob(rule, "bech32.decode", ok, bd.where(), "returns only where _verify_checksum(...) is true")
    vc = ctx.func(f"{BE}._verify_checksum")
    r = [n for n in own_nodes(vc.node) if isinstance(n, ast.Return)]
    rep.ob(rule, "bech32._verify_checksum", bool(r) and norm(r[0].value) == "_polymod(_hrp_expand(hrp) + data) == m", vc.where(), "polymod(hrp_expand(hrp) + data) == const")
    call = [c for c in own_nodes(bd.node) if isinstance(c, ast.Call) and call_name(c) == "_verify_checksum"]
    rep.ob(rule, "bech32.decode:covers_checksum_chars", bool(call) and norm(call[0].args[1]) == "data + checksum", bd.where(), "the six checksum characters are part of what is verified")
    mv = ctx.func(f"{BE}._m_from_wit_ver")
    r = [n for n in own_nodes(mv.node) if isinstance(n, ast.Return)]
    ok = bool(r) and isinstance(r[0].value, ast.IfExp) and norm(r[0].value.test) == "wit_ver == 0" and ctx.fold(r[0].value.body, mv.module) == 1 and ctx.fold(r[0].value.orelse, mv.module) == 0x2BC830A3
    rep.ob(rule, "bech32:constant_by_version", ok, mv.where(), "version 0 -> bech32 (1); others -> bech32m (0x2bc830a3)")
    for q in (f"{BE}.decode", f"{BE}.encode"):
        fi = ctx.func(q)
        a = [n for n in own_nodes(fi.node) if isinstance(n, ast.Assign) and norm(n.targets[0]) == "m"]
        rep.ob(rule, f"{fi.name}:constant_default", bool(a) and norm(a[0].value) == "_m_from_wit_ver(data) if m is None else m", fi.where(), "the constant follows the witness version unless the caller fixes it")


def rule_constants(ctx: Ctx, rep: Report) -> None:
    """C06.constants: alphabets, generator and derived tables are the specs'."""
    rule = "C06.constants"
    rep.ob(rule, "bech32:alphabet", ctx.const(BE, "_ALPHABET") == "qpzry9x8gf2tvdw0s3jn54khce6mua7l", "btclib/bech32.py:1", "BIP173 charset")
    rep.ob(rule, "bech32:generator", ctx.const(BE, "_GENERATOR") == (0x3B6A57B2, 0x26508E6D, 0x1EA119FA, 0x3D4233DD, 0x2A1462B3), "btclib/bech32.py:1", "BIP173 generator")
    rep.ob(rule, "bech32:constants", ctx.const(BE, "_BECH32_1_CONST") == 1 and ctx.const(BE, "_BECH32_M_CONST") == 0x2BC830A3, "btclib/bech32.py:1", "1 and 0x2bc830a3")
    a58 = ctx.const(B58, "_ALPHABET")
    rep.ob(rule, "base58:alphabet", a58 == b"123456789ABCDEFGHJKLMNPQRSTUVWXYZabcdefghijkmnopqrstuvwxyz", "btclib/base58.py:1", "the bitcoin base58 alphabet")
    he = ctx.func(f"{BE}._hrp_expand")
    r = [n for n in own_nodes(he.node) if isinstance(n, ast.Return)]
    rep.ob(rule, "bech32:hrp_expand", bool(r) and norm(r[0].value) == "[ord(x) >> 5 for x in hrp] + [0] + [ord(x) & 31 for x in hrp]", he.where(), "high bits, 0, low bits")
    cc = ctx.func(f"{BE}._create_checksum")
    txt = PT.text(cc)
    mcs: dict[str, str] = {}
    okc = PT.has(cc.node, "$pm = _polymod([*$vals, 0, 0, 0, 0, 0, 0]) ^ m", mcs) and (
        PT.has(cc.node, "return [$pm >> 5 * (5 - $i) & 31 for $i in range(6)]", mcs))
    rep.ob(rule, "bech32:create_checksum", bool(okc), cc.where(), "six zero values appended, xor the constant, six 5-bit groups")
    pm = ctx.func(f"{BE}._polymod")
    rep.ob(rule, "bech32:polymod_shape", "(chk & 33554431) << 5 ^ value ^ _TAPS[chk >> 25]" in norm(pm.node), pm.where(), "chk = (chk & 0x1ffffff) << 5 ^ v ^ taps[chk >> 25]")


def rule_ranges(ctx: Ctx, rep: Report) -> None:
    """C06.ranges: comparison-only acceptance rules."""
    rule = "C06.ranges"
    d = ctx.func(f"{BE}._decode")
    cs = refusal_constraints(ctx, d)
    rep.ob(rule, "bech32:separator", has(cs, "pos", "==", -1) is not None, d.where(), "no separator refused")
    rep.ob(rule, "bech32:hrp_nonempty", has(cs, "pos", "==", 0) is not None, d.where(), "empty HRP refused")
    rep.ob(rule, "bech32:checksum_len", has(cs, "pos + 7", ">", "len(text)") is not None, d.where(), "fewer than six checksum characters refused")
    md: dict[str, str] = {}
    sep = PT.find(d.node, "$pos = $text.rfind('1')", md)
    pos_, text_ = md.get("pos", "pos"), md.get("text", "text")
    rep.ob(rule, "bech32:last_separator", sep is not None and has(cs, pos_, "==", -1) is not None, d.where(sep), "the separator is the LAST '1'")
    lo, up = f"{text_}.lower()", f"{text_}.upper()"
    mc = [c for c in cs if c.op == "!=" and {str(c.subject), str(c.value_text)} == {up, text_} and any(p and str(t) in (f"{lo} != {text_}", f"{text_} != {lo}") for t, p in c.facts)] + \
         [c for c in cs if c.op == "!=" and {str(c.subject), str(c.value_text)} == {lo, text_} and any(p and str(t) in (f"{up} != {text_}", f"{text_} != {up}") for t, p in c.facts)]
    rep.ob(rule, "bech32:mixed_case", bool(mc), d.where(), "a string that is neither all lower nor all upper case is refused")
    rep.ob(rule, "bech32:data_alphabet", sum(1 for c in cs if c.subject == "-1" or (c.op == "in" and c.value_text.startswith("indices"))) >= 1 or sum(1 for t, p, _ in ctx.refusals(d) if norm(t).startswith("-1 in indices")) >= 2, d.where(), "characters outside the charset refused (data and checksum)")
    # HRP character range: BIP173 says 33..126
    hrp_all = [t for t, pol, _ in ctx.refusals(d) if isinstance(t, ast.Call) and call_name(t) == "all" and "ord(x)" in norm(t) and pol is False]
    lo = hi = None
    if hrp_all:
        cmp_ = hrp_all[0].args[0].elt
        if isinstance(cmp_, ast.Compare) and len(cmp_.ops) == 2:
            a, b = ctx.fold(cmp_.left, d.module), ctx.fold(cmp_.comparators[1], d.module)
            lo = a + 1 if isinstance(cmp_.ops[0], ast.Lt) else a
            hi = b - 1 if isinstance(cmp_.ops[1], ast.Lt) else b
    rep.ob(rule, "bech32:hrp_charset", (lo, hi) == (33, 126), d.where(),
           "HRP characters 33..126 (BIP173)" if (lo, hi) == (33, 126) else f"HRP characters accepted in {lo}..{hi}; BIP173 and its reference decoder accept 33..126")
    e = ctx.func(f"{BE}.encode")
    ce = refusal_constraints(ctx, e)
    rep.ob(rule, "bech32.encode:5bit", has_bound(ce, "<", 0, subject="d") is not None and has_bound(ce, ">=", 32, subject="d") is not None, e.where(), "values outside 0..31 refused")
    w = ctx.func(f"{B32}.witness_from_address")
    rep.ob(rule, "b32:length_90", has_bound(refusal_constraints(ctx, w), ">", 90, subject="len(addr)") is not None, w.where(), "longer than 90 characters refused")
    conv = [c for c in own_nodes(w.node) if isinstance(c, ast.Call) and call_name(c) == "power_of_2_base_conversion"]
    rep.ob(rule, "b32:strict_padding", bool(conv) and len(conv[0].args) == 4 and ctx.fold(conv[0].args[3], w.module) is False and norm(conv[0].args[0]) == "data[1:]", w.where(), "5-to-8 regrouping of data[1:] without padding tolerance")
    bw = ctx.func(f"{B32}.bytes_from_witness_program")
    cw = refusal_constraints(ctx, bw)
    rep.ob(rule, "b32:witness_version", has_bound(cw, "<", 0, subject="wit_ver") is not None and has_bound(cw, ">=", 17, subject="wit_ver") is not None, bw.where(), "witness version 0..16")
    calls = [c for c in own_nodes(bw.node) if isinstance(c, ast.Call) and call_name(c) == "bytes_from_octets"]
    g = ctx.cfg(bw)
    sizes = {}
    for c in calls:
        v0 = any(t == "wit_ver == 0" and p for t, p in g.facts_at_ast(c))
        sz = ctx.fold(c.args[1], bw.module) if len(c.args) > 1 else None
        sizes["v0" if v0 else "other"] = frozenset(sz) if isinstance(sz, (tuple, list, range)) else sz
    rep.ob(rule, "b32:program_length", sizes.get("v0") == frozenset({20, 32}) and sizes.get("other") == frozenset(range(2, 41)), bw.where(), f"v0: {sorted(sizes.get('v0') or [])}; others: 2..40")
    pc = ctx.func(f"{B32}.power_of_2_base_conversion")
    cp = refusal_constraints(ctx, pc)
    rep.ob(rule, "b32:padding_rules", any("bits >= from_bits" in c.subject + " " + c.op + " " + c.value_text or (c.subject == "bits" and c.op == ">=") for c in cp) and any("maxv" in c.subject for c in cp), pc.where(), "more than from_bits-1 padding bits, or non-zero padding, refused")
    rep.ob(rule, "b32:value_range", any(c.subject == "value" and c.op == "<" and c.value == 0 for c in cp) and any("value >> from_bits" in c.subject for c in cp), pc.where(), "digits outside the source base refused")
    sg = ctx.func(f"{SPK}.assert_segwit")
    refs = [(norm(t), pol) for t, pol, _ in ctx.refusals(sg)]
    tests = [norm(n.test) for n in own_nodes(sg.node) if isinstance(n, ast.If)]
    okv = any(t == "not (script_pub_key[0] == 0 or 81 <= script_pub_key[0] <= 96)" for t in tests) or \
        (any(t == "script_pub_key[0] == 0" and not p_ for t, p_ in refs) and any(t == "81 <= script_pub_key[0] <= 96" and not p_ for t, p_ in refs))
    rep.ob(rule, "spk:segwit_version_byte", okv, sg.where(), "first byte 0 or 0x51..0x60")
    okl = any(t == "len(script_pub_key) == 1" and p_ for t, p_ in refs) and any(t == "2 <= script_pub_key[1] <= 40" and not p_ for t, p_ in refs) \
        and any(t == "len(script_pub_key) != script_pub_key[1] + 2" and p_ for t, p_ in refs)
    rep.ob(rule, "spk:segwit_program_len", okl, sg.where(), "push of 2..40 bytes and nothing else")
    b = ctx.func(f"{B58}.decode")
    cb = refusal_constraints(ctx, b)
    ml = ctx.const(B58, "MAX_LENGTH")
    rep.ob(rule, "base58:max_length", isinstance(ml, int) and has_bound(cb, ">", ml, subject="len(v)") is not None, b.where(), f"more than {ml} characters refused")
    rep.ob(rule, "base58:min_bytes", has_bound(cb, "<", 4, subject="len(result)") is not None, b.where(), "fewer than 4 decoded bytes refused")
    bd = ctx.func(f"{B58}._b58decode")
    rep.ob(rule, "base58:alphabet_only", any("translate(None, _ALPHABET)" in c.subject for c in refusal_constraints(ctx, bd)), bd.where(), "characters outside the alphabet refused")
    rep.ob(rule, "base58:size_check", any(c.op == "==" or c.op == "!=" for c in cb if "out_size" in c.subject + c.value_text) or any("len(result) == out_size" in norm(n.test) for n in own_nodes(b.node) if isinstance(n, ast.If)), b.where(), "the decoded size is compared with out_size")


def rule_networks(ctx: Ctx, rep: Report) -> None:
    """C06.networks: prefix tables keep mainnet and test strings apart."""
    rule = "C06.networks"
    ddir = os.path.join(ctx.prog.repo, "btclib", "_data")
    nets = {}
    for fn in sorted(os.listdir(ddir)):
        if fn.endswith(".json") and fn != "bip44_purposes.json":
            with open(os.path.join(ddir, fn), encoding="ascii") as f:
                nets[fn[:-5]] = json.load(f)
    if len(nets) < 5:
        raise AnalysisError(f"network data files: {sorted(nets)}")
    fields = set(ctx.cls("btclib.network.Network").fields())
    for n, d in nets.items():
        rep.ob(rule, f"{n}:fields", set(d) == fields, f"btclib/_data/{n}.json", f"keys == Network fields ({len(d)})" if set(d) == fields else f"missing {sorted(fields - set(d))}, extra {sorted(set(d) - fields)}")
    names = ctx.const("btclib.network", "_network_names")
    rep.ob(rule, "loaded", isinstance(names, tuple) and set(names) == set(nets), "btclib/network.py:1", f"loaded {names}")
    mains = [n for n, d in nets.items() if d["network_type"] == "main"]
    tests = [n for n, d in nets.items() if d["network_type"] != "main"]
    prefix_fields = sorted(fields - {"curve", "network_type", "genesis_block"})
    for m in mains:
        for f in prefix_fields:
            clash = [t for t in tests if nets[t][f] == nets[m][f]]
            rep.ob(rule, f"{m}.{f}", not clash, f"btclib/_data/{m}.json", f"{nets[m][f]} is no test network's {f}" if not clash else f"shared with {clash}: a {m} string reads as a test one")
        for t in tests:
            a, b = nets[m]["hrp"] + "1", nets[t]["hrp"] + "1"
            rep.ob(rule, f"{m}/{t}:hrp_prefix", not (a.startswith(b) or b.startswith(a)), f"btclib/_data/{t}.json", f"{a} / {b} are not prefixes of one another")
    for n, d in nets.items():
        for f in prefix_fields:
            if f == "hrp":
                continue
            w = 1 if f in ("wif", "p2pkh", "p2sh") else 4
            ok = isinstance(d[f], str) and len(d[f]) == 2 * w and all(c in "0123456789abcdef" for c in d[f])
            rep.ob(rule, f"{n}.{f}:width", ok, f"btclib/_data/{n}.json", f"{w}-byte hex prefix {d[f]}")
    # version tables: prv and pub paired by position, first writer wins
    nm = ctx.module("btclib.network")
    prv = pub = None
    for n in ast.walk(nm.tree):
        if isinstance(n, ast.Assign) and isinstance(n.value, ast.Tuple):
            t = norm(n.targets[0])
            if t == "_prv_versions":
                prv = [norm(e).replace("_network.", "") for e in n.value.elts]
            elif t == "_pub_versions":
                pub = [norm(e).replace("_network.", "") for e in n.value.elts]
    ok = prv is not None and pub is not None and [p.replace("_prv", "_pub") for p in prv] == pub and len(prv) == 5
    rep.ob(rule, "version_pairs", ok, "btclib/network.py:1", f"prv {prv} / pub {pub} paired by position")
    src = nm.source
    rep.ob(rule, "version_pairs:strict_zip", "zip(_prv_versions, _pub_versions, strict=True)" in " ".join(src.split()), "btclib/network.py:1", "paired with zip(strict=True)")
    rep.ob(rule, "version_pairs:first_writer_wins", "_XPUB_VERSION_FROM_XPRV_VERSION.setdefault(_prv, _pub)" in " ".join(src.split()), "btclib/network.py:1", "setdefault: the first network to claim a version keeps it")
    for n in mains:
        for f in [x for x in prefix_fields if x.endswith("_prv")]:
            pubf = f.replace("_prv", "_pub")
            rep.ob(rule, f"{n}:{f}!={pubf}", nets[n][f] != nets[n][pubf], f"btclib/_data/{n}.json", "private and public versions differ")
    rep.floor(rule, 40)


def rule_wif(ctx: Ctx, rep: Report) -> None:
    """C06.wif: WIF / extended-key payload lengths."""
    rule = "C06.wif"
    rl = ctx.const("btclib.bip32.bip32", "_REQUIRED_LENGTH")
    rep.ob(rule, "xkey_78", rl == 78, "btclib/bip32/bip32.py:1", f"_REQUIRED_LENGTH = {rl}")
    w = ctx.func("btclib.to_prv_key._wif_prv_key_and_compression")
    tests = [norm(n.test) for n in own_nodes(w.node) if isinstance(n, ast.If)]
    rep.ob(rule, "wif_lengths", any(t == "len(payload) == n_size + 2" for t in tests) and any(t == "len(payload) == n_size + 1" for t in tests), w.where(), "payload of n_size+1 (uncompressed) or n_size+2 (compressed)")
    g = ctx.cfg(w)
    sfx = [c for c in refusal_constraints(ctx, w) if PT.fact(c.facts, "len(payload) == n_size + 2") and c.op == "!=" and (c.value == 1 or c.value == b"\x01")]
    rep.ob(rule, "wif_compressed_suffix", bool(sfx), w.where(), "a compressed WIF must end in 0x01")
    oth = [n for n in own_nodes(w.node) if isinstance(n, ast.Raise) and "wrong WIF size" in norm(n)]
    rep.ob(rule, "wif_other_sizes_refused", bool(oth), w.where(), "any other payload size is refused")


REVERSE_NETWORK_MAPS = {"network_from_xkeyversion", "network_from_key_value"}


def rule_network_membership(ctx: Ctx, rep: Report) -> None:
    """C06.network_membership: version bytes and prefixes are shared between
    networks (testnet, signet and regtest have one set of xpub versions, one
    WIF byte, ...), so "is this a key of network N" is asked as *the version
    is among N's versions* -- never by mapping the version back to the one
    network the reverse map names first and comparing names: a regtest key
    would then be refused as "not a regtest key"."""
    rule = "C06.network_membership"
    n = 0
    for fi in sorted(ctx.prog.functions.values(), key=lambda f: f.qualname):
        calls = [c for c in own_nodes(fi.node) if isinstance(c, ast.Call) and call_name(c) in REVERSE_NETWORK_MAPS]
        if not calls:
            continue
        params = set(fi.params())
        bound = {norm(t) for a in own_nodes(fi.node) if isinstance(a, ast.Assign) and any(a.value is c for c in calls) for t in a.targets}
        for c in own_nodes(fi.node):
            if not (isinstance(c, ast.Compare) and len(c.ops) == 1 and isinstance(c.ops[0], (ast.Eq, ast.NotEq))):
                continue
            sides = [c.left, c.comparators[0]]
            # a side *holds* the reverse-mapped network / the requested one: bare, or wrapped (network_from_name(x) == ...)
            rev = [x for x in sides if any((isinstance(y, ast.Call) and call_name(y) in REVERSE_NETWORK_MAPS) or (isinstance(y, ast.Name) and y.id in bound) for y in ast.walk(x))]
            req = [x for x in sides if any(isinstance(y, ast.Name) and y.id in params for y in ast.walk(x)) and x not in rev]
            if rev and req:
                rep.ob(rule, f"{fi.qualname}:{norm(c)}", False, fi.where(c),
                       f"`{norm(c)}` maps the version back to one network and compares names: the networks that share the version are refused")
        n += 1
        rep.ob(rule, f"{fi.qualname}:uses_reverse_map", True, fi.where(calls[0]), "reverse map used to name a network, not to test membership")
    # the membership tests that exist: asked against the set of the requested network's versions
    px = ctx.func("btclib.to_pub_key._pub_keyinfo_from_xpub")
    cs = refusal_constraints(ctx, px)
    okm = any(c.op == "not in" and "version" in str(c.subject) for c in cs)
    rep.ob(rule, "_pub_keyinfo_from_xpub:membership", okm, px.where(), "the xpub's version must be one of the requested network's versions")
    pv = ctx.func("btclib.to_prv_key._prv_keyinfo_from_xprv")
    cs2 = refusal_constraints(ctx, pv)
    okm2 = any(c.op == "not in" and "version" in str(c.subject) for c in cs2)
    rep.ob(rule, "_prv_keyinfo_from_xprv:membership", okm2, pv.where(), "the xprv's version must be one of the requested network's versions" if okm2 else
           f"no membership test of the xprv's version in the requested network's versions (refusals: {[c.show() for c in cs2][:3]})")
    rep.floor(rule, 4)


def rule_one_network(ctx: Ctx, rep: Report) -> None:
    """C06.one_network: a script over several keys is a script of one network:
    with no network named the first key names it, and *every later key is read
    against that one* -- so the loop over the remaining keys is handed the
    network the first call returned, not the caller's `None`, under which a
    mainnet and a testnet key are both "fine" and end up in one address."""
    rule = "C06.one_network"
    n = 0
    for fi in sorted(ctx.module("btclib.script.script_pub_key").functions.values(), key=lambda f: f.qualname):
        calls = [c for c in own_nodes(fi.node) if isinstance(c, ast.Call) and call_name(c) in ("pub_keyinfo_from_key", "pub_keyinfo_from_pub_key") and len(c.args) >= 2]
        looped = [c for c in calls if any(isinstance(a, (ast.ListComp, ast.GeneratorExp, ast.For, ast.SetComp)) for a in _ancestors_until(c, fi.node))]
        if not looped:
            continue
        g = ctx.cfg(fi)
        for c in looped:
            n += 1
            net = c.args[1]
            if not isinstance(net, ast.Name) or net.id not in fi.params():
                rep.ob(rule, f"{fi.qualname}:{norm(c)[:50]}", True, fi.where(c), "the network is not the caller's optional argument")
                continue
            # an assignment `<key>, <net> = pub_keyinfo_from_key(first, <net>, ...)` must lie on every path to the loop
            sets = [a for a in own_nodes(fi.node) if isinstance(a, ast.Assign) and isinstance(a.value, ast.Call) and call_name(a.value) in ("pub_keyinfo_from_key", "pub_keyinfo_from_pub_key")
                    and any(isinstance(t, ast.Tuple) and any(isinstance(e, ast.Name) and e.id == net.id for e in t.elts) for t in a.targets)]
            ok = bool(sets) and g.path_avoiding(g.nodes_containing(c), [i for a in sets for i in g.nodes_containing(a)]) is None
            rep.ob(rule, f"{fi.qualname}:{norm(c)[:50]}", ok, fi.where(c), "the remaining keys are read against the network the first key set" if ok else
                   f"the loop reads every key against the caller's `{net.id}` (possibly None) before the first key has set it: keys of different networks are accepted together")
    rep.floor(rule, 1)


def _ancestors_until(n: ast.AST, stop: ast.AST):
    n = parent(n)
    while n is not None and n is not stop:
        yield n
        n = parent(n)


def rule_own_fields(ctx: Ctx, rep: Report) -> None:
    """C06.own_fields: an object hands its own fields to the functions it delegates to (see sigcommon.rule_own_fields_forwarded)."""
    from rules.sigcommon import rule_own_fields_forwarded
    rule_own_fields_forwarded(ctx, rep, "C06.own_fields", ('btclib.script.script_pub_key', 'btclib.bip21'), 5)


def rule_params_forwarded_(ctx: Ctx, rep: Report) -> None:
    """C06.params_forwarded: a parameter is handed on to callees that have a parameter of the same name (see sigcommon.rule_params_forwarded)."""
    from rules.sigcommon import rule_params_forwarded
    rule_params_forwarded(ctx, rep, "C06.params_forwarded", ('btclib.b32', 'btclib.b58', 'btclib.base58', 'btclib.bech32', 'btclib.to_pub_key', 'btclib.to_prv_key', 'btclib.script.script_pub_key', 'btclib.network'), 60)


def rule_case_mapping(ctx: Ctx, rep: Report) -> None:
    """C06.case_mapping: bech32's "no mixed case" rule is the decoder's, and it
    can only refuse what it is shown. (a) No caller case-maps the whole string
    before handing it to a bech32 decoder (a lowered mixed-case string is a
    lower-case string). (b) Inside the decoder a whole-string `.lower()` is a
    Unicode mapping: it carries non-ascii characters *into* the charset (the
    Kelvin sign U+212A lowers to "k" and is its own upper case), so it is
    preceded by an `isascii()` refusal -- or the lowering is per character and
    ascii only."""
    from sa.canon import expand
    rule = "C06.case_mapping"
    decoders = {"btclib.bech32.decode", "btclib.bech32._decode", "btclib.b32.witness_from_address", "btclib.b32.address_from_witness"}
    n = 0
    for fi in sorted(ctx.prog.functions.values(), key=lambda f: f.qualname):
        for c in own_nodes(fi.node):
            if not (isinstance(c, ast.Call) and c.args and ctx.resolve_call(fi, c) in ("btclib.bech32.decode", "btclib.bech32._decode")):
                continue
            n += 1
            arg = ast.parse(str(expand(fi, c.args[0])), mode="eval")
            mapped = [x for x in ast.walk(arg) if isinstance(x, ast.Call) and isinstance(x.func, ast.Attribute) and x.func.attr in ("lower", "upper", "casefold", "swapcase", "title", "capitalize")]
            rep.ob(rule, f"{fi.qualname}->{call_name(c)}", not mapped, fi.where(c), "the decoder sees the string as it was written" if not mapped else
                   f"the string is `{norm(mapped[0])[-40:]}`-ed before bech32 sees it: a mixed-case string, which BIP173 refuses, arrives in one case")
    d = ctx.func(f"{BE}._decode")
    g = ctx.cfg(d)
    cs = refusal_constraints(ctx, d)
    ascii_guard = [c_ for c_ in cs if "isascii()" in str(c_.subject) and c_.op == "falsy" and not c_.from_fact]
    for a in own_nodes(d.node):
        if isinstance(a, ast.Assign) and isinstance(a.value, ast.Call) and isinstance(a.value.func, ast.Attribute) and a.value.func.attr in ("lower", "casefold") \
                and isinstance(a.value.func.value, ast.Name):
            n += 1
            ok = bool(ascii_guard) and g.path_avoiding(g.nodes_containing(a), [c_.test_id for c_ in ascii_guard if c_.test_id >= 0]) is None
            rep.ob(rule, f"_decode:{norm(a)}", ok, d.where(a), "behind an isascii() refusal" if ok else
                   f"`{norm(a)}` maps non-ascii characters into the charset (U+212A -> 'k'): an all-capitals string carrying one is decoded as if written in ascii")
    # (c) elsewhere, a function that answers the lowered spelling of an address (a lookup key) lowers
    # the all-capitals spelling only: under a test that the text equals its own upper case
    for fi in sorted(ctx.prog.functions.values(), key=lambda f: f.qualname):
        if fi.qualname in decoders or not fi.module.name.startswith(("btclib.wallet", "btclib.b32", "btclib.script.script_pub_key", "btclib.bip21", "btclib.silent_payments")):
            continue
        a_ = fi.node.args
        sp = {p_.arg for p_ in a_.posonlyargs + a_.args if p_.annotation is not None and str(norm(p_.annotation)).split(" |")[0] in ("String", "str")}
        if not sp:
            continue
        gf = None
        for r in own_nodes(fi.node):
            if not (isinstance(r, ast.Return) and r.value is not None):
                continue
            low = [x for x in ast.walk(r.value) if isinstance(x, ast.Call) and isinstance(x.func, ast.Attribute) and x.func.attr in ("lower", "casefold") and not x.args]
            # a bool answer (`x.lower().startswith(...)`) is a question about the string, not a spelling of it
            low = [x for x in low if not any(isinstance(p_, ast.Call) and isinstance(p_.func, ast.Attribute) and p_.func.attr in ("startswith", "endswith") and x in ast.walk(p_.func.value) for p_ in ast.walk(r.value))]
            if not low or "address" not in fi.name.lower() + " ".join(sp).lower():
                continue
            n += 1
            gf = gf or ctx.cfg(fi)
            tests = [str(t).replace(" ", "") for t, pol in gf.facts_at_ast(low[0]) if pol]
            ok = any(".upper()==" in t or "==" in t and t.endswith(".upper()") or ".isupper()" in t for t in tests)
            rep.ob(rule, f"{fi.qualname}:lowered_key", ok, fi.where(low[0]), "only the all-capitals spelling is lowered" if ok else
                   f"`{norm(low[0])[:50]}` lowers whatever case the string is in: a mixed-case string, which BIP173 refuses, is answered as the address it misspells")
    # (d) the encoder: BIP173 has encoders write lower case only, and the checksum is over the lower case hrp:
    # the hrp that reaches the checksum and the output is a lowered one
    enc = ctx.func(f"{BE}.encode")
    hp = enc.params()[0]
    lowered_first = False
    for a_ in sorted([x for x in own_nodes(enc.node) if isinstance(x, ast.Assign) and any(isinstance(t, ast.Name) and t.id == hp for t in x.targets)], key=lambda x: x.lineno):
        if any(isinstance(c, ast.Call) and isinstance(c.func, ast.Attribute) and c.func.attr in ("lower", "casefold") for c in ast.walk(a_.value)):
            uses = [c for c in own_nodes(enc.node) if isinstance(c, ast.Call) and call_name(c) == "_create_checksum"]
            lowered_first = bool(uses) and all(a_.lineno < c.lineno for c in uses)
    n += 1
    rep.ob(rule, "encode:hrp_lowered", lowered_first, enc.where(), "the hrp is lowered before the checksum is computed and the string written" if lowered_first else
           f"`encode` writes and checksums the hrp `{hp}` in whatever case it came: an upper case hrp gives a mixed-case string its own decoder refuses")
    per_char = PT.has(d.node, "$t = ''.join(($c.lower() if $c.isascii() else $c for $c in $t))", {})
    rep.ob(rule, "_decode:lowering_is_ascii_only", per_char or bool(ascii_guard), d.where(), "lowered character by character, ascii only" if per_char else "whole-string lowering behind an isascii() refusal" if ascii_guard else
           "no ascii-only lowering found")
    rep.floor(rule, 5)


def rule_text_admission_(ctx: Ctx, rep: Report) -> None:
    """C06.text_admission: an address reaches its decoder with nothing but its ends trimmed (see sigcommon.rule_text_admission)."""
    from rules.sigcommon import rule_text_admission
    rule_text_admission(ctx, rep, "C06.text_admission", ("btclib.b32", "btclib.b58", "btclib.base58", "btclib.bech32", "btclib.script.script_pub_key", "btclib.bip32.bip32", "btclib.to_prv_key", "btclib.to_pub_key", "btclib.bip21"), 2)


def rule_coercion_used_(ctx: Ctx, rep: Report) -> None:
    """C06.coercion_used: a conversion of a parameter that is read again is kept (see sigcommon.rule_coercion_used)."""
    from rules.sigcommon import rule_coercion_used
    rule_coercion_used(ctx, rep, "C06.coercion_used", ("btclib.b32", "btclib.b58", "btclib.base58", "btclib.bech32", "btclib.script.script_pub_key", "btclib.network"))


def rule_loose_to_strict_(ctx: Ctx, rep: Report) -> None:
    """C06.loose_to_strict: a loose-typed parameter reaches a strict-typed helper only converted (see sigcommon.rule_loose_to_strict)."""
    from rules.sigcommon import rule_loose_to_strict
    rule_loose_to_strict(ctx, rep, "C06.loose_to_strict", ("btclib.b32", "btclib.b58", "btclib.base58", "btclib.bech32", "btclib.script.script_pub_key"), 1)


def rule_encode_decode_sizes(ctx: Ctx, rep: Report) -> None:
    """C06.encode_decode_sizes: the base58 address writer admits exactly the
    payload sizes its reader admits: address_from_h160 writes a one-byte version
    and a hash of the size(s) it converts its argument at, h160_from_address
    decodes at one fixed size -- and the two agree (20 + 1 = 21). A writer that
    takes a 32-byte hash too produces "addresses" its own reader refuses."""
    rule = "C06.encode_decode_sizes"
    enc, dec = ctx.func("btclib.b58.address_from_h160"), ctx.func("btclib.b58.h160_from_address")
    wsizes = None
    for c in own_nodes(enc.node):
        if isinstance(c, ast.Call) and call_name(c) == "bytes_from_octets" and c.args and isinstance(c.args[0], ast.Name) and c.args[0].id in enc.params():
            v = ctx.fold(c.args[1], enc.module) if len(c.args) > 1 else None
            wsizes = {v} if isinstance(v, int) else set(v) if isinstance(v, (tuple, list, set, frozenset)) else None
            site = c
    rsize = None
    for c in own_nodes(dec.node):
        if isinstance(c, ast.Call) and call_name(c) == "b58decode" and len(c.args) > 1:
            rsize = ctx.fold(c.args[1], dec.module)
    if wsizes is None or not isinstance(rsize, int):
        rep.unknown(rule, "b58:sizes", enc.where(), f"writer sizes {wsizes}, reader size {rsize}")
        return
    ok = {x + 1 for x in wsizes} == {rsize}
    rep.ob(rule, "b58:h160", ok, enc.where(site), f"writer takes a hash of {sorted(wsizes)} bytes, reader decodes {rsize} = 1 + 20" + ("" if ok else ": the writer produces strings the reader refuses (or the reverse)"))
    rep.floor(rule, 1)


def rule_base64_validated(ctx: Ctx, rep: Report) -> None:
    """C06.base64_validated: `base64.b64decode` without `validate=True` discards
    every character outside the alphabet instead of refusing the string: a
    base64 psbt, signature or envelope with stray characters in it decodes as
    the string without them. Every call in the package validates (an inferred
    rule: 5 of 6 sites did; the sixth, Psbt.b64decode, was the defect F36)."""
    rule = "C06.base64_validated"
    n = 0
    for q, fi in sorted(ctx.prog.functions.items()):
        for c in own_nodes(fi.node):
            if isinstance(c, ast.Call) and str(norm(c.func)) in ("base64.b64decode", "b64decode") and isinstance(c.func, (ast.Attribute, ast.Name)) and (isinstance(c.func, ast.Attribute) and str(norm(c.func.value)) == "base64" or
                                                                                                                          (isinstance(c.func, ast.Name) and "b64decode" in fi.module.imports if hasattr(fi.module, "imports") else False)):
                n += 1
                ok = any(k.arg == "validate" and isinstance(k.value, ast.Constant) and k.value.value is True for k in c.keywords)
                rep.ob(rule, f"{q}", ok, fi.where(c), "validate=True" if ok else f"`{norm(c)[:60]}` drops the characters it does not know: text that is not base64 is decoded as if it were")
    rep.floor(rule, 6)


def rule_classification_total(ctx: Ctx, rep: Report) -> None:
    """C06.classification_total: `address(script)` and `ScriptPubKey.type` classify a
    script by asking the `is_p2...` predicates in turn; each must answer False
    for bytes that are not its template, whatever they are -- a push that runs
    past the end is a BTClibRuntimeError out of `var_bytes.parse`, and a
    predicate that lets it through makes the address of a perfectly valid
    future-version witness program (one that happens to end like a multisig)
    an exception. C19.bool_total's obligations for the script_pub_key
    predicates, reported here for the address / scriptPubKey inverse."""
    from rules import C19
    tmp = Report("C19", rep.tier)
    tmp.quiet = True
    C19.rule_bool_total(ctx, tmp)
    n = 0
    for o in tmp.obs:
        if "script_pub_key" in o.instance or "b32." in o.instance or "b58." in o.instance:
            n += 1
            rep.ob("C06.classification_total", o.instance, o.held, o.site, o.detail)
    rep.floor("C06.classification_total", 5)


def rule_network_names_normalised(ctx: Ctx, rep: Report) -> None:
    """C06.network_names_normalised: a network argument is the caller's spelling of
    a name ("Mainnet", " testnet "), which `network_from_name` reads; the key
    and address layers compare what it answers -- a prefix, a version set, a
    Network -- never the caller's text itself. A `network` parameter is not an
    operand of ==, !=, in or not in as it came (against anything but None): a
    WIF written under "Testnet" would be refused under "Testnet"."""
    rule = "C06.network_names_normalised"
    n = 0
    for q, fi in sorted(ctx.prog.functions.items()):
        if not q.startswith(("btclib.to_prv_key.", "btclib.to_pub_key.", "btclib.b32.", "btclib.b58.", "btclib.script.script_pub_key.")):
            continue
        if "network" not in fi.params():
            continue
        n += 1
        for c in own_nodes(fi.node):
            if not (isinstance(c, ast.Compare) and len(c.ops) == 1 and isinstance(c.ops[0], (ast.Eq, ast.NotEq, ast.In, ast.NotIn))):
                continue
            sides = [c.left, c.comparators[0]]
            raw = [x for x in sides if isinstance(x, ast.Name) and x.id == "network"]
            other = [x for x in sides if not (isinstance(x, ast.Name) and x.id == "network")]
            if raw and other and not (isinstance(other[0], ast.Constant) and other[0].value is None):
                from rules.sigcommon import _rebound_before
                if _rebound_before(fi, "network", c):
                    continue
                rep.ob(rule, f"{q}:{norm(c)[:40]}", False, fi.where(c), f"`{norm(c)}` compares the caller's spelling of the network: a valid, non-canonical name is refused (or matched) as text")
    rep.ob(rule, "scanned", n >= 10, "btclib:1", f"{n} functions taking a network")
    rep.floor(rule, 1)


def rule_resolved_network_answered(ctx: Ctx, rep: Report) -> None:
    """C06.resolved_network_answered: an extended key carries its network in its
    version bytes, and `_pub_keyinfo_from_xpub` is what reads it. Where
    `_pub_keyinfo_from_pub_key` delegates to it, what it answers is answered --
    the call sits in the return -- and is not taken apart with the network
    dropped: a tpub held as an object would be read as mainnet, and its p2pkh
    address begin with 1."""
    rule = "C06.resolved_network_answered"
    fi = ctx.func("btclib.to_pub_key._pub_keyinfo_from_pub_key")
    calls = [c for c in own_nodes(fi.node) if isinstance(c, ast.Call) and call_name(c) == "_pub_keyinfo_from_xpub"]
    if not calls:
        rep.unknown(rule, "_pub_keyinfo_from_pub_key", fi.where(), "no delegation to _pub_keyinfo_from_xpub")
        return
    for c in calls:
        p_ = parent(c)
        while p_ is not None and not isinstance(p_, ast.stmt):
            p_ = parent(p_)
        direct = isinstance(p_, ast.Return)
        dropped = isinstance(p_, ast.Assign) and isinstance(p_.targets[0], ast.Tuple) and any(isinstance(t, ast.Name) and t.id == "_" for t in p_.targets[0].elts)
        rep.ob(rule, f"_pub_keyinfo_from_pub_key:L{c.lineno - fi.node.lineno}", direct and not dropped, fi.where(c), "the resolved (octets, network) is answered as it is" if direct else
               f"`{norm(p_)[:70]}` takes the answer apart" + (" and drops the network the version bytes name" if dropped else ""))
    rep.floor(rule, 1)


def rule_optional_network_forwarded_as_given(ctx: Ctx, rep: Report) -> None:
    """C06.optional_network_forwarded_as_given: `network=None` means "whatever network the
    key itself names": a function that takes an optional network and hands
    the question on to a callee with the same optional parameter hands on
    the caller's own value -- never its defaulted copy (`net = network or
    "mainnet"`), which turns "not said" into "mainnet" and refuses every
    testnet key object the caller did not annotate."""
    rule = "C06.optional_network_forwarded_as_given"
    n = 0
    for q, fi in sorted(ctx.prog.functions.items()):
        if not q.startswith(("btclib.to_prv_key.", "btclib.to_pub_key.", "btclib.b58.", "btclib.b32.", "btclib.bip32.")) or "network" not in fi.params():
            continue
        a = fi.node.args
        mine = {p_.arg: d for p_, d in zip((a.posonlyargs + a.args)[::-1], a.defaults[::-1])}
        mine.update({p_.arg: d for p_, d in zip(a.kwonlyargs, a.kw_defaults) if d is not None})
        if not (isinstance(mine.get("network"), ast.Constant) and mine["network"].value is None):
            continue
        for c, tgt in ctx.callees(fi):
            callee = ctx.prog.functions.get(tgt or "")
            if callee is None or "network" not in callee.params():
                continue
            ca = callee.node.args
            cdef = {p_.arg: d for p_, d in zip((ca.posonlyargs + ca.args)[::-1], ca.defaults[::-1])}
            cdef.update({p_.arg: d for p_, d in zip(ca.kwonlyargs, ca.kw_defaults) if d is not None})
            cann = {p_.arg: p_.annotation for p_ in ca.posonlyargs + ca.args + ca.kwonlyargs}
            optional = (isinstance(cdef.get("network"), ast.Constant) and cdef["network"].value is None) or (cann.get("network") is not None and "None" in norm(cann["network"]))
            if not optional:
                continue
            names = [p_.arg for p_ in ca.posonlyargs + ca.args]
            if names and names[0] in ("self", "cls") and isinstance(c.func, ast.Attribute):
                names = names[1:]
            arg = None
            if "network" in names and names.index("network") < len(c.args):
                arg = c.args[names.index("network")]
            for k in c.keywords:
                if k.arg == "network":
                    arg = k.value
            if arg is None:
                continue
            n += 1
            ok = isinstance(arg, ast.Name) and arg.id == "network" or (isinstance(arg, ast.Constant))
            rep.ob(rule, f"{q}->{callee.node.name}", ok, fi.where(c), "the caller's own value" if ok else
                   f"`{norm(c)[:70]}` hands `{norm(arg)}` on as the network where the caller's `network` (None = the key's own) was asked for")
    rep.floor(rule, 3)


RULES = [
    ("C06.optional_network_forwarded_as_given", rule_optional_network_forwarded_as_given),

    ("C06.network_names_normalised", rule_network_names_normalised),
    ("C06.resolved_network_answered", rule_resolved_network_answered),

    ("C06.classification_total", rule_classification_total),

    ("C06.base64_validated", rule_base64_validated),
    ("C06.encode_decode_sizes", rule_encode_decode_sizes),
    ("C06.text_admission", rule_text_admission_),
    ("C06.coercion_used", rule_coercion_used_),
    ("C06.loose_to_strict", rule_loose_to_strict_),

    ("C06.case_mapping", rule_case_mapping),
    ("C06.params_forwarded", rule_params_forwarded_),
    ("C06.own_fields", rule_own_fields),
    ("C06.one_network", rule_one_network),
    ("C06.network_membership", rule_network_membership),
    ("C06.checksum_gate", rule_checksum_gate),
    ("C06.constants", rule_constants),
    ("C06.ranges", rule_ranges),
    ("C06.networks", rule_networks),
    ("C06.wif", rule_wif),
]

CONTROLS = [
    {"rule": "C06.case_mapping", "name": "the silent payment address is lowered before bech32 sees it (F19)", "module": "btclib.silent_payments",
     "edit": lambda ctx: M.sub_expr(ctx, "btclib.silent_payments.keys_from_address", lambda n: isinstance(n, ast.Assign) and "str_from_string(address" in norm(n.value), "addr = str_from_string(address, 'address').strip().lower()")},
    {"rule": "C06.case_mapping", "name": "bech32 lowers the whole string, non-ascii included (F18)", "module": BE,
     "edit": lambda ctx: M.sub_expr(ctx, f"{BE}._decode", lambda n: isinstance(n, ast.Assign) and "isascii" in norm(n.value), "text = text.lower()")},
    {"rule": "C06.one_network", "name": "p2ms reads every key against the caller's network", "module": "btclib.script.script_pub_key",
     "edit": lambda ctx: M.sub_expr(ctx, "btclib.script.script_pub_key.ScriptPubKey.p2ms", lambda n: isinstance(n, ast.Assign) and isinstance(n.targets[0], ast.Tuple) and "pub_keyinfo_from_key(keys[0]" in norm(n.value),
                                    "pub_key, _unused_network = pub_keyinfo_from_key(keys[0], network, compressed)")},
    {"rule": "C06.network_membership", "name": "xpub network asked through the reverse map", "module": "btclib.to_pub_key",
     "edit": lambda ctx: M.sub_expr(ctx, "btclib.to_pub_key._pub_keyinfo_from_xpub", lambda n: isinstance(n, ast.Compare) and isinstance(n.ops[0], ast.NotIn) and "version" in norm(n),
                                    "network_from_xkeyversion(xpub.version) != network")},
    {"rule": "C06.checksum_gate", "name": "base58 hashes payload and checksum together", "module": B58,
     "edit": lambda ctx: M.sub_expr(ctx, f"{B58}.decode", M.is_text("h256 = hash256(result)"), "h256 = hash256(result + checksum)")},
    {"rule": "C06.checksum_gate", "name": "bech32 decode always uses the bech32 constant", "module": BE,
     "edit": lambda ctx: M.sub_expr(ctx, f"{BE}._m_from_wit_ver", lambda n: isinstance(n, ast.IfExp), "_BECH32_1_CONST")},
    {"rule": "C06.constants", "name": "one generator constant altered", "module": BE,
     "edit": lambda ctx: M.sub_module_expr(ctx, BE, lambda n: isinstance(n, ast.Constant) and n.value == 0x26508E6D, "0x26508E6E")},
    {"rule": "C06.ranges", "name": "mixed case accepted", "module": BE,
     "edit": lambda ctx: M.drop_if(ctx, f"{BE}._decode", lambda n: "text.lower() != text" in norm(n.test))},
    {"rule": "C06.ranges", "name": "witness program of 41 bytes accepted", "module": B32,
     "edit": lambda ctx: M.sub_expr(ctx, f"{B32}.bytes_from_witness_program", M.is_text("range(2, 41)"), "range(2, 42)")},
    {"rule": "C06.ranges", "name": "padding tolerated when regrouping an address", "module": B32,
     "edit": lambda ctx: M.sub_expr(ctx, f"{B32}.witness_from_address", lambda n: isinstance(n, ast.Call) and call_name(n) == "power_of_2_base_conversion", "power_of_2_base_conversion(data[1:], 5, 8, True)")},
]
