"""C13 -- mnemonics and seeds: entropy round-trips, checksums bind, thresholds recover.

Entropy round trips, key stretching and GF(256) recovery are values: not
decided. Decided: a sentence/share is released only past its checksum (or
version / digest) comparison; SLIP39 threshold and count refusals; header
field agreement; the constants of the three schemes.
"""

from __future__ import annotations

import ast

from sa import mutate as M
from sa import pattern as PT
from sa import values as VX
from sa.consts import UNKNOWN
from sa.ctx import Ctx
from sa.loader import AnalysisError, call_name, norm, own_nodes, parent
from sa.ranges import has, has_bound, refusal_constraints
from sa.report import Report

NOTES = ("C13: decides checksum/version/digest gating before release, SLIP39 threshold/count/padding refusals, common-"
         "header agreement and scheme constants; entropy round trips, PBKDF2 outputs and Shamir recovery values are not "
         "decided.")
B39 = "btclib.mnemonic.bip39"
S39 = "btclib.mnemonic.slip39"
EL = "btclib.mnemonic.electrum"


def rule_checksum_gate(ctx: Ctx, rep: Report) -> None:
    """C13.checksum_gate: nothing is returned before the checksum comparison."""
    rule = "C13.checksum_gate"
    e = ctx.func(f"{B39}.entropy_from_mnemonic")
    g = ctx.cfg(e)
    hits = [n for t, pol, n in ctx.refusals(e) if pol and isinstance(t, ast.Compare) and isinstance(t.ops[0], ast.NotEq) and norm(t) in ("cs_entropy[bits:] != checksum", "checksum != cs_entropy[bits:]")]
    ok = bool(hits) and g.must_pass([h.id for h in hits]) is None
    rep.ob(rule, "bip39.entropy_from_mnemonic", ok, e.where(), "trailing bits != recomputed checksum refused on every path" if ok else "entropy is returned without the checksum comparison")
    txt = PT.text(e)
    vx = VX.of(e)
    rep.ob(rule, "bip39:split", vx.anywhere("_entropy_checksum($$e[:int(len($$e) * 32 / 33)])") or vx.anywhere("_entropy_checksum($$e[:len($$e) * 32 // 33])") or vx.anywhere("_entropy_checksum($$e[:len($$e) // 33 * 32])"),
           e.where(), "ENT = 32/33 of the bits; checksum recomputed from the entropy part")
    ec = ctx.func(f"{B39}._entropy_checksum")
    txt = PT.text(ec)
    vx = VX.of(ec)
    bb: dict[str, str] = {}
    rep.ob(rule, "bip39:checksum_def", vx.returns("$$c.zfill(256)[:len($$be) // 4]", bb) and "sha256(" in bb.get("$$c", "") and ".digest()" in bb["$$c"], ec.where(), "leftmost ENT/32 bits of sha256(entropy)")
    s = ctx.func(f"{B39}.seed_from_mnemonic")
    g = ctx.cfg(s)
    call = [c for c in own_nodes(s.node) if isinstance(c, ast.Call) and call_name(c) == "entropy_from_mnemonic"]
    pb = [c for c in own_nodes(s.node) if isinstance(c, ast.Call) and call_name(c) == "pbkdf2_hmac"]
    kd = {a.arg: d for a, d in zip(s.node.args.args[-len(s.node.args.defaults):], s.node.args.defaults)}
    ok = bool(call) and bool(pb) and {t for t, p in g.facts_at_ast(call[0]) if p} == {"verify_checksum"} and ctx.fold(kd.get("verify_checksum"), s.module) is True
    rep.ob(rule, "bip39.seed_from_mnemonic", ok, s.where(), "the checksum is verified unless the caller turns it off (default on)")
    if pb:
        a = pb[0].args
        defs = {n.targets[0].id: n.value for n in own_nodes(s.node) if isinstance(n, ast.Assign) and isinstance(n.targets[0], ast.Name)}

        def val(e):
            return ctx.fold(defs[e.id], s.module) if isinstance(e, ast.Name) and e.id in defs else ctx.fold(e, s.module)
        salt = defs.get(a[2].id) if len(a) > 2 and isinstance(a[2], ast.Name) else (a[2] if len(a) > 2 else None)
        oks = len(a) >= 5 and val(a[0]) == "sha512" and val(a[3]) == 2048 and val(a[4]) == 64 and salt is not None and norm(salt) == "f'mnemonic{passphrase}'.encode()"
        rep.ob(rule, "bip39:stretching", oks, s.where(), "PBKDF2-HMAC-SHA512, 2048 rounds, 64 bytes, salt 'mnemonic'+passphrase")
    sh = ctx.func(f"{S39}.share_from_mnemonic")
    g = ctx.cfg(sh)
    hits = [n for t, pol, n in ctx.refusals(sh) if pol is False and isinstance(t, ast.Call) and call_name(t) == "_rs1024_verify"]
    ok = bool(hits) and g.must_pass([h.id for h in hits]) is None
    rep.ob(rule, "slip39.share_from_mnemonic", ok, sh.where(), "a share is returned only past _rs1024_verify" if ok else "a share is built without the RS1024 check")
    rv = ctx.func(f"{S39}._rs1024_verify")
    r = [n for n in own_nodes(rv.node) if isinstance(n, ast.Return)]
    rep.ob(rule, "slip39:rs1024", bool(r) and PT.match(PT.compile_("_rs1024_polymod($$data) == 1"), r[0].value, {})
           and "_customization_string(extendable)" in norm(r[0].value) and "indexes" in norm(r[0].value), rv.where(), f"{norm(r[0].value) if r else None}")
    rs = ctx.func(f"{S39}._recover_secret")
    g = ctx.cfg(rs)
    dg = [n for t, pol, n in ctx.refusals(rs) if pol and "digest_share[:_DIGEST_BYTES] != _digest(random_part, secret)" == norm(t)]
    rets = [n for n in g.nodes if n.kind == "stmt" and isinstance(n.ast, ast.Return) and norm(n.ast.value) == "secret"]
    ok = bool(dg) and bool(rets) and g.path_avoiding([r.id for r in rets], [d.id for d in dg]) is None
    rep.ob(rule, "slip39._recover_secret", ok, rs.where(), "an interpolated secret is returned only past the digest comparison")
    one = [n for n in g.nodes if n.kind == "stmt" and isinstance(n.ast, ast.Return) and norm(n.ast.value) == "shares[0][1]"]
    rep.ob(rule, "slip39:threshold_one", bool(one) and any(t == "threshold == 1" and p for t, p in g.facts()[one[0].id]), rs.where(), "only a threshold of one skips the digest (there is none)")
    ev = ctx.func(f"{EL}.version_from_mnemonic")
    rep.ob(rule, "electrum.version_gate", any(c.subject == "mnemonic_type" and c.op == "falsy" for c in refusal_constraints(ctx, ev)), ev.where(), "a sentence with no known version prefix is refused")
    for q in (f"{EL}.entropy_from_mnemonic", f"{EL}._seed_from_mnemonic"):
        fi = ctx.func(q)
        rep.ob(rule, f"{fi.name}:through_version_gate", bool(ctx.calls_to(fi, f"{EL}.version_from_mnemonic")), fi.where(), "goes through version_from_mnemonic")


def rule_thresholds(ctx: Ctx, rep: Report) -> None:
    """C13.thresholds: SLIP39 set-size refusals."""
    rule = "C13.thresholds"
    g = ctx.func(f"{S39}._grouped")
    cs = refusal_constraints(ctx, g)
    rep.ob(rule, "members==threshold", has(cs, "len(members)", "!=", "threshold") is not None, g.where(), "fewer or more members than the threshold refused")
    rep.ob(rule, "one_threshold_per_group", any(c.subject == "len(thresholds)" and c.op == ">" and c.value == 1 for c in cs), g.where(), "mixed member thresholds refused")
    rep.ob(rule, "distinct_member_indexes", any(c.subject == "len(set(indexes))" and c.op == "!=" for c in cs), g.where(), "duplicate member indexes refused")
    m = ctx.func(f"{S39}.master_secret_from_mnemonics")
    cm = refusal_constraints(ctx, m)
    rep.ob(rule, "groups==group_threshold", any(c.subject == "len(group_shares)" and c.op == "!=" and c.value_text == "first.group_threshold" for c in cm), m.where(), "fewer or more groups than the group threshold refused")
    rep.ob(rule, "no_mnemonic", any(c.subject == "mnemonics" and c.op == "falsy" for c in cm), m.where(), "an empty set refused")
    sp = ctx.func(f"{S39}._split_secret")
    tests = [norm(n.test) for n in own_nodes(sp.node) if isinstance(n, ast.If)]
    rep.ob(rule, "split:0<t<=n<=16", "not 0 < threshold <= share_count <= _MAX_SHARE_COUNT" in tests and ctx.const(S39, "_MAX_SHARE_COUNT") == 16, sp.where(), "0 < threshold <= count <= 16")
    sh = ctx.func(f"{S39}.share_from_mnemonic")
    cs = refusal_constraints(ctx, sh)
    rep.ob(rule, "share:min_words", any(c.subject == "n_words" and c.op == "<" and c.value == 20 for c in cs) and ctx.const(S39, "_MIN_WORDS") == 20, sh.where(), "at least 20 words")
    rep.ob(rule, "share:padding", any(c.subject == "padding" and c.op == ">" and c.value == 8 for c in cs) and any("value_bits[:padding]" in c.subject and c.op == "!=" for c in cs), sh.where(), "at most 8 padding bits, all zero")
    txt = PT.text(sh)
    want = {"group_index": "int($b[$f:$f + 4], 2)", "group_threshold": "int($b[$f + 4:$f + 8], 2) + 1", "group_count": "int($b[$f + 8:$f + 12], 2) + 1",
            "member_index": "int($b[$f + 12:$f + 16], 2)", "member_threshold": "int($b[$f + 16:$f + 20], 2) + 1"}
    okf = False
    for c in own_nodes(sh.node):
        if isinstance(c, ast.Call) and {k.arg for k in c.keywords} >= set(want):
            mb: dict[str, str] = {}
            okf = all(PT.match(PT.compile_(pat), next(k.value for k in c.keywords if k.arg == name), mb) for name, pat in want.items())
    rep.ob(rule, "share:+1_fields", okf, sh.where(), "thresholds and counts are stored minus one; indexes as they are")
    cf = ctx.func(f"{S39}._common_field")
    txt = PT.text(cf)
    need = ["share.identifier", "share.extendable", "share.iteration_exponent", "share.group_threshold", "share.group_count", "len(share.value)"]
    rep.ob(rule, "common_fields", all(n in txt for n in need) and any(c.subject == "len(values)" and c.op == ">" and c.value == 1 for c in refusal_constraints(ctx, cf)), cf.where(), "the six header fields every share of a set must agree on")
    pp = ctx.func(f"{S39}._assert_valid_passphrase")
    rep.ob(rule, "passphrase_charset", "32" in norm(pp.node) and "126" in norm(pp.node), pp.where(), "printable ASCII 32..126")
    where = "btclib/mnemonic/slip39.py:1"
    rep.ob(rule, "constants", (ctx.const(S39, "_RADIX_BITS"), ctx.const(S39, "_ID_BITS"), ctx.const(S39, "_EXT_BITS"), ctx.const(S39, "_E_BITS"), ctx.const(S39, "_CHECKSUM_WORDS"),
                               ctx.const(S39, "_MIN_SECRET_BYTES"), ctx.const(S39, "_SECRET_X"), ctx.const(S39, "_DIGEST_X"), ctx.const(S39, "_DIGEST_BYTES"), ctx.const(S39, "_ROUNDS"), ctx.const(S39, "_BASE_ITERATIONS"))
           == (10, 15, 1, 4, 3, 16, 255, 254, 4, 4, 2500), where, "SLIP39 constants")
    al = ctx.func(f"{S39}._assert_valid_length")
    rep.ob(rule, "secret_length", "_MIN_SECRET_BYTES" in norm(al.node) and "% 2" in norm(al.node), al.where(), "at least 16 bytes and even")


def rule_bip85_input(ctx: Ctx, rep: Report) -> None:
    """C13.bip85_input: BIP85 hashes the 32 bytes of the derived private key:
    the 33-byte key field without its first byte, a *positional* cut. A cut by
    content (`lstrip(b"\\x00")`) also removes the leading zero bytes of the key
    itself -- one key in 256 -- and the entropy is then another one's."""
    rule = "C13.bip85_input"
    fi = ctx.func("btclib.bip85._entropy_from_der_path")
    hm = [c for c in own_nodes(fi.node) if isinstance(c, ast.Call) and norm(c.func) == "hmac.new" and len(c.args) >= 2]
    if not hm:
        rep.unknown(rule, "_entropy_from_der_path", fi.where(), "no hmac.new(key, data, ...) call: shape not recognised")
        return
    from sa.canon import expand
    for c in hm:
        data = ast.parse(str(expand(fi, c.args[1])), mode="eval").body
        if isinstance(data, ast.Subscript) and isinstance(data.slice, ast.Slice) and data.slice.upper is None and data.slice.lower is not None and ctx.fold(data.slice.lower, fi.module) == 1 \
                and isinstance(data.value, ast.Attribute) and data.value.attr == "key":
            rep.ob(rule, "hmac_data", True, fi.where(c), "the key field without its first byte")
        elif any(isinstance(x, ast.Call) and call_name(x) in ("lstrip", "strip", "rstrip", "removeprefix") for x in ast.walk(data)):
            rep.ob(rule, "hmac_data", False, fi.where(c), f"`{norm(c.args[1])}` cuts the key by content: a private key that starts with a zero byte loses it, and the HMAC is over 31 bytes")
        else:
            rep.unknown(rule, "hmac_data", fi.where(c), f"`{norm(c.args[1])}`: shape not recognised")
    rep.ob(rule, "hmac_key", ctx.const("btclib.bip85", "_HMAC_KEY") == b"bip-entropy-from-k", "btclib/bip85.py:1", "HMAC key 'bip-entropy-from-k'")


def rule_lang_pick(ctx: Ctx, rep: Report) -> None:
    """C13.lang_pick: when a sentence is made of words several languages share,
    the language answered is the one under which the checksum holds: with
    exactly one valid candidate, that one is returned -- not the first candidate."""
    rule = "C13.lang_pick"
    fi = ctx.func("btclib.mnemonic.bip39.lang_from_mnemonic")
    m: dict[str, str] = {}
    v = PT.find(fi.node, "$valid = [$l for $l in $cands if _is_valid_mnemonic(mnemonic, $l)]", m)
    if v is None:
        rep.unknown(rule, "lang_from_mnemonic", fi.where(), "no list of the candidates that pass the checksum: shape not recognised")
        return
    g = ctx.cfg(fi)
    val = m["valid"]
    rets = [r for r in own_nodes(fi.node) if isinstance(r, ast.Return) and r.value is not None]
    n = 0
    for r in rets:
        facts = g.facts_at_ast(r.value)
        one = PT.fact(facts, f"len({val}) != 1", False) or PT.fact(facts, f"len({val}) == 1", True)
        if not one:
            continue
        n += 1
        ok = str(norm(r.value)) in (f"{val}[0]", f"{val}[-1]")
        rep.ob(rule, "one_valid_language", ok, fi.where(r), "the one candidate whose checksum holds" if ok else
               f"with exactly one valid candidate the function answers `{norm(r.value)}`: the first candidate by registry order, under which the checksum may not hold")
    rep.floor(rule, 1)


def rule_params_forwarded_(ctx: Ctx, rep: Report) -> None:
    """C13.params_forwarded: a parameter is handed on to callees that have a parameter of the same name (see sigcommon.rule_params_forwarded)."""
    from rules.sigcommon import rule_params_forwarded
    rule_params_forwarded(ctx, rep, "C13.params_forwarded", ('btclib.mnemonic', 'btclib.bip85'), 60)


BIP85_LANGUAGES = {"en": 0, "ja": 1, "ko": 2, "es": 3, "zh": 4, "zh_tw": 5, "fr": 6, "it": 7, "cs": 8, "pt": 9}  # BIP85, "BIP39" application: language codes (4 = Chinese simplified, 5 = traditional)


def rule_bip85_languages(ctx: Ctx, rep: Report) -> None:
    """C13.bip85_languages: the language enters the BIP85 path as BIP85's own
    code (0 English .. 9 Portuguese; 4 is Chinese simplified, 5 traditional).
    A table that permutes two rows still yields valid sentences in the right
    language -- from another path, so not the child the BIP defines."""
    rule = "C13.bip85_languages"
    t = ctx.const("btclib.bip85", "_LANGUAGE_INDEXES")
    if not isinstance(t, dict):
        rep.unknown(rule, "_LANGUAGE_INDEXES", "btclib/bip85.py:1", "the table does not fold")
        return
    for lang, code in sorted(BIP85_LANGUAGES.items()):
        if lang in t:
            rep.ob(rule, lang, t[lang] == code, "btclib/bip85.py:1", f"{lang} -> {t[lang]}" + ("" if t[lang] == code else f": BIP85 numbers it {code}"))
    extra = sorted(set(t) - set(BIP85_LANGUAGES))
    rep.ob(rule, "no_unnumbered_language", not extra, "btclib/bip85.py:1", f"languages BIP85 does not number: {extra}" if extra else "every row is one of BIP85's ten")
    rep.floor(rule, 8)


def rule_orderings(ctx: Ctx, rep: Report) -> None:
    """C13.orderings: two "use after the right normalisation, not before / not
    without" orderings. SLIP39: the identifier that salts the encryption is the
    15-bit one the shares carry -- the mask lies on every path between the draw
    and its first use. Electrum: the seed *type* is decided on the sentence as
    written (its word count), Electrum's normalisation joining CJK words into
    one: the type is asked before the text is normalised."""
    rule = "C13.orderings"
    ms = ctx.func(f"{S39}.mnemonics_from_master_secret")
    g = ctx.cfg(ms)
    m: dict[str, str] = {}
    draw = PT.find(ms.node, "$id = int.from_bytes(entropy_source(2), byteorder='big')", m)
    if draw is None:
        rep.unknown(rule, "slip39:identifier", ms.where(), "the identifier draw is not in the shape this rule reads")
    else:
        idn = m["id"]
        masks = [a for a in own_nodes(ms.node) if (isinstance(a, ast.AugAssign) and isinstance(a.op, ast.BitAnd) and norm(a.target) == idn)
                 or (isinstance(a, ast.Assign) and norm(a.targets[0]) == idn and isinstance(a.value, ast.BinOp) and isinstance(a.value.op, (ast.BitAnd, ast.Mod)))]
        uses = [c for c in own_nodes(ms.node) if isinstance(c, ast.Call) and call_name(c) not in ("from_bytes",) and any(isinstance(a, ast.Name) and a.id == idn for a in list(c.args) + [k.value for k in c.keywords])]
        ok = bool(masks) and bool(uses) and g.path_avoiding([i for u in uses for i in g.nodes_containing(u)], [i for a in masks for i in g.nodes_containing(a)]) is None
        rep.ob(rule, "slip39:identifier_masked_before_use", ok, ms.where(masks[0] if masks else draw),
               "masked to 15 bits before it salts the encryption and is written into the shares" if ok else
               "the identifier is used before it is masked to 15 bits: the secret is encrypted under a salt the shares do not carry, and every qualifying set recovers another secret")
    vm = ctx.func(f"{EL}.version_from_mnemonic") if "EL" in globals() else ctx.func("btclib.mnemonic.electrum.version_from_mnemonic")
    g2 = ctx.cfg(vm)
    tcalls = [c for c in own_nodes(vm.node) if isinstance(c, ast.Call) and call_name(c) == "_mnemonic_type"]
    norms = [a for a in own_nodes(vm.node) if isinstance(a, ast.Assign) and isinstance(a.value, ast.Call) and call_name(a.value) == "_normalize"
             and any(isinstance(t, ast.Name) and any(isinstance(x, ast.Name) and x.id == t.id for c in tcalls for x in c.args) for t in a.targets)]
    if not tcalls:
        rep.unknown(rule, "electrum:type_before_normalize", vm.where(), "no _mnemonic_type call")
    else:
        direct = any(isinstance(x, ast.Call) and call_name(x) == "_normalize" for c in tcalls for a in c.args for x in ast.walk(a))
        before = [a for a in norms if any(g2.path_avoiding(g2.nodes_containing(c), g2.nodes_containing(a)) is None for c in tcalls)]
        rep.ob(rule, "electrum:type_before_normalize", not direct and not before, vm.where(tcalls[0]),
               "the type is decided on the sentence as written" if not direct and not before else
               "the sentence is normalised before its words are counted: a CJK sentence becomes one word and a valid 2fa seed is refused")


def rule_slip39_padding(ctx: Ctx, rep: Report) -> None:
    """C13.slip39_padding: SLIP39 pads a share value to the next multiple of ten
    bits, a multiple of ten staying as it is: the width `mnemonic_from_share`
    pads to is evaluated at every legal secret length (16..64 bytes, even) and
    is ceil(bits / 10) * 10 at each. `(bits // 10 + 1) * 10` agrees except
    where bits is a multiple of ten -- 20, 30, 40, 50, 60 bytes -- and there
    every share carries a word its own reader refuses."""
    rule = "C13.slip39_padding"
    fi = ctx.func("btclib.mnemonic.slip39.mnemonic_from_share")
    z = [c for c in own_nodes(fi.node) if isinstance(c, ast.Call) and isinstance(c.func, ast.Attribute) and c.func.attr in ("zfill", "rjust") and c.args]
    if len(z) != 1:
        rep.unknown(rule, "mnemonic_from_share:pad", fi.where(), f"{len(z)} padding calls")
        return
    e = z[0].args[0]
    radix = ctx.const("btclib.mnemonic.slip39", "_RADIX_BITS")
    loc = sorted({x.id for x in ast.walk(e) if isinstance(x, ast.Name) and ctx.fold(x, fi.module) is UNKNOWN})
    if len(loc) != 1 or not isinstance(radix, int):
        rep.unknown(rule, "mnemonic_from_share:pad", fi.where(z[0]), f"width `{norm(e)}` over locals {loc}")
        return
    import re as _re
    bad = []
    for nbytes in range(16, 65, 2):
        bits = 8 * nbytes
        text = _re.sub(rf"\b{loc[0]}\b", str(bits), str(norm(e)))
        v = ctx.fold(ast.parse(text, mode="eval").body, fi.module)
        if v != -(-bits // radix) * radix:
            bad.append(f"{nbytes} bytes: {v} instead of {-(-bits // radix) * radix}")
    rep.ob(rule, "mnemonic_from_share:pad", not bad, fi.where(z[0]), f"`{norm(e)}` is the next multiple of {radix} at all 25 legal lengths" if not bad else
           f"`{norm(e)}`: {'; '.join(bad[:3])} -- every share of such a secret has a word too many and is refused by share_from_mnemonic")
    rep.floor(rule, 1)


STR_EDITS = {"strip", "lstrip", "rstrip", "lower", "upper", "casefold", "split", "replace", "translate", "title", "capitalize", "swapcase", "expandtabs", "removeprefix", "removesuffix"}


def rule_passphrase_as_typed(ctx: Ctx, rep: Report) -> None:
    """C13.passphrase_as_typed: BIP39's salt is "mnemonic" + the passphrase in
    NFKD, and nothing else is done to it: its blanks, leading, trailing or
    doubled, are characters the user chose. Between the parameter and the
    salt the passphrase goes through `unicodedata.normalize` alone -- a
    `.strip()` makes "pw" and "pw " one wallet, and another wallet than every
    other implementation opens."""
    rule = "C13.passphrase_as_typed"
    fi = ctx.func("btclib.mnemonic.bip39.seed_from_mnemonic")
    pp = fi.params()[1]
    derived = {pp}
    for _ in range(3):
        for a in own_nodes(fi.node):
            if isinstance(a, ast.Assign) and {x.id for x in ast.walk(a.value) if isinstance(x, ast.Name)} & derived and not any(isinstance(c, ast.JoinedStr) for c in ast.walk(a.value)):
                derived |= {t.id for t in a.targets if isinstance(t, ast.Name)}
    edits = [c for c in own_nodes(fi.node) if isinstance(c, ast.Call) and isinstance(c.func, ast.Attribute) and c.func.attr in STR_EDITS
             and {x.id for x in ast.walk(c.func.value) if isinstance(x, ast.Name)} & derived]
    rep.ob(rule, "seed_from_mnemonic:edits", not edits, fi.where(edits[0] if edits else None), "the passphrase is normalized (NFKD) and otherwise used as typed" if not edits else
           f"`{norm(edits[0])[:70]}` edits the passphrase: another salt than BIP39's, and two passphrases that differ in a blank open one wallet")
    nf = [c for c in own_nodes(fi.node) if isinstance(c, ast.Call) and norm(c.func) == "unicodedata.normalize" and len(c.args) == 2 and isinstance(c.args[1], ast.Name) and c.args[1].id in derived]
    okn = bool(nf) and all(isinstance(c.args[0], ast.Constant) and c.args[0].value == "NFKD" for c in nf)
    rep.ob(rule, "seed_from_mnemonic:nfkd", okn, fi.where(nf[0] if nf else None), "normalized with NFKD")
    rep.floor(rule, 2)


def rule_count_before_normalize(ctx: Ctx, rep: Report) -> None:
    """C13.count_before_normalize: electrum counts the words of a seed before it
    normalizes it, and so must a reader that tells "2fa" seeds apart by their
    word count: normalization removes the blanks between CJK characters, after
    which a twelve-word Chinese seed is one word. The count in `_mnemonic_type`
    is taken of the parameter as it came."""
    rule = "C13.count_before_normalize"
    fi = ctx.func("btclib.mnemonic.electrum._mnemonic_type")
    p0 = fi.params()[0]
    cnt = [c for c in own_nodes(fi.node) if isinstance(c, ast.Call) and call_name(c) == "len" and c.args and isinstance(c.args[0], ast.Call) and isinstance(c.args[0].func, ast.Attribute)
           and c.args[0].func.attr == "split"]
    if len(cnt) != 1:
        rep.unknown(rule, "_mnemonic_type:count", fi.where(), f"{len(cnt)} word counts")
        return
    recv = cnt[0].args[0].func.value
    from rules.sigcommon import _rebound_before
    ok = isinstance(recv, ast.Name) and recv.id == p0 and not _rebound_before(fi, p0, cnt[0])
    rep.ob(rule, "_mnemonic_type:count", ok, fi.where(cnt[0]), "the words are counted on the sentence as it came" if ok else
           f"`{norm(cnt[0])}` counts the words of a sentence that was normalized first: CJK seeds count as one word and their \"2fa\" seeds are refused")
    rep.floor(rule, 1)


def rule_electrum_normalize_order(ctx: Ctx, rep: Report) -> None:
    """C13.electrum_normalize_order: Electrum's normalize_text decomposes (NFKD),
    *then* lowers, then drops the combining marks and collapses blanks. The
    order is content: U+2122 decomposes to "TM" and has no lower case of its
    own, so lowering first leaves capitals in the seed text and the version
    HMAC and PBKDF2 are taken over another spelling than Electrum's. In
    `_normalize` the text that is lowered has been through
    `unicodedata.normalize` -- followed along the reassignments of the local."""
    rule = "C13.electrum_normalize_order"
    fi = ctx.func("btclib.mnemonic.electrum._normalize")
    lows = sorted([c for c in own_nodes(fi.node) if isinstance(c, ast.Call) and isinstance(c.func, ast.Attribute) and c.func.attr in ("lower", "casefold") and not c.args], key=lambda c: c.lineno)
    nfs = sorted([c for c in own_nodes(fi.node) if isinstance(c, ast.Call) and str(norm(c.func)) == "unicodedata.normalize"], key=lambda c: c.lineno)
    if not lows or not nfs:
        rep.ob(rule, "_normalize:steps", False, fi.where(), f"{len(nfs)} normalize and {len(lows)} lower steps found")
        return
    low = lows[0]
    # decomposed before: the receiver holds a normalize call, or is a local last assigned (before this line) from an expression that holds one / from such a local
    def decomposed(e: ast.AST, line: int, depth: int = 0) -> bool:
        if any(isinstance(x, ast.Call) and str(norm(x.func)) == "unicodedata.normalize" for x in ast.walk(e)):
            return True
        if depth > 4:
            return False
        for nm in {x.id for x in ast.walk(e) if isinstance(x, ast.Name)}:
            prev = [a for a in own_nodes(fi.node) if isinstance(a, ast.Assign) and any(isinstance(t, ast.Name) and t.id == nm for t in a.targets) and a.lineno < line]
            if prev:
                a = max(prev, key=lambda a_: a_.lineno)
                if decomposed(a.value, a.lineno, depth + 1):
                    return True
        return False
    ok = decomposed(low.func.value, low.lineno) and not any(isinstance(x, ast.Call) and isinstance(x.func, ast.Attribute) and x.func.attr in ("lower", "casefold") for n_ in nfs for x in ast.walk(n_))
    rep.ob(rule, "_normalize:nfkd_then_lower", ok, fi.where(low), "the text is decomposed, then lowered" if ok else
           f"`{norm(low)[:50]}` lowers text that has not been decomposed yet (or the decomposition is applied to lowered text): characters whose decomposition has capitals keep them")
    okf = all(isinstance(n_.args[0], ast.Constant) and n_.args[0].value == "NFKD" for n_ in nfs if n_.args)
    rep.ob(rule, "_normalize:form", okf, fi.where(nfs[0]), "NFKD")
    rep.floor(rule, 2)


def rule_word_indexes_in_range(ctx: Ctx, rep: Report) -> None:
    """C13.word_indexes_in_range: an index into a word list is a digit in base
    len(wordlist). `mnemonic_from_indexes` subscripts the list with the
    caller's numbers only past a refusal of a number outside
    0 .. len(wordlist) - 1: Python's subscript refuses on one side only
    (IndexError for 2048) and on the other counts from the end -- -1 is "zoo",
    and the sentence decodes to other indexes than it was made of."""
    from sa.ranges import refusal_constraints, has, has_bound
    rule = "C13.word_indexes_in_range"
    fi = ctx.func("btclib.mnemonic.mnemonic.mnemonic_from_indexes")
    subs = [x for x in own_nodes(fi.node) if isinstance(x, ast.Subscript) and isinstance(x.slice, ast.Name) and isinstance(x.value, ast.Name) and isinstance(x.ctx, ast.Load)]
    if not subs:
        rep.unknown(rule, "mnemonic_from_indexes", fi.where(), "no subscript by a name")
        return
    wl, ix = subs[0].value.id, subs[0].slice.id
    cs = refusal_constraints(ctx, fi)
    lo = has_bound(cs, "<", 0, subject=ix) is not None or has_bound(cs, "<=", -1, subject=ix) is not None
    up = has(cs, ix, ">=", f"len({wl})") is not None or has(cs, ix, ">", f"len({wl}) - 1") is not None
    if not (lo and up):
        # the refusal may be written over another loop variable walking the same parameter
        others = {str(c.subject) for c in cs if not c.from_fact}
        for o in others:
            lo2 = has_bound(cs, "<", 0, subject=o) is not None
            up2 = has(cs, o, ">=", f"len({wl})") is not None
            lo, up = lo or lo2, up or up2
    rep.ob(rule, "mnemonic_from_indexes:range", lo and up, fi.where(subs[0]), f"`{wl}[{ix}]` only for 0 <= {ix} < len({wl})" if lo and up else
           f"`{wl}[{ix}]` with the caller's numbers unasked (refusals: {[c.show() for c in cs][:3]}): -1 is read from the end of the list")
    rep.floor(rule, 1)


def rule_single_pass_(ctx: Ctx, rep: Report) -> None:
    """C13.single_pass: a parameter that may be a one-shot iterable is walked, or handed to a function that walks it, at most once per path (see sigcommon.rule_single_pass)."""
    from rules.sigcommon import rule_single_pass
    rule_single_pass(ctx, rep, "C13.single_pass", ('btclib.mnemonic', 'btclib.bip85'), 2)


def rule_interpolate_off_the_points(ctx: Ctx, rep: Report) -> None:
    """C13.interpolate_off_the_points: SLIP39 makes the first T-2 shares random and
    *interpolates* the others through them, the digest and the secret. Lagrange
    interpolation at the x of one of its own points divides by zero (here: a
    table lookup that answers garbage), so `_split_secret` takes the first T-2
    shares from the points themselves and calls `_interpolate(points, i)` only
    for i from T-2 on: the range it runs over starts at the very expression the
    slice of random shares ends at."""
    rule = "C13.interpolate_off_the_points"
    fi = ctx.func("btclib.mnemonic.slip39._split_secret")
    comps = [c for c in own_nodes(fi.node) if isinstance(c, ast.comprehension) and isinstance(c.iter, ast.Call) and call_name(c.iter) == "range"
             and any(isinstance(x, ast.Call) and call_name(x) == "_interpolate" for x in ast.walk(parent(c)))]
    slices = [x for x in own_nodes(fi.node) if isinstance(x, ast.Subscript) and isinstance(x.slice, ast.Slice) and x.slice.lower is None and x.slice.upper is not None and isinstance(x.value, ast.Name)]
    if len(comps) != 1:
        rep.unknown(rule, "_split_secret", fi.where(), f"{len(comps)} interpolating comprehensions")
        return
    rg = comps[0].iter
    ok = len(rg.args) == 2 and any(str(norm(x.slice.upper)) == str(norm(rg.args[0])) for x in slices)
    rep.ob(rule, "_split_secret:range", ok, fi.where(rg), f"interpolated for i in `{norm(rg)}`, the random shares being `{norm(slices[0]) if slices else None}`" if ok else
           f"`_interpolate` is evaluated for i in `{norm(rg)}`, which is not the complement of the random shares: at the x of one of its own points the interpolation is garbage, and every set holding such a share fails its digest")
    rep.floor(rule, 1)


def rule_electrum_reads_with_its_own_normaliser(ctx: Ctx, rep: Report) -> None:
    """C13.electrum_reads_with_its_own_normaliser: electrum's normalisation lowers
    the sentence (and drops combining marks, and the blanks between CJK
    characters); BIP39's `normalize_mnemonic` does none of that. Every place in
    electrum.py that looks the words of a sentence up in a word list reads the
    sentence through electrum's own normaliser (`_decodable` / `_normalize`),
    so that what `version_from_mnemonic` accepts, `entropy_from_mnemonic` reads:
    an upper-case seed is one or the other, not accepted by one and "unknown
    word" to the other."""
    rule = "C13.electrum_reads_with_its_own_normaliser"
    n = 0
    for q, fi in sorted(ctx.prog.functions.items()):
        if not q.startswith("btclib.mnemonic.electrum."):
            continue
        for c in own_nodes(fi.node):
            if isinstance(c, ast.Call) and call_name(c) == "indexes_from_mnemonic" and c.args:
                n += 1
                a = c.args[0]
                srcs = {call_name(x) for x in ast.walk(a) if isinstance(x, ast.Call)}
                if isinstance(a, ast.Name):
                    for d in own_nodes(fi.node):
                        if isinstance(d, ast.Assign) and any(isinstance(t, ast.Name) and t.id == a.id for t in d.targets):
                            srcs |= {call_name(x) for x in ast.walk(d.value) if isinstance(x, ast.Call)}
                # the sentence may arrive normalised already (a private helper of a reader that did it); what is
                # decided here is that it never goes through the *other* normaliser on its way to the lookup
                ok = "normalize_mnemonic" not in srcs
                rep.ob(rule, f"{fi.name}:lookup", ok, fi.where(c), "looked up through electrum's normaliser" if ok else
                       f"`{norm(c)[:70]}` looks the words up after {sorted(srcs)}: BIP39's normaliser, not electrum's, so case (and CJK spacing) is read differently than where the seed's version is checked")
    stray = [c for q, fi in sorted(ctx.prog.functions.items()) if q.startswith("btclib.mnemonic.electrum.") for c in own_nodes(fi.node) if isinstance(c, ast.Call) and call_name(c) == "normalize_mnemonic"]
    rep.ob(rule, "electrum:no_bip39_normaliser", not stray, f"btclib/mnemonic/electrum.py:{stray[0].lineno if stray else 1}", "electrum.py never calls BIP39's normalize_mnemonic" if not stray else "electrum.py normalises a sentence with BIP39's normalize_mnemonic")
    rep.floor(rule, 2)


RULES = [
    ("C13.interpolate_off_the_points", rule_interpolate_off_the_points),
    ("C13.electrum_reads_with_its_own_normaliser", rule_electrum_reads_with_its_own_normaliser),

    ("C13.single_pass", rule_single_pass_),

    ("C13.word_indexes_in_range", rule_word_indexes_in_range),

    ("C13.electrum_normalize_order", rule_electrum_normalize_order),
    ("C13.slip39_padding", rule_slip39_padding),
    ("C13.passphrase_as_typed", rule_passphrase_as_typed),
    ("C13.count_before_normalize", rule_count_before_normalize),
    ("C13.orderings", rule_orderings),
    ("C13.bip85_languages", rule_bip85_languages),
    ("C13.params_forwarded", rule_params_forwarded_),
    ("C13.bip85_input", rule_bip85_input),
    ("C13.lang_pick", rule_lang_pick),
    ("C13.checksum_gate", rule_checksum_gate),
    ("C13.thresholds", rule_thresholds),
]

CONTROLS = [
    {"rule": "C13.orderings", "name": "the slip39 identifier is masked after it salted the encryption", "module": S39,
     "edit": lambda ctx: M.sub_expr(ctx, f"{S39}.mnemonics_from_master_secret", lambda n: isinstance(n, ast.AugAssign) and isinstance(n.op, ast.BitAnd) and norm(n.target) == "identifier", "pass")},
    {"rule": "C13.bip85_languages", "name": "the two Chinese rows are transposed", "module": "btclib.bip85",
     "edit": lambda ctx: M.sub_module_expr(ctx, "btclib.bip85", lambda n: isinstance(n, ast.Constant) and n.value == 4 and isinstance(parent(n), ast.Dict) and len(parent(n).keys) == 10, "5")},
    {"rule": "C13.bip85_input", "name": "the key's leading zeros are stripped", "module": "btclib.bip85",
     "edit": lambda ctx: M.sub_expr(ctx, "btclib.bip85._entropy_from_der_path", M.is_text("xkey.key[1:]"), "xkey.key.lstrip(b'\\x00')")},
    {"rule": "C13.lang_pick", "name": "the first candidate is answered instead of the valid one", "module": "btclib.mnemonic.bip39",
     "edit": lambda ctx: M.sub_expr(ctx, "btclib.mnemonic.bip39.lang_from_mnemonic", M.is_text("return valid[0]"), "return candidates[0]")},
    {"rule": "C13.checksum_gate", "name": "bip39 checksum comparison dropped", "module": B39,
     "edit": lambda ctx: M.drop_if(ctx, f"{B39}.entropy_from_mnemonic", lambda n: "checksum" in norm(n.test))},
    {"rule": "C13.checksum_gate", "name": "slip39 digest skipped for threshold two as well", "module": S39,
     "edit": lambda ctx: M.sub_expr(ctx, f"{S39}._recover_secret", M.is_text("threshold == 1"), "threshold <= 2")},
    {"rule": "C13.checksum_gate", "name": "seed_from_mnemonic defaults to no verification", "module": B39,
     "edit": lambda ctx: M.sub_module_expr(ctx, B39, lambda n: isinstance(n, ast.arg) and n.arg == "verify_checksum", "verify_checksum: bool = False") if False else
     ctx.module(B39).source.replace("verify_checksum: bool = True", "verify_checksum: bool = False", 1)},
    {"rule": "C13.thresholds", "name": "more members than the threshold accepted", "module": S39,
     "edit": lambda ctx: M.sub_expr(ctx, f"{S39}._grouped", M.is_text("len(members) != threshold"), "len(members) < threshold")},
    {"rule": "C13.thresholds", "name": "group threshold read without +1", "module": S39,
     "edit": lambda ctx: M.sub_expr(ctx, f"{S39}.share_from_mnemonic", M.is_text("int(bits[field + 4 : field + 8], 2) + 1"), "int(bits[field + 4 : field + 8], 2)")},
]
