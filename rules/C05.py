"""C05 -- wire formats are canonical; parse and serialize are mutually inverse.

Decided here (structural necessary conditions only, never round-trip
equality itself): writer/reader agreement on integer fields, CompactSize
threshold agreement, refusal of trailing bytes / short reads / superfluous
markers, to_dict/from_dict key and codec agreement, PSBT field tables.
"""

from __future__ import annotations

import ast

from sa import mutate as M
from sa.consts import UNKNOWN, Ref
from sa.ctx import Ctx, mentions
from sa.layout import ints, read_atoms, write_atoms
from sa.loader import AnalysisError, FuncInfo, call_name, norm, own_nodes, parent
from sa.report import Report

NOTES = ("C05: decides writer/reader layout agreement, canonical CompactSize tables, trailing/short-read refusals, "
         "JSON key+codec pairing and PSBT field tables; does not decide value-level round-trip equality.")


# ---------------------------------------------------------------------------
def _codec_classes(ctx: Ctx, a: str, b: str):
    for ci in sorted(ctx.prog.classes.values(), key=lambda c: c.qualname):
        if a in ci.methods and b in ci.methods:
            yield ci


def _cmp_int_atoms(rep: Report, rule: str, key: str, w_fi: FuncInfo, r_fi: FuncInfo, w, r) -> None:
    strip = lambda xs: [a for a in xs if not (a.width == 1 and a.signed is False)]  # noqa: E731
    # a byte read signed where the writer writes no signed byte: 128..255 come back negative
    sb_r = [a for a in ints(r) if a.width == 1 and a.signed is True]
    sb_w = [a for a in ints(w) if a.width == 1 and a.signed is True]
    if len(sb_r) != len(sb_w):
        a = (sb_r or sb_w)[0]
        rep.ob(rule, f"{key}:signed_byte", False, f"{r_fi.file}:{a.line}",
               f"{len(sb_r)} one-byte field(s) read signed, {len(sb_w)} written signed: a value of 128 or more does not come back")
        return
    w2, r2 = strip(ints(w)), strip(ints(r))
    if not w2 and not r2:
        return
    if len(w2) != len(r2):
        rep.unknown(rule, key, w_fi.where(), f"not comparable: {len(w2)} written vs {len(r2)} read integer atoms")
        return
    for i, (a, b) in enumerate(zip(w2, r2)):
        same = a.key() == b.key()
        if UNKNOWN in (a.endian, a.signed, b.endian, b.signed):
            rep.unknown(rule, f"{key}#{i}", w_fi.where(), "unfoldable byteorder/signed")
            continue
        rep.ob(rule, f"{key}#{i}:{a.subject or b.subject}", same, f"{r_fi.file}:{b.line}",
               f"writer {a.show()} [{a.subject}] at {w_fi.file}:{a.line} vs reader {b.show()} [{b.subject}]")


def rule_layout(ctx: Ctx, rep: Report) -> None:
    """C05.layout: serialize and parse of one class agree on every integer
    field's width, byte order and signedness."""
    rule = "C05.layout"
    n = 0
    for ci in _codec_classes(ctx, "serialize", "parse"):
        w = write_atoms(ctx, ci.methods["serialize"])
        r = read_atoms(ctx, ci.methods["parse"])
        before = len(rep.obs)
        _cmp_int_atoms(rep, rule, ci.qualname, ci.methods["serialize"], ci.methods["parse"], w, r)
        n += len(rep.obs) > before
    # module-level pairs (psbt value codecs)
    for mi in ctx.prog.modules.values():
        for name, fi in mi.functions.items():
            if "." in name:
                continue
            base = name.lstrip("_")
            if not base.startswith("serialize_"):
                continue
            stem = base[len("serialize_"):]
            pre = name[: len(name) - len(base)]
            for other in (f"{pre}deserialize_{stem}", f"{pre}parse_{stem}", f"deserialize_{stem}", f"parse_{stem}"):
                if other in mi.functions:
                    _cmp_int_atoms(rep, rule, f"{mi.name}.{name}", fi, mi.functions[other],
                                   write_atoms(ctx, fi), read_atoms(ctx, mi.functions[other]))
                    break
    rep.floor(rule, 25)


# ---------------------------------------------------------------------------
def has_bound_text(ctx: Ctx, fi: FuncInfo, bound: str) -> bool:
    """Some refusal of `<x> > <bound>` (either way round) in fi."""
    from sa.ranges import refusal_constraints
    return any((c.op == ">" and str(c.value_text).split(" |")[0] == bound) or (c.op == "<" and str(c.subject) == bound) for c in refusal_constraints(ctx, fi))


def rule_compactsize(ctx: Ctx, rep: Report) -> None:
    """C05.compactsize: serialize / _size / parse of var_int are one table and
    only the shortest encoding is accepted."""
    rule = "C05.compactsize"
    mi = ctx.module("btclib.var_int")
    ser, size, par, pnum = mi.func("serialize"), mi.func("_size"), mi.func("parse"), mi.func("_parse_number")

    def thresholds(fi: FuncInfo):
        """[(upper bound inclusive, width)] from `if i < C / i <= C: return ...` chains."""
        out = []
        for st in fi.node.body:
            if not (isinstance(st, ast.If) and isinstance(st.test, ast.Compare) and len(st.test.ops) == 1):
                continue
            t = st.test
            left, op, right = t.left, type(t.ops[0]), t.comparators[0]
            if isinstance(right, ast.Name) and right.id == fi.params()[0]:
                # `C > i` is `i < C`
                left, right = right, left
                op = {ast.Gt: ast.Lt, ast.GtE: ast.LtE, ast.Lt: ast.Gt, ast.LtE: ast.GtE}.get(op, op)
            if not (isinstance(left, ast.Name) and left.id == fi.params()[0]):
                continue
            c = ctx.fold(right, mi)
            if not isinstance(c, int):
                continue
            ret = next((s for s in st.body if isinstance(s, ast.Return)), None)
            if ret is None:
                continue  # a refusal, not a width
            ub = c - 1 if op is ast.Lt else c if op is ast.LtE else None
            if ub is None:
                continue
            v = ret.value
            width = None
            prefix = None
            fv = ctx.fold(v, mi) if v is not None else UNKNOWN
            if isinstance(fv, int):
                width = fv
            elif isinstance(v, ast.Call) and norm(v.func) == "bytes":
                width = 1
            elif isinstance(v, ast.BinOp) and isinstance(v.op, ast.Add):
                p = ctx.fold(v.left, mi)
                atoms = [n for n in ast.walk(v.right) if isinstance(n, ast.Call) and call_name(n) == "to_bytes"]
                if isinstance(p, bytes) and len(atoms) == 1:
                    a = atoms[0]
                    nbytes = ctx.fold(a.args[0], mi) if a.args else UNKNOWN
                    kw = {k.arg: ctx.fold(k.value, mi) for k in a.keywords}
                    if isinstance(nbytes, int):
                        width = len(p) + nbytes
                        prefix = (p, nbytes, kw.get("byteorder"), kw.get("signed", False))
            out.append((ub, width, prefix, st.lineno))
        return out

    ts, tz = thresholds(ser), thresholds(size)
    # _size's last arm is an unconditional return
    last = [s for s in size.node.body if isinstance(s, ast.Return)]
    rep.ob(rule, "serialize.table", [(u, w) for u, w, _, _ in ts] == [(0xFC, 1), (0xFFFF, 3), (0xFFFFFFFF, 5), (2**64 - 1, 9)],
           ser.where(), f"serialize thresholds {[(hex(u), w) for u, w, _, _ in ts]}")
    size_tab = [(u, w) for u, w, _, _ in tz] + ([(2**64 - 1, ctx.fold(last[0].value, mi))] if last else [])
    rep.ob(rule, "size==serialize", size_tab == [(u, w) for u, w, _, _ in ts], size.where(),
           f"_size table {size_tab} vs serialize {[(u, w) for u, w, _, _ in ts]}")
    for u, w, prefix, ln in ts:
        if prefix is not None:
            p, nb, bo, sg = prefix
            rep.ob(rule, f"serialize.prefix.{w}", bo == "little" and sg is False and p == {3: b"\xfd", 5: b"\xfe", 9: b"\xff"}.get(w),
                   f"{ser.file}:{ln}", f"width {w}: prefix {p!r} + {nb} bytes {bo} signed={sg}")
    # parse: marker -> (size, minimum); minimum must be previous upper bound + 1
    found = {}
    for c in ctx.calls_to(par, "btclib.var_int._parse_number"):
        if len(c.args) >= 3:
            sz, mn = ctx.fold(c.args[1], mi), ctx.fold(c.args[2], mi)
            facts = ctx.cfg(par).facts_at_ast(c)
            marker = None
            for txt, pol in facts:
                a = ctx.cfg(par).fact_ast[txt]
                if pol and isinstance(a, ast.Compare) and isinstance(a.ops[0], ast.Eq):
                    marker = ctx.fold(a.comparators[0], mi)
                    if marker is UNKNOWN:
                        marker = ctx.fold(a.left, mi)  # written `0xFD == i`
            found[sz] = (marker, mn, c.lineno)
    prev_ub = {2: 0xFC, 4: 0xFFFF, 8: 0xFFFFFFFF}
    mk = {2: 0xFD, 4: 0xFE, 8: 0xFF}
    for sz in (2, 4, 8):
        if sz not in found:
            rep.ob(rule, f"parse.width.{sz}", False, par.where(), f"no _parse_number call for a {sz}-byte number")
            continue
        marker, mn, ln = found[sz]
        rep.ob(rule, f"parse.width.{sz}", marker == mk[sz] and mn == prev_ub[sz] + 1, f"{par.file}:{ln}",
               f"marker {marker!r} -> {sz} bytes, minimum {mn!r}; canonical needs marker {mk[sz]:#x}, minimum {prev_ub[sz] + 1:#x}")
    # _parse_number refuses i < minimum and a short read
    refs = ctx.refusals(pnum)
    params = pnum.params()
    ok_min = any(pol and isinstance(t, ast.Compare) and norm(t) in (f"i < {params[2]}", f"{params[2]} > i") for t, pol, _ in refs)
    rep.ob(rule, "parse.noncanonical_refused", ok_min, pnum.where(), "refusal `i < minimum` present" if ok_min else
           f"no refusal on i < minimum; refusals: {[norm(t) for t, _, _ in refs]}")
    ok_len = any(pol and norm(t) in (f"len(data) != {params[1]}", f"{params[1]} != len(data)") for t, pol, _ in refs)
    rep.ob(rule, "parse.short_refused", ok_len, pnum.where(), "refusal len(data) != size" if ok_len else "no short-read refusal")
    atoms = read_atoms(ctx, pnum)
    rep.ob(rule, "parse.number_le_unsigned", bool(ints(atoms)) and all(a.endian == "little" and a.signed is False for a in ints(atoms)),
           pnum.where(), f"{[a.show() for a in ints(atoms)]}")
    # max_size bound
    ok_max = any(pol and isinstance(t, ast.Compare) and norm(t) == "i > max_size" for t, pol, _ in ctx.refusals(par)) or has_bound_text(ctx, par, "max_size")
    rep.ob(rule, "parse.max_size", ok_max, par.where(), "refusal i > max_size")
    # var_bytes: parse reads exactly the announced length; serialize prefixes len
    vb = ctx.module("btclib.var_bytes")
    vp, vs = vb.func("parse"), vb.func("serialize")
    exact = bool(ctx.calls_to(vp, "btclib.utils.read_exactly")) or any(
        pol and isinstance(t, ast.Compare) and isinstance(t.ops[0], ast.NotEq) and (norm(t.left).startswith("len(") or norm(t.comparators[0]).startswith("len(")) for t, pol, _ in ctx.refusals(vp))
    rep.ob(rule, "var_bytes.parse", bool(ctx.calls_to(vp, "btclib.var_int.parse")) and exact,
           vp.where(), "var_bytes.parse = var_int.parse + an exact-length read")
    okvs = any(c.args and norm(c.args[0]).startswith("len(") for c in ctx.calls_to(vs, "btclib.var_int.serialize"))
    rep.ob(rule, "var_bytes.serialize", okvs, vs.where(), "var_bytes.serialize prefixes var_int.serialize(len(.))")


# ---------------------------------------------------------------------------
WHOLE_OBJECT_EXEMPT = {
    "btclib.ecc.dsa.Sig.parse": "DER: own trailing-byte refusal under `strict`, decided by C02.der",
}


def rule_whole_object(ctx: Ctx, rep: Report) -> None:
    """C05.whole_object: a class parser that wraps its argument refuses what
    follows the object (assert_no_trailing on every normal return) or consumes
    the rest."""
    rule = "C05.whole_object"
    for ci in sorted(ctx.prog.classes.values(), key=lambda c: c.qualname):
        fi = ci.methods.get("parse")
        if fi is None:
            continue
        wraps = ctx.calls_to(fi, "btclib.utils.bytesio_from_binarydata")
        direct = [c for c in ctx.calls_to(fi, "BytesIO", last=True)]
        if not wraps and not direct:
            continue
        if fi.qualname in WHOLE_OBJECT_EXEMPT:
            continue
        params = set(fi.params())
        g = ctx.cfg(fi)
        through = []
        for c in ctx.calls_to(fi, "btclib.utils.assert_no_trailing"):
            if len(c.args) >= 2 and isinstance(c.args[0], ast.Name) and c.args[0].id in params and ctx.unconditional(g, c):
                through += g.nodes_containing(c)
        # consuming the rest of the stream is the other accepted form
        for c in ctx.calls_to(fi, "read", last=True):
            if not c.args and not c.keywords and ctx.unconditional(g, c):
                through += g.nodes_containing(c)
        path = g.must_pass(through)
        rep.ob(rule, fi.qualname, path is None, fi.where(),
               "assert_no_trailing(<param>, stream) on every normal return" if path is None else
               "a normal return is reachable without assert_no_trailing: " + " -> ".join(g.describe_path(path)[-4:]))
    rep.floor(rule, 40)
    # fixed-size objects refuse a wrong decoded length
    for q in ("btclib.bip32.bip32.BIP32KeyData.parse", "btclib.block.block_header.BlockHeader.parse",
              "btclib.ecc.bms.Sig.parse", "btclib.ecc.ssa.Sig.parse"):
        fi = ctx.func(q)
        from sa.ranges import refusal_constraints as _rc
        ok = any(c.op == "!=" and str(c.subject).startswith("len(") and "_REQUIRED_LENGTH" in str(c.value_text) for c in _rc(ctx, fi))
        rep.ob("C05.fixed_length", q, ok, fi.where(), "refusal len(buf) != _REQUIRED_LENGTH" if ok else "no fixed-length refusal")


# ---------------------------------------------------------------------------
CHECKED_READS = {"read_exactly", "parse", "_parse_number", "_parse_der_value", "_deserialize_scalar"}
SHORT_READ_SAFE = {
    # qualname -> reason (read and frozen)
    "btclib.hwi": "not a wire parser (subprocess pipes)",
}


SHORT_READ_PRECHECKED = {
    # read key -> the refusal (substring of its test) that bounds the read beforehand
    "btclib.psbt.psbt_utils.parse_taproot_bip32:read(LEAF_HASH_SIZE)": "> available",
}


def _byte_streams(fi: FuncInfo) -> set[str]:
    """Names that hold a byte stream in fi: parameters annotated as one, and
    locals bound from bytesio_from_binarydata / BytesIO."""
    out = set()
    a = fi.node.args
    for p in a.posonlyargs + a.args + a.kwonlyargs:
        if p.annotation is not None and any(w in norm(p.annotation) for w in ("BytesIO", "BinaryIO", "BinaryData")):
            out.add(p.arg)
    for n in own_nodes(fi.node):
        if isinstance(n, ast.Assign) and isinstance(n.value, ast.Call) and call_name(n.value) in ("bytesio_from_binarydata", "BytesIO"):
            for t in n.targets:
                out.add(norm(t))
    return out


def rule_short_read(ctx: Ctx, rep: Report) -> None:
    """C05.short_read: a raw `.read(n)` is length-validated before use, or a
    checked read on the same stream follows on every path to a normal return."""
    rule = "C05.short_read"
    for fi in sorted(ctx.prog.functions.values(), key=lambda f: f.qualname):
        if fi.module.name.startswith(("btclib.hwi", "btclib.fetch")):
            continue
        reads = [c for c in ctx.calls_to(fi, "read", last=True)
                 if isinstance(c.func, ast.Attribute) and len(c.args) == 1 and not c.keywords]
        if not reads:
            continue
        streams = _byte_streams(fi)
        g = ctx.cfg(fi)
        for c in reads:
            recv = norm(c.func.value)
            if recv not in streams:
                continue
            key = f"{fi.qualname}:{recv}.read({norm(c.args[0])})"
            par = parent(c)
            # (c) compared directly / tested for truth / handed to a checked parser
            if isinstance(par, (ast.Compare, ast.If, ast.While, ast.BoolOp)) or (isinstance(par, ast.UnaryOp) and isinstance(par.op, ast.Not)):
                rep.ob(rule, key, True, fi.where(c), f"tested directly: {norm(par)[:60]}")
                continue
            if isinstance(par, ast.Call) and call_name(par) in CHECKED_READS and c in par.args:
                rep.ob(rule, key, True, fi.where(c), f"handed to a checked parser: {norm(par.func)}")
                continue
            pre = SHORT_READ_PRECHECKED.get(f"{fi.qualname}:read({norm(c.args[0])})")  # keyed without the stream's name
            if pre is not None:
                ok = any(pol and (pre in norm(t) or (pre.startswith("> ") and norm(t).startswith(pre[2:] + " <"))) for t, pol, _ in ctx.refusals(fi))
                rep.ob(rule, key, ok, fi.where(c), f"bounded beforehand by a refusal on `{pre}`" if ok else f"the refusal on `{pre}` that bounded this read is gone")
                continue
            var = None
            if isinstance(par, ast.Assign) and len(par.targets) == 1 and isinstance(par.targets[0], ast.Name):
                var = par.targets[0].id
            elif isinstance(par, ast.AnnAssign) and isinstance(par.target, ast.Name):
                var = par.target.id
            validated = False
            if var:
                for n in g.nodes:
                    if n.kind != "test":
                        continue
                    t = norm(n.ast)
                    if mentions(n.ast, f"len({var})") or t == var or (isinstance(n.ast, ast.Compare) and norm(n.ast.left) == var):
                        validated = True
                        why = f"validated by `{t}`"
                        break
            if validated:
                rep.ob(rule, key, True, fi.where(c), why)
                continue
            # (b) a checked read on the same stream follows on every path to return
            through = []
            for c2 in (n for n in own_nodes(fi.node) if isinstance(n, ast.Call)):
                if c2 is c or c2.lineno < c.lineno:
                    continue
                if call_name(c2) in CHECKED_READS and any(norm(a) == recv for a in c2.args) and ctx.unconditional(g, c2):
                    through += g.nodes_containing(c2)
            start = ctx.node_of(g, c)
            path = g.must_pass([t for t in through if t != start], start=start)
            rep.ob(rule, key, path is None, fi.where(c),
                   "followed by a checked read on every path to return" if path is None else
                   "short read can reach a normal return unvalidated: " + " -> ".join(g.describe_path(path)[-3:]))
    rep.floor(rule, 25)


# ---------------------------------------------------------------------------
def _ancestors(n: ast.AST):
    p = parent(n)
    while p is not None:
        yield p
        p = parent(p)


def rule_superfluous(ctx: Ctx, rep: Report) -> None:
    """C05.superfluous: the four refusals that keep encodings unique."""
    rule = "C05.superfluous"

    def has_refusal(q: str, pred, what: str) -> None:
        fi = ctx.func(q)
        refs = ctx.refusals(fi)
        hit = [norm(t) for t, pol, _ in refs if pred(t, pol)]
        rep.ob(rule, f"{q}:{what}", bool(hit), fi.where(), f"refusal found: {hit[0]}" if hit else
               f"no refusal for {what}; refusals present: {[norm(t) for t, _, _ in refs][:8]}")

    # Tx.parse: segwit marker present but no input carries a witness
    has_refusal("btclib.tx.tx.Tx.parse",
                lambda t, pol: ("witness" in norm(t) or "is_segwit" in norm(t) or "stack" in norm(t)) and
                any(isinstance(n, ast.Call) and call_name(n) == "any" for n in ast.walk(t)) and pol is False
                or (isinstance(t, ast.Call) and call_name(t) == "any" and pol is False),
                "superfluous witness record")
    # Headers.parse: tx count != 0
    hp = ctx.func("btclib.p2p.inventory.Headers.parse")
    loop_vars = {norm(parent(c).targets[0]) for c in ctx.calls_to(hp, "btclib.var_int.parse")
                 if isinstance(parent(c), ast.Assign) and any(isinstance(x, ast.For) for x in _ancestors(c))}
    has_refusal("btclib.p2p.inventory.Headers.parse",
                lambda t, pol: (isinstance(t, ast.Compare) and isinstance(t.ops[0], ast.NotEq) and norm(t.comparators[0]) == "0"
                                and norm(t.left) in loop_vars and pol)
                or (norm(t) in loop_vars and pol),
                "non-zero transaction count")
    # Version.parse: relay octet > 1
    from sa.ranges import has_bound as _hb, refusal_constraints as _rc2
    vp = ctx.func("btclib.p2p.handshake.Version.parse")
    cvp = _rc2(ctx, vp)
    okr = _hb(cvp, ">", 1) is not None or any(c.op == "not in" and c.value in (frozenset({0, 1}), frozenset({b"\x00", b"\x01"})) for c in cvp)
    rep.ob(rule, "btclib.p2p.handshake.Version.parse:relay flag above 1", okr, vp.where(), "a relay octet above 1 is refused" if okr else f"no refusal of a relay octet above 1; refusals: {[c.show() for c in cvp][:8]}")


# ---------------------------------------------------------------------------
def _to_dict_entries(fi: FuncInfo) -> dict[str, ast.AST]:
    enc: dict[str, ast.AST] = {}
    for n in own_nodes(fi.node):
        if isinstance(n, ast.Dict) and isinstance(parent(n), (ast.Return, ast.Assign, ast.AnnAssign)):
            for k, v in zip(n.keys, n.values):
                if isinstance(k, ast.Constant) and isinstance(k.value, str):
                    enc[k.value] = v
        if isinstance(n, ast.Subscript) and isinstance(n.ctx, ast.Store) and isinstance(n.slice, ast.Constant) and isinstance(n.slice.value, str):
            p = parent(n)
            if isinstance(p, ast.Assign):
                enc[n.slice.value] = p.value
    return enc


def _from_dict_reads(fi: FuncInfo) -> dict[str, list[ast.AST]]:
    dec: dict[str, list[ast.AST]] = {}
    for n in own_nodes(fi.node):
        if isinstance(n, ast.Subscript) and isinstance(n.ctx, ast.Load) and isinstance(n.slice, ast.Constant) and isinstance(n.slice.value, str):
            dec.setdefault(n.slice.value, []).append(n)
        if isinstance(n, ast.Call) and isinstance(n.func, ast.Attribute) and n.func.attr in ("get", "pop") and n.args \
                and isinstance(n.args[0], ast.Constant) and isinstance(n.args[0].value, str):
            dec.setdefault(n.args[0].value, []).append(n)
    return dec


DERIVED_KEYS = {
    # keys that restate the object (ids, sizes, classifications): computed, not stored
    "btclib.tx.tx.Tx": {"txid", "hash", "size", "vsize", "weight"},
    "btclib.block.block_header.BlockHeader": {"target", "difficulty"},
    "btclib.tx.tx_out.TxOut": {"addresses", "type"},
    "btclib.psbt.psbt.Psbt": {"tx"},
}


def rule_dict_keys(ctx: Ctx, rep: Report) -> None:
    """C05.dict_keys: every key from_dict reads is one to_dict writes."""
    rule = "C05.dict_keys"
    for ci in _codec_classes(ctx, "to_dict", "from_dict"):
        enc = _to_dict_entries(ci.methods["to_dict"])
        dec = _from_dict_reads(ci.methods["from_dict"])
        if not enc or not dec:
            rep.unknown(rule, ci.qualname, ci.methods["to_dict"].where(), "dict shape not literal")
            continue
        for k in sorted(dec):
            rep.ob(rule, f"{ci.qualname}[{k!r}]", k in enc, ci.methods["from_dict"].where(dec[k][0]),
                   "key written by to_dict" if k in enc else f"from_dict reads {k!r}, to_dict writes {sorted(enc)}")
        # the converse: a key to_dict writes and from_dict never reads is information the JSON form loses,
        # unless it is derived from the other fields (frozen table)
        derived = DERIVED_KEYS.get(ci.qualname, set())
        for k in sorted(set(enc) - set(dec)):
            rep.ob(rule, f"{ci.qualname}[{k!r}]:read_back", k in derived, ci.methods["to_dict"].where(),
                   "derived from the other fields (not read back by design)" if k in derived else
                   f"to_dict writes {k!r} but from_dict never reads it: the value is lost on the JSON round trip")
        # from_dict wraps its argument (JSON boundary helper) before the first subscript
        fd = ci.methods["from_dict"]
        wrap = ctx.calls_to(fd, "btclib.utils.fields_from_json_object")
        rep.ob("C05.json_boundary", ci.qualname, bool(wrap), fd.where(), "fields_from_json_object wraps the argument"
               if wrap else "from_dict subscripts its argument without fields_from_json_object")
    rep.floor(rule, 60)


# encoder (last identifier) -> allowed decoders; "<ctor>" = passed raw to the
# constructor, which decodes it (read: the constructors call decode_* on these)
PAIRS = {
    "script_to_dict": {"script_from_dict"},
    "to_dict": {"from_dict", "list_from_json_array"},
    "encode_to_bip32_derivs": {"decode_from_bip32_derivs"},
    "taproot_bip32_to_dict": {"taproot_bip32_from_dict"},
    "encode_dict_bytes_bytes": {"<ctor>", "decode_dict_bytes_bytes"},
    "encode_leaf_scripts": {"<ctor>", "decode_leaf_scripts"},
    "encode_musig2_participant_pub_keys": {"<ctor>", "decode_musig2_participant_pub_keys"},
    "encode_taproot_tree": {"<ctor>", "decode_taproot_tree"},
    "hex": {"<ctor>", "bytes_from_octets", "fromhex", "list_from_json_array"},
    "btc_from_sats": {"sats_from_btc"},
    "isoformat": {"_time_from_isoformat", "fromisoformat"},
    "str_from_der_path": {"<ctor>"},
}
CODEC_NAMES = set(PAIRS) | {d for v in PAIRS.values() for d in v}
IGNORED_WRAPPERS = {"dict", "sorted", "items", "str", "cast", "cls", "list", "int", "bool"}


def _codec_of_encoder(v: ast.AST) -> str:
    for n in ast.walk(v):
        if isinstance(n, ast.Call):
            nm = call_name(n)
            if nm in PAIRS:
                return nm
    calls = [call_name(n) for n in ast.walk(v) if isinstance(n, ast.Call) and call_name(n) not in IGNORED_WRAPPERS]
    return calls[0] if calls else "<raw>"


def rule_codec_pairs(ctx: Ctx, rep: Report) -> None:
    """C05.codec_pairs: the decoder from_dict applies to a key is the partner
    of the encoder to_dict applied to it."""
    rule = "C05.codec_pairs"
    for ci in _codec_classes(ctx, "to_dict", "from_dict"):
        enc = _to_dict_entries(ci.methods["to_dict"])
        dec = _from_dict_reads(ci.methods["from_dict"])
        fd = ci.methods["from_dict"]
        for k in sorted(set(enc) & set(dec)):
            e = _codec_of_encoder(enc[k])
            ds = set()
            for sub in dec[k]:
                p = parent(sub)
                # skip truthiness tests `if dict_[k]`
                if (isinstance(p, ast.IfExp) and p.test is sub) or isinstance(p, (ast.Compare, ast.If, ast.BoolOp, ast.UnaryOp)):
                    continue
                while isinstance(p, ast.Call) and call_name(p) in ("cast",):
                    p = parent(p)
                if isinstance(p, ast.Call) and sub in p.args and call_name(p) not in ("cls",) and norm(p.func) != ci.name:
                    ds.add(call_name(p))
                else:
                    ds.add("<ctor>")
            if e == "<raw>":
                continue
            if e not in PAIRS:
                rep.unknown(rule, f"{ci.qualname}[{k!r}]", fd.where(), f"encoder {e} not in the frozen pair table")
                continue
            bad = ds - PAIRS[e]
            rep.ob(rule, f"{ci.qualname}[{k!r}]", not bad, fd.where(dec[k][0]),
                   f"encoded by {e}, decoded by {sorted(ds)}" + ("" if not bad else f"; partner(s) of {e} are {sorted(PAIRS[e])}"))
    rep.floor(rule, 50)


# ---------------------------------------------------------------------------
PSBT_MAPS = [
    ("btclib.psbt.psbt_in", "PsbtIn"),
    ("btclib.psbt.psbt_out", "PsbtOut"),
]


def rule_psbt_tables(ctx: Ctx, rep: Report) -> None:
    """C05.psbt_tables: the serialize table, the two parse tables and the
    dataclass fields of a PSBT map describe the same set of fields."""
    rule = "C05.psbt_tables"
    for modname, cname in PSBT_MAPS:
        mi = ctx.module(modname)
        ci = mi.cls(cname)
        fields = ci.fields()
        ser = ctx.const(modname, "_SERIALIZED_FIELDS")
        whole = ctx.const(modname, "_WHOLE_VALUE_FIELDS")
        keyd = ctx.const(modname, "_KEY_DATA_FIELDS")
        if any(x is UNKNOWN for x in (ser, whole, keyd)):
            if cname == "PsbtIn":
                raise AnalysisError(f"{modname}: field tables do not fold")
            continue  # hand-written dispatch: decided by C05.psbt_types below
        where = f"{mi.relpath}:1"
        ser_fields = [row[1] for row in ser]
        ser_types = {row[1]: row[0] for row in ser}
        rep.ob(rule, f"{cname}.serialized==fields", sorted(ser_fields) == sorted(fields), where,
               f"missing from _SERIALIZED_FIELDS: {sorted(set(fields) - set(ser_fields))}; not fields: {sorted(set(ser_fields) - set(fields))}")
        rep.ob(rule, f"{cname}.serialized_unique", len(set(ser_fields)) == len(ser_fields) and
               len({row[0] for row in ser}) == len(ser), where, "each field and each type byte appears once")
        parse_map = {}
        for t, row in whole.items():
            parse_map[t] = row[0]
        dup = set(whole) & set(keyd)
        for t, row in keyd.items():
            parse_map[t] = row[0]
        rep.ob(rule, f"{cname}.parse_tables_disjoint", not dup, where, f"type bytes in both parse tables: {sorted(dup)}")
        for f in fields:
            t = ser_types.get(f)
            if f == "unknown":
                rep.ob(rule, f"{cname}.{f}", t == b"", where, "unknown is serialized with an empty type prefix (whole keys kept)")
                continue
            ok = t in parse_map and parse_map[t] == f
            rep.ob(rule, f"{cname}.{f}", ok, where,
                   f"type {t!r}: serialized as {f}, parsed as {parse_map.get(t, '<unknown map>')!r}")
        extra = set(parse_map) - set(ser_types.values())
        rep.ob(rule, f"{cname}.no_parse_only_types", not extra, where, f"type bytes parsed but never serialized: {sorted(extra)}")
        # serializer/deserializer pairing per field
        for row in ser:
            t, f, s = row
            if f == "unknown" or t not in parse_map:
                continue
            sname = s.text if isinstance(s, Ref) else repr(s)
            if t in whole:
                d = whole[t][2]
            else:
                d = keyd[t][1]
            dname = d.text if isinstance(d, Ref) else repr(d)
            partner = VALUE_PAIRS.get(sname)
            if partner is None:
                rep.unknown("C05.psbt_value_codec", f"{cname}.{f}", where, f"serializer {sname} not in the frozen pair table")
                continue
            rep.ob("C05.psbt_value_codec", f"{cname}.{f}", dname in partner, where,
                   f"written by {sname}, read by {dname}; partner(s): {sorted(partner)}")
        # parse: unknown arm keeps the whole key; known key-data arm strips one byte
        par = ci.methods["parse"]
        stores = [n for n in own_nodes(par.node) if isinstance(n, ast.Subscript) and isinstance(n.ctx, ast.Store)
                  and isinstance(n.value, ast.Call) and call_name(n.value) == "setdefault"]
        unk = [n for n in stores if n.value.args and isinstance(n.value.args[0], ast.Constant) and n.value.args[0].value == "unknown"]
        rep.ob(rule, f"{cname}.parse_unknown_arm", len(unk) == 1 and isinstance(unk[0].slice, ast.Name), par.where(),
               "unknown keys are stored under the whole key" if unk else "no `unknown` arm in parse")
        # v2 tables
        v2 = ctx.const(modname, "_V2_FIELDS")
        v2only = ctx.const(modname, "_V2_ONLY")
        if isinstance(v2, dict) and isinstance(v2only, frozenset):
            names = {parse_map.get(t) for t in v2}
            rep.ob(rule, f"{cname}.v2_tables", set(v2only) <= names, where,
                   f"_V2_ONLY {sorted(v2only)} within the fields of _V2_FIELDS {sorted(n for n in names if n)}")
    _psbt_type_cover(ctx, rep)
    # the map reader refuses duplicates and unterminated maps
    dm = ctx.func("btclib.psbt.psbt_utils.deserialize_map")
    refs = [(norm(t), pol) for t, pol, _ in ctx.refusals(dm)]
    rep.ob(rule, "deserialize_map.duplicate", any(" in " in t and pol for t, pol in refs), dm.where(), f"refusals {refs}")
    rep.ob(rule, "deserialize_map.unterminated", any(t in ("marker",) and pol is False for t, pol in refs), dm.where(), f"refusals {refs}")


def _name_closure(ctx: Ctx, mi, fi: FuncInfo, depth: int = 3) -> set[str]:
    """Module-level names referenced from fi, through same-module functions
    and module-level tables, to the given depth."""
    seen: set[str] = set()
    out: set[str] = set()
    work = [(fi.node, 0)]
    while work:
        node, d = work.pop()
        for n in ast.walk(node):
            if isinstance(n, ast.Name) and n.id not in seen:
                seen.add(n.id)
                if n.id in mi.assigns:
                    out.add(n.id)
                    if d < depth:
                        for v in mi.assigns[n.id]:
                            work.append((v, d + 1))
                elif n.id in mi.functions and d < depth:
                    work.append((mi.functions[n.id].node, d + 1))
    return out


PSBT_TYPE_PREFIXES = [
    ("btclib.psbt.psbt_in", "PsbtIn", "PSBT_IN_"),
    ("btclib.psbt.psbt_out", "PsbtOut", "PSBT_OUT_"),
    ("btclib.psbt.psbt", "Psbt", "PSBT_GLOBAL_"),
]


def _psbt_type_cover(ctx: Ctx, rep: Report) -> None:
    """Every key-type constant a map module defines is written by serialize
    and read by parse (through whatever helpers and tables they use)."""
    rule = "C05.psbt_types"
    for modname, cname, prefix in PSBT_TYPE_PREFIXES:
        mi = ctx.module(modname)
        ci = mi.cls(cname)
        defined = {n for n in mi.assigns if n.startswith(prefix)}
        if len(defined) < 5:
            raise AnalysisError(f"{modname}: fewer than 5 {prefix}* constants")
        w = _name_closure(ctx, mi, ci.methods["serialize"])
        r = _name_closure(ctx, mi, ci.methods["parse"])
        for name in sorted(defined):
            rep.ob(rule, f"{cname}.{name}", name in w and name in r, f"{mi.relpath}:1",
                   f"written by serialize: {name in w}; read by parse: {name in r}")
        # values are pairwise distinct one-byte types
        vals = {n: ctx.const(modname, n) for n in defined}
        rep.ob(rule, f"{cname}.distinct", len(set(vals.values())) == len(vals) and all(isinstance(v, bytes) and len(v) == 1 for v in vals.values()),
               f"{mi.relpath}:1", "key types are distinct single bytes")
    rep.floor(rule, 45)


VALUE_PAIRS = {
    "serialize_bytes": {"deserialize_bytes"},
    "serialize_dict_bytes_bytes": {"bytes"},
    "_serialize_uint32": {"_deserialize_uint32"},
    "_serialize_non_witness_utxo": {"deserialize_tx"},
    "_serialize_witness_utxo": {"_deserialize_witness_utxo"},
    "_serialize_final_script_witness": {"_deserialize_final_script_witness"},
    "_serialize_previous_tx_id": {"_deserialize_previous_tx_id"},
    "serialize_hd_key_paths": {"BIP32KeyOrigin.parse"},
    "serialize_leaf_scripts": {"parse_leaf_script"},
    "serialize_taproot_bip32": {"parse_taproot_bip32"},
    "serialize_taproot_tree": {"parse_taproot_tree"},
    "serialize_musig2_participant_pub_keys": {"parse_musig2_participant_pub_keys"},
    "_serialize_amount": {"_deserialize_amount"},
    "_serialize_sp_v0_label": {"_deserialize_sp_v0_label"},
}


# ---------------------------------------------------------------------------
def rule_sorted_maps(ctx: Ctx, rep: Report) -> None:
    """C05.sorted_maps: every PSBT map serializer iterates sorted(...) of the map."""
    rule = "C05.sorted_maps"
    mi = ctx.module("btclib.psbt.psbt_utils")
    for name, fi in sorted(mi.functions.items()):
        if not name.startswith("serialize_") or "." in name:
            continue
        params = fi.params()
        if len(params) < 2:
            continue
        ann = fi.node.args.args[1].annotation
        if ann is None or not any(w in norm(ann) for w in ("Mapping", "dict")):
            continue
        p = params[1]
        iters = []
        for n in own_nodes(fi.node):
            if isinstance(n, ast.comprehension):
                iters.append(n.iter)
            elif isinstance(n, ast.For):
                iters.append(n.iter)
        rel = [it for it in iters if p in {x.id for x in ast.walk(it) if isinstance(x, ast.Name)}]
        ok = bool(rel) and all(isinstance(it, ast.Call) and call_name(it) == "sorted" for it in rel)
        rep.ob(rule, fi.qualname, ok, fi.where(), f"iterates {[norm(it) for it in rel]}")
    rep.floor(rule, 4)


def rule_count_bounds(ctx: Ctx, rep: Report) -> None:
    """C05.count_bounds: parse refuses a count exactly where assert_valid refuses
    the length -- what serialize can write, parse reads back."""
    from sa.ranges import refusal_constraints
    rule = "C05.count_bounds"
    for ci in _codec_classes(ctx, "parse", "assert_valid"):
        pc = [c for c in refusal_constraints(ctx, ci.methods["parse"]) if c.op in (">", ">=", "<", "<=") and c.value_text.split(" |")[0].isidentifier() and c.value_text.split(" |")[0].isupper()]
        vc = [c for c in refusal_constraints(ctx, ci.methods["assert_valid"]) if c.op in (">", ">=", "<", "<=") and c.value_text.split(" |")[0].isidentifier() and c.value_text.split(" |")[0].isupper()]
        for c in pc:
            const = c.value_text.split(" |")[0]
            tw = [v for v in vc if v.value_text.split(" |")[0] == const and v.subject.startswith("len(")]
            if not tw:
                continue
            ok = any(v.op == c.op for v in tw)
            rep.ob(rule, f"{ci.qualname}:{const}", ok, ci.methods["parse"].where(c.node),
                   f"parse refuses {c.subject} {c.op} {const}, assert_valid refuses {tw[0].subject} {tw[0].op} {const}" + ("" if ok else ": an object that is valid and serializes does not parse back (or the reverse)"))
    rep.floor(rule, 8)


def rule_witness_gate(ctx: Ctx, rep: Report) -> None:
    """C05.witness_gate: Tx.serialize leaves the whole witness section out when no
    input `is_segwit`; what it leaves out must be what parse puts back -- an
    empty stack per input, and only that. So TxIn.is_segwit has to answer
    "the stack has an element", for every element: decided by folding its
    return expression over representative stacks (finite case split on the
    only things the expression can look at: the count and the emptiness of
    the elements)."""
    from sa.canon import expand
    from sa.consts import UNKNOWN
    rule = "C05.witness_gate"
    fi = ctx.func("btclib.tx.tx_in.TxIn.is_segwit")
    rets = [n for n in own_nodes(fi.node) if isinstance(n, ast.Return) and n.value is not None]
    if len(rets) != 1:
        rep.unknown(rule, "TxIn.is_segwit", fi.where(), f"{len(rets)} return statements: not the single-expression shape this rule folds")
        return
    text = expand(fi, rets[0].value)
    cases = [("[]", False), ("[b'']", True), ("[b'', b'']", True), ("[b'\\x01']", True), ("[b'', b'\\x01']", True)]
    for lit, want in cases:
        t = text.replace("self.script_witness.stack", lit)
        if "self" in t:
            rep.unknown(rule, f"TxIn.is_segwit:{lit}", fi.where(rets[0]), f"`{text}` reads more than the witness stack")
            continue
        v = ctx.folder.try_fold(ast.parse(t, mode="eval").body, fi.module)
        if v is UNKNOWN:
            rep.unknown(rule, f"TxIn.is_segwit:{lit}", fi.where(rets[0]), f"`{t}` does not fold")
            continue
        rep.ob(rule, f"TxIn.is_segwit:{lit}", bool(v) == want, fi.where(rets[0]),
               f"`{text}` on stack {lit} is {bool(v)}" + ("" if bool(v) == want else
               f": serialize drops a witness of {lit}, so the transaction does not parse back (and its wtxid, size and weight are those of another one)"))
    # Tx.is_segwit is the disjunction over the inputs, and serialize's gate is Tx.is_segwit
    tx = ctx.func("btclib.tx.tx.Tx.is_segwit")
    r2 = [n for n in own_nodes(tx.node) if isinstance(n, ast.Return) and n.value is not None]
    ok = len(r2) == 1 and isinstance(r2[0].value, ast.Call) and call_name(r2[0].value) == "any" and "is_segwit" in norm(r2[0].value) and "self.vin" in norm(r2[0].value)
    rep.ob(rule, "Tx.is_segwit:any_input", ok, tx.where(), "a transaction is segwit when any input is")
    rep.floor(rule, 1)


def _key_checkers(ctx: Ctx) -> set[str]:
    """Functions (k, v, ...) of btclib.psbt that refuse a key longer than its
    type byte: directly (`len(k) != 1` refusal), or by handing k to one that does."""
    from sa.ranges import refusal_constraints
    out: set[str] = set()
    cands = [f for m in ("btclib.psbt.psbt_utils", "btclib.psbt.psbt_in", "btclib.psbt.psbt_out", "btclib.psbt.psbt")
             for f in ctx.module(m).functions.values() if len(f.params()) >= 2 and "." not in f.qualname.split(m + ".", 1)[1]]
    for f in cands:
        k = f.params()[0]
        if any(c.subject == f"len({k})" and ((c.op == "!=" and c.value == 1) or (c.op == ">" and c.value == 1) or (c.op == ">=" and c.value == 2))
               for c in refusal_constraints(ctx, f)):
            out.add(f.qualname)
    changed = True
    while changed:
        changed = False
        for f in cands:
            if f.qualname in out:
                continue
            k = f.params()[0]
            g = ctx.cfg(f)
            for c in own_nodes(f.node):
                if isinstance(c, ast.Call) and c.args and isinstance(c.args[0], ast.Name) and c.args[0].id == k \
                        and ctx.resolve_call(f, c) in out and ctx.unconditional(g, c):
                    out.add(f.qualname)
                    changed = True
                    break
    return out


def _arms(loop: ast.For) -> list[tuple[str, list[ast.stmt]]]:
    """Leaf arms of the if/elif chain(s) in the loop body: (test text, body)."""
    out = []

    def chain(n: ast.If, neg: list[str]) -> None:
        out.append((norm(n.test), n.body))
        if len(n.orelse) == 1 and isinstance(n.orelse[0], ast.If):
            chain(n.orelse[0], neg + [norm(n.test)])
        elif n.orelse:
            out.append(("else", n.orelse))

    for st in loop.body:
        if isinstance(st, ast.If):
            chain(st, [])
    return out


def rule_psbt_whole_key(ctx: Ctx, rep: Report) -> None:
    """C05.psbt_whole_key: every arm of a PSBT map's parse loop accounts for the
    whole key -- hands `k` to a deserializer that refuses key data, keeps the
    key data (`k[1:]`), files the pair under `k`, or raises. An arm that reads
    only `v` accepts `<type><anything>` and writes back `<type>`: a pair is
    renamed, and two pairs of one type collapse into one. An arm that reads
    nothing needs a pre-reader that examines *every* key of the type."""
    rule = "C05.psbt_whole_key"
    checkers = _key_checkers(ctx)
    if len(checkers) < 6:
        raise AnalysisError(f"psbt key-checking deserializers not recognised: {sorted(checkers)}")
    loops = []
    for q in ("btclib.psbt.psbt._parse_global_map", "btclib.psbt.psbt_in.PsbtIn.parse", "btclib.psbt.psbt_out.PsbtOut.parse"):
        fi = ctx.func(q)
        for n in own_nodes(fi.node):
            if isinstance(n, ast.For) and isinstance(n.target, ast.Tuple) and len(n.target.elts) == 2 and isinstance(n.iter, ast.Call) \
                    and call_name(n.iter) == "items" and all(isinstance(e, ast.Name) for e in n.target.elts):
                loops.append((fi, n))
    if len(loops) != 3:
        raise AnalysisError(f"psbt map parse loops: found {len(loops)}, expected 3")
    n_arms = 0
    for fi, loop in loops:
        k, v = (e.id for e in loop.target.elts)
        # locals bound from a dispatch table row: `field, what, deserialize = TABLE[type_]`, `(x := TABLE.get(..))`
        for test, body in _arms(loop):
            n_arms += 1
            key = f"{fi.qualname}:[{test[:60]}]"
            nodes = [x for st in body for x in ast.walk(st)]
            if all(isinstance(st, ast.Raise) for st in body) or any(isinstance(x, ast.Raise) for x in nodes) and not any(isinstance(x, ast.Name) and x.id == v for x in nodes):
                rep.ob(rule, key, True, fi.where(body[0]), "refuses")
                continue
            whole_call = [c for c in nodes if isinstance(c, ast.Call) and any(isinstance(a, ast.Name) and a.id == k for a in c.args)]
            keydata = [x for x in nodes if isinstance(x, ast.Subscript) and isinstance(x.value, ast.Name) and x.value.id == k
                       and isinstance(x.slice, ast.Slice) and x.slice.lower is not None and norm(x.slice.lower) == "1" and x.slice.upper is None]
            filed = [x for x in nodes if isinstance(x, ast.Subscript) and isinstance(x.ctx, ast.Store) and isinstance(x.slice, ast.Name) and x.slice.id == k]
            uses_v = any(isinstance(x, ast.Name) and x.id == v for x in nodes)
            if whole_call:
                bad = []
                for c in whole_call:
                    t = ctx.resolve_call(fi, c)
                    if t in ctx.prog.functions:
                        if t not in checkers:
                            bad.append(norm(c.func))
                    # a callee taken from a dispatch table: the tables' deserializers are checked below, by name
                rep.ob(rule, key, not bad, fi.where(body[0]), "hands the whole key to a deserializer that refuses key data" if not bad else
                       f"hands the key to {bad}, which does not refuse a key longer than the type byte")
            elif keydata or filed:
                rep.ob(rule, key, True, fi.where(body[0]), "keeps the key data" if keydata else "files the pair under its whole key")
            elif uses_v:
                rep.ob(rule, key, False, fi.where(body[0]), f"reads `{v}` and never `{k}`: `<type><key data>` is accepted and written back as `<type>` -- the pair is renamed, and two of one type collapse")
            else:
                # nothing read here: some pre-reader must look at every key of this type
                consts = {x.id for x in ast.walk(ast.parse(test, mode="eval")) if isinstance(x, ast.Name) and x.id.isupper()} if test != "else" else set()
                pre = []
                for f2 in fi.module.functions.values():
                    for n2 in own_nodes(f2.node):
                        if not (isinstance(n2, ast.For) and isinstance(n2.target, ast.Tuple) and len(n2.target.elts) == 2 and f2 is not fi):
                            continue
                        k2 = n2.target.elts[0].id if isinstance(n2.target.elts[0], ast.Name) else None
                        inner = [x for st in n2.body for x in ast.walk(st)]
                        if not consts or not any(isinstance(x, ast.Name) and x.id in consts for x in inner):
                            continue
                        early = [x for x in inner if isinstance(x, (ast.Return, ast.Break))]
                        checks = [c for c in inner if isinstance(c, ast.Call) and c.args and isinstance(c.args[0], ast.Name) and c.args[0].id == k2
                                  and ctx.resolve_call(f2, c) in checkers]
                        pre.append((f2, bool(checks) and not early, early))
                ok = any(p[1] for p in pre)
                rep.ob(rule, key, ok, fi.where(body[0]),
                       f"read by {[p[0].qualname for p in pre if p[1]]}, which checks every key of the type" if ok else
                       ("no pre-reader for this type: the pair is dropped" if not pre else
                        f"{pre[0][0].qualname} stops at the first key of the type it meets (line {pre[0][2][0].lineno if pre[0][2] else '?'}): a second key of that type, with key data, is dropped -- or refused, if the map yields it first"))
    # the deserializers named in the dispatch tables refuse key data too
    for modname in ("btclib.psbt.psbt_in", "btclib.psbt.psbt_out", "btclib.psbt.psbt"):
        mi = ctx.module(modname)
        for tname in ("_WHOLE_VALUE_FIELDS", "_V2_GLOBAL_PARSERS", "_SP_FIELDS"):
            tab = ctx.const(modname, tname) if tname in mi.assigns else UNKNOWN
            if tab is UNKNOWN or not isinstance(tab, dict):
                continue
            for t, row in tab.items():
                d = row[-1] if isinstance(row, (tuple, list)) else row
                if not isinstance(d, Ref):
                    continue
                e = ast.parse(d.text, mode="eval").body
                if isinstance(e, ast.Lambda):
                    # lambda k, v, what: f(k, v, what, 4): judged by the function its first parameter is handed to
                    k0 = e.args.args[0].arg if e.args.args else None
                    inner = [c for c in ast.walk(e.body) if isinstance(c, ast.Call) and c.args and isinstance(c.args[0], ast.Name) and c.args[0].id == k0]
                    q = ctx.prog.resolve_name(mi, inner[0].func) if inner else None
                else:
                    q = ctx.prog.resolve_name(mi, e)
                rep.ob(rule, f"{modname}.{tname}[{t!r}]", q in checkers, f"{mi.relpath}:1", f"{d.text} refuses a key longer than the type byte" if q in checkers else f"{d.text} does not check the key length")
    rep.floor(rule, 30)


def rule_own_fields(ctx: Ctx, rep: Report) -> None:
    """C05.own_fields: an object hands its own fields to the functions it delegates to (see sigcommon.rule_own_fields_forwarded)."""
    from rules.sigcommon import rule_own_fields_forwarded
    rule_own_fields_forwarded(ctx, rep, "C05.own_fields", ('btclib.tx', 'btclib.block.block_header', 'btclib.p2p', 'btclib.bip32.key_origin', 'btclib.key'), 10)


def rule_params_forwarded_(ctx: Ctx, rep: Report) -> None:
    """C05.params_forwarded: a parameter is handed on to callees that have a parameter of the same name (see sigcommon.rule_params_forwarded)."""
    from rules.sigcommon import rule_params_forwarded
    rule_params_forwarded(ctx, rep, "C05.params_forwarded", ('btclib.tx', 'btclib.block.block_header', 'btclib.p2p', 'btclib.var_', 'btclib.utils'), 40)


def rule_no_inplace_growth_(ctx: Ctx, rep: Report) -> None:
    """C05.no_inplace_growth: a local that starts as a parameter (or a field of one) is never grown with `+=` (see sigcommon.rule_no_inplace_growth)."""
    from rules.sigcommon import rule_no_inplace_growth
    rule_no_inplace_growth(ctx, rep, "C05.no_inplace_growth", ('btclib.tx', 'btclib.block', 'btclib.p2p', 'btclib.var_', 'btclib.psbt', 'btclib.bip32.key_origin', 'btclib.script.witness'), 1)


def rule_wire_refusals_unconditional(ctx: Ctx, rep: Report) -> None:
    """C05.wire_refusals_unconditional: `check_validity` says whether the *object*
    is validated (`assert_valid`), never whether the *encoding* is: a checksum
    that does not match, a trailing byte, a short read, a non-minimal prefix
    are refused by a parser whatever the flag says -- otherwise bytes are
    accepted that do not serialize back to themselves. So in a decoder no
    refusal is control-dependent on the flag."""
    rule = "C05.wire_refusals_unconditional"
    n = 0
    for q, fi in sorted(ctx.prog.functions.items()):
        if "check_validity" not in fi.params() or not (fi.name in ("parse", "from_dict", "b64decode", "b58decode") or fi.name.startswith("parse")):
            continue
        g = ctx.cfg(fi)
        bad = []
        refs = ctx.refusals(fi)
        for t, pol, nd in refs:
            facts = g.facts()[nd.id]
            if any("check_validity" in str(x) and p_ for x, p_ in facts) or "check_validity" in str(norm(t)):
                bad.append(t)
        n += 1
        rep.ob(rule, q, not bad, fi.where(bad[0] if bad else None), f"{len(refs)} refusals, none behind the flag" if not bad else
               f"the refusal `{norm(bad[0])[:70]}` is made only when check_validity is set: with the flag off the encoding error is accepted, and the object serializes to other bytes")
    rep.floor(rule, 40)


def rule_reversal_parity(ctx: Ctx, rep: Report) -> None:
    """C05.reversal_parity: hashes are kept in display order and written in wire
    order: every `[::-1]` a class's `serialize` applies is undone by one in its
    `parse` (11 classes, counts equal on the unchanged tree). A reversal on one
    side only gives back the hash byte-reversed: parse(serialize(x)) != x for
    every hash that is not a palindrome."""
    rule = "C05.reversal_parity"

    def revs(fi: FuncInfo) -> int:
        return sum(1 for n in own_nodes(fi.node) if isinstance(n, ast.Subscript) and isinstance(n.slice, ast.Slice) and n.slice.lower is None
                   and n.slice.upper is None and n.slice.step is not None and norm(n.slice.step) == "-1") + \
            sum(1 for n in own_nodes(fi.node) if isinstance(n, ast.Call) and call_name(n) == "reversed")
    n = 0
    for cq, ci in sorted(ctx.prog.classes.items()):
        if "serialize" not in ci.methods or "parse" not in ci.methods:
            continue
        a, b = revs(ci.methods["serialize"]), revs(ci.methods["parse"])
        if not a and not b:
            continue
        n += 1
        rep.ob(rule, cq, a == b, ci.methods["parse"].where(), f"{a} reversal(s) written, {b} read back" + ("" if a == b else ": a hash comes back byte-reversed (or a reversed one is taken as it is)"))
    rep.floor(rule, 8)


def _int_alias(ctx: Ctx, name: str) -> bool:
    """`name` is `int`, or an alias of btclib.alias defined as int / a Literal of integers."""
    if name == "int":
        return True
    al = ctx.module("btclib.alias")
    for st in al.tree.body:
        if isinstance(st, ast.Assign) and len(st.targets) == 1 and isinstance(st.targets[0], ast.Name) and st.targets[0].id == name:
            v = st.value
            if isinstance(v, ast.Name):
                return _int_alias(ctx, v.id)
            if isinstance(v, ast.Subscript) and isinstance(v.value, ast.Name) and v.value.id == "Literal":
                elts = v.slice.elts if isinstance(v.slice, ast.Tuple) else [v.slice]
                return all(isinstance(e, ast.Constant) and type(e.value) is int for e in elts)
    return False


def _optional_int(ctx: Ctx, ann: ast.AST) -> bool:
    """The annotation is `T | None` / `Optional[T]` with T an integer type or alias."""
    parts: list[ast.AST] = []
    if isinstance(ann, ast.BinOp) and isinstance(ann.op, ast.BitOr):
        parts = [ann.left, ann.right]
    elif isinstance(ann, ast.Subscript) and isinstance(ann.value, ast.Name) and ann.value.id == "Optional":
        parts = [ann.slice, ast.Constant(None)]
    if len(parts) != 2:
        return False
    nones = [p_ for p_ in parts if isinstance(p_, ast.Constant) and p_.value is None]
    rest = [p_ for p_ in parts if not (isinstance(p_, ast.Constant) and p_.value is None)]
    return len(nones) == 1 and len(rest) == 1 and isinstance(rest[0], ast.Name) and _int_alias(ctx, rest[0].id)


def rule_zero_is_present(ctx: Ctx, rep: Report) -> None:
    """C05.zero_is_present: PsbtIn.serialize leaves a field out when it is None --
    and, by truthiness, when it is empty -- except the fields listed in
    `_PRESENT_IF_NOT_NONE`. An optional *integer* field must be listed: 0 is a
    value (a sequence of 0 is BIP125's signal, an output index of 0 is the
    first output), and dropped by truthiness it does not survive a
    serialize/parse round trip."""
    rule = "C05.zero_is_present"
    mi = ctx.module("btclib.psbt.psbt_in")
    listed = ctx.const("btclib.psbt.psbt_in", "_PRESENT_IF_NOT_NONE")
    if not isinstance(listed, (set, frozenset)):
        rep.unknown(rule, "PsbtIn", "btclib/psbt/psbt_in.py:1", "_PRESENT_IF_NOT_NONE does not fold")
        return
    ci = mi.cls("PsbtIn")
    n = 0
    for st in ci.node.body:
        if isinstance(st, ast.AnnAssign) and isinstance(st.target, ast.Name):
            if _optional_int(ctx, st.annotation):
                n += 1
                f = st.target.id
                rep.ob(rule, f"PsbtIn.{f}", f in listed, f"{mi.relpath}:{st.lineno}", "written whenever it is not None" if f in listed else
                       f"an optional integer written only when truthy: {f} = 0 is dropped by serialize and reads back as None")
    # the serializer consults the set where it decides to skip
    ser = ci.methods["serialize"]
    rep.ob(rule, "PsbtIn.serialize:consults", "_PRESENT_IF_NOT_NONE" in str(norm(ser.node)), ser.where(), "serialize reads the set at its skip test")
    rep.floor(rule, 5)


ELEMENT_MIN_SIZE = {"TxIn": "MIN_TX_IN_SIZE", "TxOut": "MIN_TX_OUT_SIZE", "input": "MIN_TX_IN_SIZE", "output": "MIN_TX_OUT_SIZE"}


def rule_count_bound_kind(ctx: Ctx, rep: Report) -> None:
    """C05.count_bound_kind: the count a parser refuses above is the number of
    *those* elements a block has room for: MAX_BLOCK_WEIGHT // (4 * the
    element's minimum size), with the minimum size of the element that is then
    parsed count times. A list of outputs bounded by the inputs' count refuses
    a valid transaction of 24 391..111 111 outputs, which serialize writes."""
    rule = "C05.count_bound_kind"
    lim = "btclib.tx.limits"
    w, f4 = ctx.const("btclib.consensus", "MAX_BLOCK_WEIGHT"), ctx.const("btclib.consensus", "WITNESS_SCALE_FACTOR")
    if not (isinstance(w, int) and isinstance(f4, int)):
        raise AnalysisError("MAX_BLOCK_WEIGHT / WITNESS_SCALE_FACTOR do not fold")

    def expected(kind: str) -> int:
        m = ctx.const(lim, ELEMENT_MIN_SIZE[kind])
        if not isinstance(m, int):
            raise AnalysisError(f"{ELEMENT_MIN_SIZE[kind]} does not fold")
        return w // (m * f4)

    for q, fi in sorted(ctx.prog.functions.items()):
        if not q.startswith(("btclib.tx", "btclib.psbt", "btclib.block", "btclib.p2p")):
            continue
        # n = var_int.parse(stream, B) ... [T.parse(...) for _ in range(n)]
        counts = {}
        for a in own_nodes(fi.node):
            if isinstance(a, ast.Assign) and isinstance(a.targets[0], ast.Name) and isinstance(a.value, ast.Call) and norm(a.value.func) == "var_int.parse" and len(a.value.args) == 2:
                counts.setdefault(a.targets[0].id, []).append(a)
        for c in own_nodes(fi.node):
            if isinstance(c, ast.ListComp) and isinstance(c.elt, ast.Call) and isinstance(c.elt.func, ast.Attribute) and c.elt.func.attr == "parse" \
                    and isinstance(c.elt.func.value, ast.Name) and c.elt.func.value.id in ELEMENT_MIN_SIZE:
                it = c.generators[0].iter
                if not (isinstance(it, ast.Call) and norm(it.func) == "range" and len(it.args) == 1 and isinstance(it.args[0], ast.Name) and it.args[0].id in counts):
                    continue
                # the latest assignment of the count before the comprehension
                before = [a for a in counts[it.args[0].id] if a.lineno <= c.lineno]
                if not before:
                    continue
                a = max(before, key=lambda x: x.lineno)
                got = ctx.fold(a.value.args[1], fi.module)
                kind = c.elt.func.value.id
                rep.ob(rule, f"{q}:{kind}", got == expected(kind), fi.where(a),
                       f"{kind}.parse runs under a count bounded by {norm(a.value.args[1])} = {got}" + ("" if got == expected(kind) else f", where a block has room for {expected(kind)} of them: a valid object does not parse back"))
        for c in own_nodes(fi.node):
            if isinstance(c, ast.Call) and call_name(c) == "_assert_map_count" and len(c.args) == 3 and isinstance(c.args[2], ast.Constant) and c.args[2].value in ELEMENT_MIN_SIZE:
                got = ctx.fold(c.args[1], fi.module)
                kind = c.args[2].value
                rep.ob(rule, f"{q}:{kind}_maps", got == expected(kind), fi.where(c), f"the {kind} map count is bounded by {norm(c.args[1])} = {got}" + ("" if got == expected(kind) else f"; a transaction has room for {expected(kind)}"))
    rep.floor(rule, 6)


def rule_order_kept(ctx: Ctx, rep: Report) -> None:
    """C05.order_kept: the JSON helpers of the psbt maps sort *maps* -- a dict has
    no order of its own, and BIP174 wants the pairs sorted -- and nothing else:
    the value of a pair that is a sequence (the MuSig2 participants of an
    aggregate key, the leaves of a tree, the steps of a path) is written in the
    order it has, which is content. `sorted()` over anything but a map's
    `.items()` in an encode_/decode_ helper returns another object from
    from_dict(to_dict(x))."""
    rule = "C05.order_kept"
    n = 0
    for q, fi in sorted(ctx.prog.functions.items()):
        if not (q.startswith("btclib.psbt.psbt_utils.") and fi.name.lstrip("_").startswith(("encode_", "decode_", "serialize_", "deserialize_", "parse_"))):
            continue
        n += 1
        for c in own_nodes(fi.node):
            if isinstance(c, ast.Call) and isinstance(c.func, ast.Name) and c.func.id in ("sorted", "reversed") and c.args:
                a = c.args[0]
                ok = isinstance(a, ast.Call) and isinstance(a.func, ast.Attribute) and a.func.attr == "items" and c.func.id == "sorted"
                rep.ob(rule, f"{q}:{norm(a)[:40]}", ok, fi.where(c), "a map's pairs are sorted" if ok else
                       f"`{norm(c)[:70]}` reorders what is not a map: the order of a sequence is content, and does not survive the round trip")
        for c in own_nodes(fi.node):
            if isinstance(c, ast.Call) and isinstance(c.func, ast.Attribute) and c.func.attr in ("sort", "reverse"):
                rep.ob(rule, f"{q}:{norm(c)[:40]}", False, fi.where(c), f"`{norm(c)[:70]}` reorders a sequence in place")
    rep.ob(rule, "scanned", True, "btclib/psbt/psbt_utils.py:1", f"{n} helpers")
    rep.floor(rule, 8)


def rule_time_keeps_its_offset(ctx: Ctx, rep: Report) -> None:
    """C05.time_keeps_its_offset: the JSON form of a block header spells its time in
    ISO 8601, offset included, and reading it back is reading that instant:
    `datetime.fromisoformat(text)` and nothing that re-labels it.
    `.replace(tzinfo=...)` on what was just parsed keeps the wall-clock digits
    and swaps the zone -- "12:00+02:00" becomes 12:00 UTC, two hours off -- where
    `.astimezone(...)` converts. No `.replace(tzinfo=` is applied to a parsed
    time in the block / p2p / tx JSON readers."""
    rule = "C05.time_keeps_its_offset"
    n = 0
    for q, fi in sorted(ctx.prog.functions.items()):
        if not q.startswith(("btclib.block", "btclib.p2p", "btclib.tx", "btclib.psbt")):
            continue
        parses = [c for c in own_nodes(fi.node) if isinstance(c, ast.Call) and isinstance(c.func, ast.Attribute) and c.func.attr in ("fromisoformat", "strptime", "fromtimestamp")]
        if not parses:
            continue
        n += 1
        bad = [c for c in own_nodes(fi.node) if isinstance(c, ast.Call) and isinstance(c.func, ast.Attribute) and c.func.attr == "replace" and any(k.arg == "tzinfo" for k in c.keywords)
               and any(p_ in ast.walk(c.func.value) for p_ in parses if p_.func.attr != "fromtimestamp")]
        rep.ob(rule, q, not bad, fi.where(bad[0] if bad else parses[0]), "the parsed time is taken as the instant it spells" if not bad else
               f"`{norm(bad[0])[:70]}` re-labels the zone of a parsed time instead of converting it: a time written with another offset reads back as another instant")
    rep.floor(rule, 1)


def rule_value_parsed_whole(ctx: Ctx, rep: Report) -> None:
    """C05.value_parsed_whole: the value of a psbt key-value pair is one object and
    nothing after it: the deserializers hand the value's *bytes* to the class
    parser, which wraps them itself and refuses what follows the object
    (C05.whole_object). Handed a stream instead (`X.parse(BytesIO(v))`,
    `bytesio_from_binarydata(v)`), the parser reads one object and stops, the
    caller's stream being the caller's: a witness utxo followed by garbage is
    accepted and the garbage dropped on re-serialization."""
    rule = "C05.value_parsed_whole"
    n = 0
    for q, fi in sorted(ctx.prog.functions.items()):
        if not (q.startswith(("btclib.psbt.psbt_in.", "btclib.psbt.psbt_out.", "btclib.psbt.psbt_utils.", "btclib.psbt.psbt.")) and "deserialize" in fi.name):
            continue
        for c in own_nodes(fi.node):
            # a *class* parser (TxOut.parse, Tx.parse, Witness.parse): the module-level var_int / var_bytes readers
            # are the deserializers' own stream reading, followed by their own leftover check
            if isinstance(c, ast.Call) and isinstance(c.func, ast.Attribute) and c.func.attr == "parse" and c.args and isinstance(c.func.value, ast.Name) and c.func.value.id[:1].isupper():
                n += 1
                a = c.args[0]
                stream = isinstance(a, ast.Call) and call_name(a) in ("bytesio_from_binarydata", "BytesIO")
                if isinstance(a, ast.Name):
                    stream = any(isinstance(d, ast.Assign) and any(isinstance(t, ast.Name) and t.id == a.id for t in d.targets) and isinstance(d.value, ast.Call) and call_name(d.value) in ("bytesio_from_binarydata", "BytesIO") for d in own_nodes(fi.node))
                rep.ob(rule, f"{q}:{norm(c.func)}", not stream, fi.where(c), "the parser is handed the value's bytes" if not stream else
                       f"`{norm(c)[:70]}` hands the parser a stream: it reads one object and leaves the rest, so trailing bytes in the value are accepted and lost")
    rep.floor(rule, 2)


def rule_no_character_skipped(ctx: Ctx, rep: Report) -> None:
    """C05.no_character_skipped: a text form is read whole: where a reader takes
    `text[:a]` and `text[b:]` with b > a, the characters a .. b-1 it slices over
    are a separator, and are compared with it before the two parts are used --
    else "deadbeefX44h/0" reads as the key origin deadbeef/44h/0, a string the
    writer never writes, and the round trip of the text form is not one."""
    rule = "C05.no_character_skipped"
    n = 0
    for q, fi in sorted(ctx.prog.functions.items()):
        if not q.startswith(("btclib.bip32.key_origin.", "btclib.bip32.bip32.", "btclib.tx.", "btclib.psbt.psbt_utils.")):
            continue
        sl = [x for x in own_nodes(fi.node) if isinstance(x, ast.Subscript) and isinstance(x.slice, ast.Slice) and isinstance(x.value, ast.Name) and x.slice.step is None]
        heads = [(x.value.id, ctx.fold(x.slice.upper, fi.module)) for x in sl if x.slice.lower is None and x.slice.upper is not None]
        tails = [(x.value.id, ctx.fold(x.slice.lower, fi.module), x) for x in sl if x.slice.upper is None and x.slice.lower is not None]
        for name, b, node in tails:
            for name2, a in heads:
                if name2 != name or not isinstance(a, int) or not isinstance(b, int) or b <= a or a < 0:
                    continue
                # only text readers: the name is a str parameter / derived from one
                a_ = fi.node.args
                strp = {p_.arg for p_ in a_.posonlyargs + a_.args if p_.annotation is not None and str(norm(p_.annotation)) in ("str", "String")}
                if name not in strp:
                    continue
                n += 1
                gap = [x for x in own_nodes(fi.node) if isinstance(x, ast.Subscript) and isinstance(x.value, ast.Name) and x.value.id == name and x is not node
                       and ((isinstance(x.slice, ast.Slice) and ctx.fold(x.slice.lower, fi.module) == a) or ctx.fold(x.slice, fi.module) == a)]
                tested = any(isinstance(parent(x), ast.Compare) for x in gap)
                rep.ob(rule, f"{q}:{name}[{a}:{b}]", tested, fi.where(node), f"the character(s) {name}[{a}:{b}] are compared before the parts are used" if tested else
                       f"`{name}[:{a}]` and `{name}[{b}:]` are used and `{name}[{a}:{b}]` is never looked at: any character there is accepted as the separator")
    rep.floor(rule, 1)


def rule_map_lengths_are_compact_sizes(ctx: Ctx, rep: Report) -> None:
    """C05.map_lengths_are_compact_sizes: BIP174 writes <keylen> and <valuelen> as
    compact sizes and so do the library's writers (`var_bytes.serialize`):
    the reader of a map takes both lengths with `var_int.parse` (or the pair
    with `var_bytes.parse`). One octet read as the length is the same thing
    up to 252 and another map from 253 on -- a proprietary key with a long
    identifier, a MuSig2 key -- where parse(serialize(x)) is no longer x."""
    rule = "C05.map_lengths_are_compact_sizes"
    fi = ctx.func("btclib.psbt.psbt_utils.deserialize_map")
    local = {a.targets[0].id: a.value for a in own_nodes(fi.node) if isinstance(a, ast.Assign) and len(a.targets) == 1 and isinstance(a.targets[0], ast.Name)}
    n = 0
    for c in sorted((c for c in own_nodes(fi.node) if isinstance(c, ast.Call)), key=lambda c: (c.lineno, c.col_offset)):
        nm = call_name(c)
        if nm == "read_exactly" and len(c.args) >= 2:
            size = c.args[1]
            if isinstance(size, ast.Name) and size.id in local:
                size = local[size.id]
            ok = isinstance(size, ast.Call) and norm(size.func) in ("var_int.parse", "var_int_parse")
            n += 1
            rep.ob(rule, f"deserialize_map:read#{n}", ok, fi.where(c), "length read as a compact size" if ok else
                   f"`{norm(c)}` takes its length from `{norm(c.args[1])}`, not from a compact size: a key or value of 253 octets or more is read as another map than the one written")
        elif norm(c.func) == "var_bytes.parse":
            n += 1
            rep.ob(rule, f"deserialize_map:read#{n}", True, fi.where(c), "length and octets read by var_bytes.parse")
    rep.floor(rule, 2)


def rule_ctor_args_in_order_(ctx: Ctx, rep: Report) -> None:
    """C05.ctor_args_in_order: to_dict/from_dict is part of the round trip; no
    from_dict passes one field's entry in another field's position
    (sigcommon.ctor_args_in_order, whole package)."""
    from rules import sigcommon
    sigcommon.rule_ctor_args_in_order(ctx, rep, "C05.ctor_args_in_order", ("btclib.",), 40)


def rule_stream_param_untouched_(ctx: Ctx, rep: Report) -> None:
    """C05.stream_param_untouched: every parser of the package sees its BinaryData
    argument as the caller gave it, in both helpers that dispatch on its type
    (sigcommon.stream_param_untouched): trailing octets are refused for every
    spelling of octets."""
    from rules import sigcommon
    sigcommon.rule_stream_param_untouched(ctx, rep, "C05.stream_param_untouched", ("btclib.",), 30)


def rule_block_segwit_counts_every_tx(ctx: Ctx, rep: Report) -> None:
    """C05.block_segwit_counts_every_tx: a block is serialized with its witnesses when
    any transaction has one, the coinbase included -- its BIP141 nonce is a
    witness, and in a block of legacy spends it is the only one.
    `Block.is_segwit` walks `self.transactions` whole: skipping the coinbase
    makes the p2p payload of such a block come back 36 bytes shorter."""
    rule = "C05.block_segwit_counts_every_tx"
    fi = ctx.func("btclib.block.block.Block.is_segwit")
    gens = [g_ for n in own_nodes(fi.node) if isinstance(n, (ast.GeneratorExp, ast.ListComp)) for g_ in n.generators] + \
           [n for n in own_nodes(fi.node) if isinstance(n, ast.For)]
    if not gens:
        rep.unknown(rule, "Block.is_segwit", fi.where(), "no loop over the transactions")
        return
    for g_ in gens:
        it = g_.iter
        ok = norm(it) == "self.transactions"
        rep.ob(rule, f"Block.is_segwit:{norm(it)}", ok, fi.where(it), "every transaction is asked" if ok else f"`{norm(it)}` leaves transactions out: a block whose only witness is one of those is written stripped")
    rep.floor(rule, 1)


def rule_psbt_global_keys_written_once(ctx: Ctx, rep: Report) -> None:
    """C05.psbt_global_keys_written_once: a psbt map holds each key once and the reader
    refuses a duplicate: in `Psbt.serialize` no global key type is appended
    twice on one path -- two call sites with the same `PSBT_GLOBAL_*`
    constant lie in exclusive arms, or the psbt the library writes is one it
    cannot read."""
    rule = "C05.psbt_global_keys_written_once"
    fi = ctx.func("btclib.psbt.psbt.Psbt.serialize")
    g = ctx.cfg(fi)
    sites: dict[str, list[ast.Call]] = {}
    for c in own_nodes(fi.node):
        if isinstance(c, ast.Call) and c.args and isinstance(c.args[0], ast.Name) and c.args[0].id.startswith("PSBT_GLOBAL_"):
            sites.setdefault(c.args[0].id, []).append(c)
    for k, cs in sorted(sites.items()):
        bad = None
        for a in cs:
            for b in cs:
                if a is b:
                    continue
                na, nb = g.nodes_containing(a), g.nodes_containing(b)
                if na and nb and any(x in g.reachable(na[0]) for x in nb):
                    bad = (a, b)
        rep.ob(rule, f"Psbt.serialize:{k}", bad is None, fi.where(bad[1] if bad else cs[0]), "written once on every path" if bad is None else
               f"`{k}` is appended at line {bad[0].lineno} and again at line {bad[1].lineno} on one path: the map has a duplicated key, which Psbt.parse refuses")
    rep.floor(rule, 6)


RULES = [
    ("C05.block_segwit_counts_every_tx", rule_block_segwit_counts_every_tx),
    ("C05.psbt_global_keys_written_once", rule_psbt_global_keys_written_once),

    ("C05.stream_param_untouched", rule_stream_param_untouched_),

    ("C05.ctor_args_in_order", rule_ctor_args_in_order_),

    ("C05.map_lengths_are_compact_sizes", rule_map_lengths_are_compact_sizes),

    ("C05.no_character_skipped", rule_no_character_skipped),

    ("C05.value_parsed_whole", rule_value_parsed_whole),

    ("C05.time_keeps_its_offset", rule_time_keeps_its_offset),
    ("C05.order_kept", rule_order_kept),
    ("C05.count_bound_kind", rule_count_bound_kind),
    ("C05.zero_is_present", rule_zero_is_present),
    ("C05.reversal_parity", rule_reversal_parity),
    ("C05.wire_refusals_unconditional", rule_wire_refusals_unconditional),
    ("C05.no_inplace_growth", rule_no_inplace_growth_),
    ("C05.params_forwarded", rule_params_forwarded_),
    ("C05.own_fields", rule_own_fields),
    ("C05.psbt_whole_key", rule_psbt_whole_key),
    ("C05.witness_gate", rule_witness_gate),
    ("C05.layout", rule_layout),
    ("C05.compactsize", rule_compactsize),
    ("C05.whole_object", rule_whole_object),
    ("C05.short_read", rule_short_read),
    ("C05.superfluous", rule_superfluous),
    ("C05.dict_keys", rule_dict_keys),
    ("C05.codec_pairs", rule_codec_pairs),
    ("C05.psbt_tables", rule_psbt_tables),
    ("C05.sorted_maps", rule_sorted_maps),
    ("C05.count_bounds", rule_count_bounds),
]


def _flip_signed(qual: str, index: int = 0):
    def edit(ctx: Ctx):
        return M.sub_expr(ctx, qual, lambda n: isinstance(n, ast.keyword) and n.arg == "signed" and isinstance(n.value, ast.Constant),
                          lambda n: f"signed={not n.value.value}", index)
    return edit


CONTROLS = [
    {"rule": "C05.zero_is_present", "name": "a sequence of 0 counts as absent", "module": "btclib.psbt.psbt_in",
     "edit": lambda ctx: M.sub_module_expr(ctx, "btclib.psbt.psbt_in", lambda n: isinstance(n, ast.Constant) and n.value == "sequence" and isinstance(parent(n), ast.Set)
                                           and any(isinstance(e, ast.Constant) and e.value == "required_time_lock_time" for e in parent(n).elts)
                                           and not any(isinstance(e, ast.Constant) and e.value == "previous_tx_id" for e in parent(n).elts), "'sequence_'")},
    {"rule": "C05.reversal_parity", "name": "GetCFCheckpt.parse takes the stop hash as it is on the wire", "module": "btclib.p2p.block_filters",
     "edit": lambda ctx: M.sub_expr(ctx, "btclib.p2p.block_filters.GetCFCheckpt.parse", lambda n: isinstance(n, ast.Subscript) and isinstance(n.slice, ast.Slice) and n.slice.step is not None,
                                    lambda n: norm(n.value))},
    {"rule": "C05.wire_refusals_unconditional", "name": "the envelope checksum is compared only under check_validity", "module": "btclib.p2p.message",
     "edit": lambda ctx: M.sub_expr(ctx, "btclib.p2p.message.Message.parse", M.is_text("checksum != expected"), "check_validity and checksum != expected")},
    {"rule": "C05.no_inplace_growth", "name": "Message.serialize starts from its own magic (F21)", "module": "btclib.p2p.message",
     "edit": lambda ctx: M.sub_expr(ctx, "btclib.p2p.message.Message.serialize", M.is_text("out = bytes(self.magic)"), "out = self.magic")},
    {"rule": "C05.psbt_whole_key", "name": "the version pre-reader stops at the first key of its type (F11)", "module": "btclib.psbt.psbt",
     "edit": lambda ctx: M.sub_expr(ctx, "btclib.psbt.psbt._global_version", lambda n: isinstance(n, ast.Assign) and isinstance(n.value, ast.Call) and call_name(n.value) == "deserialize_sized_int",
                                    lambda n: "return " + norm(n.value))},
    {"rule": "C05.psbt_whole_key", "name": "the taproot tree is read without its key (F12)", "module": "btclib.psbt.psbt_out",
     "edit": lambda ctx: M.sub_expr(ctx, "btclib.psbt.psbt_out.PsbtOut.parse", lambda n: isinstance(n, ast.Call) and call_name(n) == "parse_taproot_tree",
                                    "parse_taproot_tree(v)")},
    {"rule": "C05.witness_gate", "name": "an all-empty witness stack is not a witness", "module": "btclib.tx.tx_in",
     "edit": lambda ctx: M.sub_expr(ctx, "btclib.tx.tx_in.TxIn.is_segwit", M.is_text("bool(self.script_witness.stack)"), "any(self.script_witness.stack)")},
    {"rule": "C05.count_bounds", "name": "Headers.parse refuses a full message", "module": "btclib.p2p.inventory",
     "edit": lambda ctx: M.sub_expr(ctx, "btclib.p2p.inventory.Headers.parse", M.is_text("count > MAX_HEADERS_RESULTS"), "count >= MAX_HEADERS_RESULTS")},
    {"rule": "C05.layout", "name": "TxOut.parse reads value unsigned", "module": "btclib.tx.tx_out",
     "edit": _flip_signed("btclib.tx.tx_out.TxOut.parse")},
    {"rule": "C05.layout", "name": "Version.serialize writes timestamp unsigned", "module": "btclib.p2p.handshake",
     "edit": _flip_signed("btclib.p2p.handshake.Version.serialize", 2)},
    {"rule": "C05.compactsize", "name": "parse accepts 0xFC in three bytes", "module": "btclib.var_int",
     "edit": lambda ctx: M.sub_expr(ctx, "btclib.var_int.parse", lambda n: isinstance(n, ast.Call) and call_name(n) == "_parse_number",
                                    "_parse_number(stream, 2, 0xFC)", 0)},
    {"rule": "C05.compactsize", "name": "_size threshold off by one", "module": "btclib.var_int",
     "edit": lambda ctx: M.sub_expr(ctx, "btclib.var_int._size", M.is_text("i <= 0xFFFF"), "i < 0xFFFF")},
    {"rule": "C05.whole_object", "name": "TxIn.parse drops assert_no_trailing", "module": "btclib.tx.tx_in",
     "edit": lambda ctx: M.drop_call_stmt(ctx, "btclib.tx.tx_in.TxIn.parse", "assert_no_trailing")},
    {"rule": "C05.short_read", "name": "var_int._parse_number loses its length check", "module": "btclib.var_int",
     "edit": lambda ctx: M.drop_if(ctx, "btclib.var_int._parse_number", lambda n: "len(data)" in norm(n.test))},
    {"rule": "C05.superfluous", "name": "Version.parse accepts relay octet 2", "module": "btclib.p2p.handshake",
     "edit": lambda ctx: M.drop_if(ctx, "btclib.p2p.handshake.Version.parse", lambda n: "octet[0] > 1" in norm(n.test))},
    {"rule": "C05.dict_keys", "name": "TxIn.from_dict reads a key to_dict does not write", "module": "btclib.tx.tx_in",
     "edit": lambda ctx: M.sub_expr(ctx, "btclib.tx.tx_in.TxIn.from_dict", M.is_text("dict_['sequence']"), "dict_['nSequence']")},
    {"rule": "C05.dict_keys", "name": "TxOut.from_dict forgets the network", "module": "btclib.tx.tx_out",
     "edit": lambda ctx: M.sub_expr(ctx, "btclib.tx.tx_out.TxOut.from_dict", lambda n: isinstance(n, ast.Call) and norm(n) == "dict_.get('network', 'mainnet')", "'mainnet'")},
    {"rule": "C05.codec_pairs", "name": "PsbtOut.from_dict decodes taproot paths with the plain decoder", "module": "btclib.psbt.psbt_out",
     "edit": lambda ctx: M.sub_expr(ctx, "btclib.psbt.psbt_out.PsbtOut.from_dict",
                                    lambda n: isinstance(n, ast.Name) and n.id == "taproot_bip32_from_dict", "decode_from_bip32_derivs")},
    {"rule": "C05.psbt_tables", "name": "PsbtIn parse table maps sequence type to output_index", "module": "btclib.psbt.psbt_in",
     "edit": lambda ctx: M.sub_module_expr(ctx, "btclib.psbt.psbt_in",
                                           lambda n: isinstance(n, ast.Tuple) and len(n.elts) == 3 and isinstance(n.elts[0], ast.Constant)
                                           and n.elts[0].value == "sequence" and isinstance(n.elts[1], ast.Constant),
                                           '("output_index", "sequence", _deserialize_uint32)')},
    {"rule": "C05.sorted_maps", "name": "serialize_dict_bytes_bytes iterates unsorted", "module": "btclib.psbt.psbt_utils",
     "edit": lambda ctx: M.sub_expr(ctx, "btclib.psbt.psbt_utils.serialize_dict_bytes_bytes",
                                    lambda n: isinstance(n, ast.Call) and call_name(n) == "sorted", lambda n: norm(n.args[0]))},
]
