"""C15 -- miniscript typing, compilation, read-back and satisfaction are consistent.

Coherence over all expressions is a value property: not decided. Decided: the
per-fragment tables and dispatch chains agree on the fragment universe --
every fragment reaches a table entry or an explicit arm in each of the five
analyses (type, script size, ops, stack, witness), the compiler and the
decoder; templates, overheads and arities agree; limits are the specs'.
"""

from __future__ import annotations

import ast
import copy

from sa import mutate as M
from sa.consts import UNKNOWN
from sa import pattern as PT
from sa import values as VX
from sa.ctx import Ctx
from sa.loader import AnalysisError, FuncInfo, call_name, norm, own_nodes, parent
from sa.ranges import has_bound, refusal_constraints
from sa.report import Report

NOTES = ("C15: decides that every fragment of the universe is covered by every per-fragment table / dispatch chain "
         "(finite-domain propagation through the dispatchers), template/overhead/arity agreement, verify-form and limit "
         "rows; size = predicted size, read-back and satisfaction validity over all expressions are not decided.")
MS = "btclib.descriptors.miniscript"


class _Subst(ast.NodeTransformer):
    def __init__(self, mapping: dict[str, ast.AST]):
        self.mapping = mapping

    def generic_visit(self, node):
        if isinstance(node, (ast.Name, ast.Attribute)) and isinstance(getattr(node, "ctx", None), ast.Load):
            t = norm(node)
            if t in self.mapping:
                m = self.mapping[t]
                return ast.copy_location(ast.Constant(value=m.value) if isinstance(m, ast.Constant) else m, node)
        return super().generic_visit(node)


def _walk(ctx: Ctx, fi: FuncInfo, mapping: dict[str, ast.AST], hits: list, depth: int, uncertain: bool = False, seen=None) -> None:
    """Follow the statements of fi reachable when the mapped expressions have
    the given constant values; record every subscript of a module table by a
    mapped expression, and descend into same-module callees handed `node`."""
    seen = seen if seen is not None else set()
    if fi.qualname in seen or depth < 0:
        return
    seen = seen | {fi.qualname}
    mi = fi.module
    sub = _Subst(mapping)

    def expr_accesses(e: ast.AST, unc: bool) -> None:
        for n in ast.walk(e):
            if isinstance(n, ast.Subscript) and isinstance(n.value, ast.Name) and n.value.id in mi.assigns:
                key_txt = norm(n.slice)
                if key_txt in mapping:
                    tab = ctx.const(mi.name, n.value.id)
                    key = ctx.fold(mapping[key_txt], mi)
                    hits.append((fi, n, n.value.id, key, tab, unc))
            if isinstance(n, ast.Call):
                tgt = ctx.resolve_call(fi, n)
                callee = ctx.prog.functions.get(tgt or "")
                if callee is not None and callee.module is mi and any(isinstance(a, ast.Name) and a.id == "node" for a in n.args) and "node" in callee.params()[:1]:
                    _walk(ctx, callee, mapping, hits, depth - 1, unc, seen)
                elif callee is not None and callee.module is mi and n.args and norm(n.args[0]) in mapping and callee.params():
                    # a callee taking the fragment itself
                    m2 = dict(mapping)
                    m2[callee.params()[0]] = mapping[norm(n.args[0])]
                    _walk(ctx, callee, m2, hits, depth - 1, unc, seen)

    def run(stmts: list[ast.stmt], unc: bool) -> bool:
        """True if control certainly leaves (return/raise) on this path."""
        for st in stmts:
            if isinstance(st, ast.If):
                t2 = sub.visit(ast.parse(norm(st.test), mode="eval").body)
                ast.fix_missing_locations(t2)
                v = ctx.fold(t2, mi)
                expr_accesses(st.test, unc)
                if v is UNKNOWN:
                    a = run(st.body, True)
                    b = run(st.orelse, True)
                    if a and b:
                        return True
                    continue
                if run(st.body if v else st.orelse, unc):
                    return True
                continue
            if isinstance(st, (ast.Return, ast.Raise)):
                if isinstance(st, ast.Return) and st.value is not None:
                    expr_accesses(st.value, unc)
                return True
            if isinstance(st, ast.Assign):
                # `fragment = node.fragment` style aliases
                if len(st.targets) == 1 and isinstance(st.targets[0], ast.Name) and norm(st.value) in mapping:
                    mapping[st.targets[0].id] = mapping[norm(st.value)]
                    sub.mapping = mapping
                # a comprehension over a mapped sequence is empty exactly when the sequence is
                v0 = st.value
                if len(st.targets) == 1 and isinstance(st.targets[0], ast.Name) and isinstance(v0, (ast.ListComp, ast.GeneratorExp)) \
                        and len(v0.generators) == 1 and not v0.generators[0].ifs and norm(v0.generators[0].iter) in mapping:
                    mapping[st.targets[0].id] = mapping[norm(v0.generators[0].iter)]
                    sub.mapping = mapping
                expr_accesses(st.value, unc)
                continue
            if isinstance(st, (ast.For, ast.While)):
                run(st.body, True)
                continue
            if isinstance(st, ast.Match):
                for c in st.cases:
                    run(c.body, True)
                continue
            for child in ast.iter_child_nodes(st):
                if isinstance(child, ast.expr):
                    expr_accesses(child, unc)
        return False

    run(fi.node.body, uncertain)


ANALYSES = ["_computed_properties", "_computed_script_size", "_computed_ops", "_computed_stack", "_computed_witness"]


def _universe(ctx: Ctx) -> dict[str, int]:
    ar = ctx.const(MS, "_ARITY")
    if not isinstance(ar, dict) or len(ar) < 20:
        raise AnalysisError("_ARITY does not fold")
    u = dict(ar)
    u["thresh"] = -1
    return u


def rule_universe(ctx: Ctx, rep: Report) -> None:
    """C15.universe: in each of the five analyses every fragment reaches only
    table entries that exist."""
    rule = "C15.universe"
    U = _universe(ctx)
    for an in ANALYSES:
        fi = ctx.func(f"{MS}.{an}")
        for frag, arity in sorted(U.items()):
            mapping = {"node.fragment": ast.Constant(value=frag), "fragment": ast.Constant(value=frag),
                       "node.subs": ast.Constant(value=() if arity == 0 else (1,))}
            hits: list = []
            _walk(ctx, fi, mapping, hits, 3)
            bad = [(f.name, t, k) for f, n, t, k, tab, unc in hits if isinstance(tab, dict) and k not in tab and not unc]
            maybe = [(f.name, t, k) for f, n, t, k, tab, unc in hits if isinstance(tab, dict) and k not in tab and unc]
            if maybe and not bad:
                rep.unknown(rule, f"{an}:{frag}", fi.where(), f"table miss under an unfolded condition: {maybe}")
            rep.ob(rule, f"{an}:{frag}", not bad, fi.where(),
                   f"reaches {sorted({t for _f, _n, t, _k, _tab, _u in hits})} with existing keys" if not bad else
                   f"fragment {frag!r} reaches {bad[0][1]}[{bad[0][2]!r}] in {bad[0][0]}, which has no such key: KeyError for every expression containing it")
    rep.floor(rule, 100)


def _abstract_return(ctx: Ctx, fi: FuncInfo, subst: dict[str, object]):
    """Value returned by a straight if/return function under a substitution of
    its inputs (texts -> constants); UNKNOWN when a test or the value does not fold."""
    def sub(e: ast.AST):
        t = str(norm(e))
        tree = ast.parse(t, mode="eval")

        class T(ast.NodeTransformer):
            def generic_visit(self, n):
                if isinstance(n, ast.expr):
                    k = ast.unparse(n)
                    if k in subst:
                        return ast.Constant(value=subst[k])
                return super().generic_visit(n)
        return ctx.folder.try_fold(T().visit(tree).body, fi.module)

    def run(body):
        for st in body:
            if isinstance(st, ast.Expr) and isinstance(st.value, ast.Constant):
                continue  # docstring
            if isinstance(st, ast.Return):
                return sub(st.value) if st.value is not None else None
            if isinstance(st, ast.If):
                v = sub(st.test)
                if v is UNKNOWN:
                    return UNKNOWN
                r = run(st.body if v else st.orelse)
                if r is not _FALL:
                    return r
                continue
            return UNKNOWN
        return _FALL
    r = run(fi.node.body)
    return UNKNOWN if r is _FALL else r


_FALL = object()


def rule_verify_state(ctx: Ctx, rep: Report) -> None:
    """C15.verify_state: which subexpression is compiled in its VERIFY form.
    The reference translation (BIP379, sipa's MakeScript) hands the verify
    state down in exactly three places: the argument of `v:` is verified; the
    argument of `s:` and the *last* argument of `and_v` inherit their parent's
    state (their script ends where the parent's does); every other child is
    not verified. Decided by folding `_verify_state` for every fragment of the
    universe x child index 0..2 x parent state (a finite case split): a child
    that should inherit and does not is compiled without its VERIFY, and the
    script no longer means the expression."""
    rule = "C15.verify_state"
    fi = ctx.func(f"{MS}._verify_state")
    ps = fi.params()
    if len(ps) != 3:
        rep.unknown(rule, "_verify_state", fi.where(), f"parameters {ps}: not (verify, node, index)")
        return
    vp, np_, ip = ps
    U = _universe(ctx)
    for frag in sorted(U):
        for index in (0, 1, 2):
            for verify in (False, True):
                want = True if frag == "v:" else verify if (frag == "s:" or (frag == "and_v" and index == 1)) else False
                got = _abstract_return(ctx, fi, {f"{np_}.fragment": frag, ip: index, vp: verify})
                key = f"{frag}[{index}]<-{verify}"
                if got is UNKNOWN:
                    rep.unknown(rule, key, fi.where(), "does not fold")
                    continue
                rep.ob(rule, key, bool(got) == want, fi.where(),
                       f"child {index} of {frag} under verify={verify}: {bool(got)}" if bool(got) == want else
                       f"child {index} of `{frag}` under a verified parent={verify} is compiled with verify={bool(got)}; the translation table says {want}: "
                       + ("its last op code keeps the plain form and no OP_VERIFY follows, so the V expression leaves a value on the stack" if want and not got else
                          "its last op code is written in the VERIFY form where nothing asked for it"))
    rep.floor(rule, 100)


def rule_ops_multi(ctx: Ctx, rep: Report) -> None:
    """C15.ops_multi: an executed CHECKMULTISIG is charged its n public keys
    (BIP141 / Core `nOpCount += nKeysCount`; `engine.script_op_count` does the
    same), so the executed-ops bound of `multi()` is the number of keys -- not
    the threshold, which is what the neighbouring stack and witness rows use."""
    from sa.canon import expand
    rule = "C15.ops_multi"
    fi = ctx.func(f"{MS}._leaf_ops")
    arm = None
    for n in own_nodes(fi.node):
        if isinstance(n, ast.If) and PT.match(PT.compile_("$f == 'multi'"), n.test, {}):
            arm = n
    if arm is None:
        rep.unknown(rule, "_leaf_ops", fi.where(), "no `fragment == 'multi'` arm in the shape this rule reads")
        return
    rets = [r for st in arm.body for r in ast.walk(st) if isinstance(r, ast.Return) and isinstance(r.value, ast.Tuple) and len(r.value.elts) == 2]
    if not rets or not (isinstance(rets[0].value.elts[1], ast.Call) and len(rets[0].value.elts[1].args) == 2):
        rep.unknown(rule, "_leaf_ops:multi", fi.where(arm), "the arm does not return (ops, _Bounds(sat, dsat))")
        return
    a, b = (str(expand(fi, x)).replace(" ", "") for x in rets[0].value.elts[1].args)
    okk = a == b == "len(node.keys)"
    rep.ob(rule, "multi:executed_ops=keys", okk, fi.where(rets[0]), "both bounds are the number of keys" if okk else
           f"the executed-ops bounds of multi() are ({a}, {b}): the engine charges the n keys of the CHECKMULTISIG, so max_ops is short by n - k and a script the analysis calls within limits is refused with more than 201 op codes")
    st = ctx.fold(rets[0].value.elts[0], fi.module)
    rep.ob(rule, "multi:static_ops=1", st == 1, fi.where(rets[0]), "one op code (the CHECKMULTISIG)")


def rule_locktime_class(ctx: Ctx, rep: Report) -> None:
    """C15.locktime_class: "same kind of lock time" classifies both values with
    one predicate -- `(a >= T) != (b >= T)`; two different comparators put the
    threshold itself (500000000, a time) in different classes on the two sides."""
    rule = "C15.locktime_class"
    n = 0
    for modname in (MS, "btclib.script.engine.script_op_codes", "btclib.psbt.psbt", "btclib.psbt.psbt_in"):
        mi = ctx.prog.modules.get(modname)
        if mi is None:
            continue
        for fi in sorted(mi.functions.values(), key=lambda f: f.qualname):
            for c in own_nodes(fi.node):
                if not (isinstance(c, ast.Compare) and len(c.ops) == 1 and isinstance(c.ops[0], (ast.Eq, ast.NotEq, ast.Is, ast.IsNot))):
                    continue
                l, r = c.left, c.comparators[0]
                if not (isinstance(l, ast.Compare) and isinstance(r, ast.Compare) and len(l.ops) == 1 and len(r.ops) == 1):
                    continue
                tl, tr = ctx.fold(l.comparators[0], mi), ctx.fold(r.comparators[0], mi)
                if tl is UNKNOWN or tl != tr:
                    continue
                n += 1
                same = type(l.ops[0]) is type(r.ops[0])
                rep.ob(rule, f"{fi.qualname}:{norm(c)[:70]}", same, fi.where(c), "both sides are classified with the same comparator" if same else
                       f"`{norm(l)}` and `{norm(r)}` classify with different comparators: the value {tl} itself falls in different classes on the two sides")
    rep.floor(rule, 1)


WRAPPER_NEEDS = {"a:": ("B", "W"), "s:": ("Bo", "W"), "c:": ("K", "B"), "d:": ("Vz", "B"), "v:": ("B", "V"), "j:": ("Bn", "B")}  # miniscript spec: wrapper -> (required of X, basic type given)


def rule_wrapper_types(ctx: Ctx, rep: Report) -> None:
    """C15.wrapper_types: the type table's wrapper rows: `a:` needs B and gives W,
    `s:` needs Bo (W), `c:` needs K (B), `d:` needs Vz (B), `v:` needs B (V),
    `j:` needs Bn (B). A row that asks less admits expressions whose script
    does not behave as the type promises (`j:` over a B that may be satisfied
    by a zero-length input skips X when it must not)."""
    rule = "C15.wrapper_types"
    fi = ctx.func(f"{MS}._wrapper_properties")
    arms = {}
    for n in own_nodes(fi.node):
        if isinstance(n, ast.If):
            b: dict[str, str] = {}
            if PT.match(PT.compile_("$f == $$w"), n.test, b):
                w = ctx.fold(ast.parse(b["$$w"], mode="eval").body, fi.module)
                if isinstance(w, str):
                    arms[w] = n.body
    for w, (need, gives) in sorted(WRAPPER_NEEDS.items()):
        body = arms.get(w)
        if body is None:
            rep.unknown(rule, w, fi.where(), "no arm for this wrapper in the shape this rule reads")
            continue
        found = None
        for x in (y for st in body for y in ast.walk(st)):
            b2: dict[str, str] = {}
            if isinstance(x, ast.Call) and PT.match(PT.compile_("_if(_has($x, $$need), _t($$gives))"), x, b2):
                g = ctx.fold(ast.parse(b2["$$gives"], mode="eval").body, fi.module)
                nd = ctx.fold(ast.parse(b2["$$need"], mode="eval").body, fi.module)
                if g == gives:
                    found = nd
        rep.ob(rule, w, found is not None and set(found) == set(need), fi.where(body[0]), f"needs {need}, gives {gives}" if found is not None and set(found) == set(need) else
               f"`{w}` gives {gives} to an argument with {found!r}; the specification requires {need!r}")
    rep.floor(rule, 6)


def rule_sugar_prefix(ctx: Ctx, rep: Report) -> None:
    """C15.sugar_prefix: a sugared spelling written behind a wrapper needs the
    colon the wrapper is read with: every spelling `_sugared_text` writes that
    is itself a *name* (pk, pkh, and_n) starts with the prefix it is handed;
    the one-letter sugars (t l u) are wrappers themselves and take none."""
    rule = "C15.sugar_prefix"
    fi = ctx.func(f"{MS}._sugared_text")
    pfx = fi.params()[-1]
    n = 0
    for r in own_nodes(fi.node):
        if isinstance(r, ast.Return) and isinstance(r.value, ast.JoinedStr):
            n += 1
            first = r.value.values[0] if r.value.values else None
            ok = isinstance(first, ast.FormattedValue) and isinstance(first.value, ast.Name) and first.value.id == pfx
            rep.ob(rule, str(norm(r.value))[:50], ok, fi.where(r), "starts with the prefix" if ok else
                   f"`{norm(r.value)[:60]}` is written without the prefix: behind a wrapper it prints as e.g. `aand_n(...)`, which does not parse back")
    rep.floor(rule, 2)


def rule_leaf_sizes(ctx: Ctx, rep: Report) -> None:
    """C15.leaf_sizes: the predicted size of `multi(k, keys)`: the CHECKMULTISIG
    byte, the push of n, the push of k, and 34 bytes a key."""
    rule = "C15.leaf_sizes"
    fi = ctx.func(f"{MS}._leaf_script_size")
    from sa.canon import expand
    arm = None
    for n in own_nodes(fi.node):
        if isinstance(n, ast.If) and PT.match(PT.compile_("$f == 'multi'"), n.test, {}):
            arm = n
    if arm is None:
        rep.unknown(rule, "multi", fi.where(), "no arm for multi")
        return
    a = [x for st in arm.body for x in ast.walk(st) if isinstance(x, ast.Assign)]
    text = str(expand(fi, a[0].value)).replace(" ", "") if a else ""
    terms = sorted(text.split("+"))
    want = sorted(["1", "_pushed_size(len(node.keys))", "_pushed_size(node.threshold)", "34*len(node.keys)"])
    rep.ob(rule, "multi", terms == want, fi.where(arm), "1 + push(n) + push(k) + 34 n" if terms == want else f"multi() is sized as {text}: not 1 + push(n) + push(k) + 34*n")


def rule_tables(ctx: Ctx, rep: Report) -> None:
    """C15.tables: templates, overheads, arities and leaf tables agree."""
    rule = "C15.tables"
    U = _universe(ctx)
    tmpl = ctx.const(MS, "_SCRIPT_TEMPLATES")
    over = ctx.const(MS, "_OVERHEAD")
    if not isinstance(tmpl, dict) or not isinstance(over, dict):
        raise AnalysisError("_SCRIPT_TEMPLATES / _OVERHEAD do not fold")
    where = "btclib/descriptors/miniscript.py:1"
    for f, t in sorted(tmpl.items()):
        ops = [x for x in t if isinstance(x, str)]
        slots = [x for x in t if isinstance(x, int)]
        rep.ob(rule, f"template:{f}:overhead", over.get(f) == len(ops), where, f"{len(ops)} opcodes in the template, _OVERHEAD = {over.get(f)}")
        rep.ob(rule, f"template:{f}:arity", sorted(slots) == list(range(U.get(f, -9))), where, f"slots {sorted(slots)}, arity {U.get(f)}")
    # every non-leaf fragment except the special ones has a template and an overhead
    nonleaf = {f for f, a in U.items() if a > 0}
    special = {"v:", "c:"}  # v: rewrites the last opcode; c: appends OP_CHECKSIG (own arms)
    miss_t = nonleaf - set(tmpl) - special
    rep.ob(rule, "templates_cover_nonleaf", not miss_t, where, f"non-leaf fragments without a template: {sorted(miss_t)}")
    miss_o = nonleaf - set(over) - {"v:"}
    rep.ob(rule, "overhead_covers_nonleaf", not miss_o, where, f"non-leaf fragments without an overhead: {sorted(miss_o)}")
    leaves = {f for f, a in U.items() if a == 0}
    for tab, dyn in (("_LEAF_PROPERTIES", {"older", "after"}), ("_LEAF_OPS", {"multi", "multi_a"}), ("_LEAF_STACK", {"multi", "multi_a"})):
        t = ctx.const(MS, tab)
        if not isinstance(t, dict):
            rep.unknown(rule, tab, where, "does not fold")
            continue
        rep.ob(rule, f"{tab}:covers_leaves", leaves - dyn <= set(t), where, f"leaves without an entry: {sorted(leaves - dyn - set(t))}")
        rep.ob(rule, f"{tab}:only_leaves", set(t) <= leaves, where, f"entries that are not leaves: {sorted(set(t) - leaves)}")
    hoc, ds = ctx.const(MS, "_HASH_OP_CODES"), ctx.const(MS, "_DATA_SIZE")
    rep.ob(rule, "hash_tables", isinstance(hoc, dict) and isinstance(ds, dict) and set(hoc) == set(ds) and ds == {"sha256": 32, "hash256": 32, "ripemd160": 20, "hash160": 20}, where, "hash fragments and digest sizes")
    w, b = ctx.const(MS, "_WRAPPERS"), ctx.const(MS, "_BINARY")
    rep.ob(rule, "arity_classes", {f for f, a in U.items() if a == 1} == set(w) and {f for f, a in U.items() if a == 2} == set(b) and U.get("andor") == 3, where, "wrappers have arity 1, binaries 2, andor 3")
    # the names the parser accepts cover the universe
    lv = ctx.const(MS, "_LEAVES")
    cb = ctx.const(MS, "_COMBINATORS")
    if isinstance(lv, tuple) and isinstance(cb, tuple):
        sugar = {"pk", "pkh", "and_n"}
        named = (set(lv) | set(cb) | {"0", "1", "thresh"}) - sugar
        rep.ob(rule, "parser_names_cover", {f for f in U if not f.endswith(":")} <= named | {"0", "1"}, where, f"fragments the parser has no name for: {sorted({f for f in U if not f.endswith(':')} - named)}")
    # v: overhead uses the same predicate in size and ops
    sz = PT.text(ctx.func(f"{MS}._computed_script_size"))
    op = PT.text(ctx.func(f"{MS}._wrapper_ops"))
    rep.ob(rule, "v:same_predicate", VX.of(ctx.func(f"{MS}._computed_script_size")).anywhere("_has(node.subs[0].properties, 'x')") and VX.of(ctx.func(f"{MS}._wrapper_ops")).anywhere("_has($$sub.properties, 'x')"), where, "v: costs one opcode exactly when its child has property x, in size and in ops")
    # leaf sizes against their literal templates
    ls = PT.text(ctx.func(f"{MS}._leaf_script_size"))
    vx = VX.of(ctx.func(f"{MS}._leaf_script_size"))
    rep.ob(rule, "leaf_sizes", vx.returns("33 if node.context == TAPSCRIPT else 34") and vx.returns("24 if $$f == 'pk_h' else $$rest")
           and (vx.returns("6 + (33 if _DATA_SIZE[$$f] == 32 else 21)") or vx.returns("39 if _DATA_SIZE[$$f] == 32 else 27")), where, "pk_k 33/34, pk_h 3+21, hashes 4+2+(33|21)")


def rule_limits(ctx: Ctx, rep: Report) -> None:
    """C15.limits: thresholds and resource limits."""
    rule = "C15.limits"
    where = "btclib/descriptors/miniscript.py:1"
    rep.ob(rule, "constants", ctx.const(MS, "_MAX_PUBKEYS_PER_MULTI_A") == 999 and ctx.const(MS, "_LOCKTIME_THRESHOLD") == 500000000 and ctx.const(MS, "_SEQUENCE_LOCKTIME_TYPE_FLAG") == 1 << 22
           and ctx.const(MS, "_MAX_TIMELOCK") == 0x80000000 and ctx.const(MS, "_MAX_STANDARD_TX_WEIGHT") == 400000, where, "999 / 500000000 / 1<<22 / 2^31 / 400000")
    an = ctx.func(f"{MS}.Miniscript._assert_number")
    cs = refusal_constraints(ctx, an)
    txt = PT.text(an)
    rep.ob(rule, "timelock_range", ("_MAX_TIMELOCK" in txt) and any(c.op in ("<", "<=", ">=", ">") for c in cs), an.where(), "after/older in [1, 2^31)")
    rep.ob(rule, "thresh_range", "threshold" in txt and ("len(self.subs)" in txt or "len(self.keys)" in txt), an.where(), "1 <= k <= n")
    ak = ctx.func(f"{MS}.Miniscript._assert_keys")
    rep.ob(rule, "multi_key_counts", "20" in norm(ak.node) or "MAX_PUBKEYS_PER_MULTISIG" in norm(ak.node) or "_MAX_PUBKEYS_PER_MULTI_A" in norm(ak.node), ak.where(), "multi <= 20 keys, multi_a <= 999")
    rl = ctx.func(f"{MS}.Miniscript.is_within_resource_limits")
    t = PT.text(rl)
    rep.ob(rule, "resource_limits", all(w in t for w in ("max_ops", "max_stack_items")) and ("201" in t or "MAX_OPS_PER_SCRIPT" in t) and ("1000" in t or "MAX_STACK_SIZE" in t), rl.where(), "ops <= 201 (p2wsh), stack <= 1000")
    ms = ctx.func(f"{MS}._max_script_size")
    t = PT.text(ms)
    rep.ob(rule, "max_script_size", "3600" in t or "MAX_STANDARD_P2WSH_SCRIPT_SIZE" in t, ms.where(), "p2wsh scripts <= 3600 bytes")
    ac = ctx.func(f"{MS}._assert_valid_context")
    rep.ob(rule, "contexts", "P2WSH" in norm(ac.node) and "TAPSCRIPT" in norm(ac.node), ac.where(), "context is p2wsh or tapscript")


def rule_own_fields(ctx: Ctx, rep: Report) -> None:
    """C15.own_fields: an object hands its own fields to the functions it delegates to (see sigcommon.rule_own_fields_forwarded)."""
    from rules.sigcommon import rule_own_fields_forwarded
    rule_own_fields_forwarded(ctx, rep, "C15.own_fields", ('btclib.descriptors.miniscript',), 6)


def rule_params_forwarded_(ctx: Ctx, rep: Report) -> None:
    """C15.params_forwarded: a parameter is handed on to callees that have a parameter of the same name (see sigcommon.rule_params_forwarded)."""
    from rules.sigcommon import rule_params_forwarded
    rule_params_forwarded(ctx, rep, "C15.params_forwarded", ('btclib.descriptors.miniscript',), 60)


def rule_stack_order(ctx: Ctx, rep: Report) -> None:
    """C15.stack_order: a miniscript's arguments are written left to right and
    consume the stack from the top, so in a witness what satisfies a *later*
    argument lies under -- is pushed before -- what satisfies an earlier one.
    `_both(first, second)` concatenates in push order: wherever the satisfier
    joins the stacks of two arguments of a fragment, the later argument's comes
    first. Every such join on the unchanged tree agrees (an inferred rule, read
    and confirmed); the other way round a witness is built that the script
    reads with its halves swapped -- valid only when the two halves are equal."""
    rule = "C15.stack_order"
    n = 0
    for q, fi in sorted(ctx.prog.functions.items()):
        if not (q.startswith(MS + "._") and fi.name.endswith("_input")):
            continue
        a = fi.node.args
        order = {p_.arg: i for i, p_ in enumerate(a.posonlyargs + a.args) if p_.annotation is not None and "_Inputs" in str(norm(p_.annotation))}
        if len(order) < 2:
            continue
        for c in own_nodes(fi.node):
            if not (isinstance(c, ast.Call) and call_name(c) == "_both" and len(c.args) == 2):
                continue
            roots = []
            for x in c.args:
                roots.append(x.value.id if isinstance(x, ast.Attribute) and isinstance(x.value, ast.Name) and x.value.id in order else None)
            if None in roots or roots[0] == roots[1]:
                continue
            n += 1
            ok = order[roots[0]] > order[roots[1]]
            rep.ob(rule, f"{fi.name}:{norm(c)}", ok, fi.where(c), f"`{roots[0]}` (the later argument) is pushed first" if ok else
                   f"`{norm(c)}` pushes the earlier argument `{roots[0]}` first: the script pops them the other way round, so the witness is read with its halves swapped")
    rep.floor(rule, 15)


def _alts(e: ast.AST, order: dict[str, int], join: str, pick: str) -> set[frozenset] | None:
    """The alternatives of a bound / stack expression as sets of (argument position, sat|dsat);
    non-canonical alternatives (`replace(..., non_canonical=True)`) are not alternatives."""
    if isinstance(e, ast.Constant) and e.value is None:
        return set()
    if isinstance(e, ast.Call) and call_name(e) == "replace":
        if any(k.arg == "non_canonical" and isinstance(k.value, ast.Constant) and k.value.value is True for k in e.keywords):
            return set()
        return _alts(e.args[0], order, join, pick)
    if isinstance(e, ast.Call) and call_name(e) == pick and len(e.args) == 2:
        a, b = _alts(e.args[0], order, join, pick), _alts(e.args[1], order, join, pick)
        return None if a is None or b is None else a | b
    if isinstance(e, ast.Call) and call_name(e) == join and len(e.args) == 2:
        a, b = _alts(e.args[0], order, join, pick), _alts(e.args[1], order, join, pick)
        if a is None or b is None or len(a) != 1 or len(b) != 1:
            return None
        return {next(iter(a)) | next(iter(b))}
    if isinstance(e, ast.Attribute) and isinstance(e.value, ast.Name) and e.value.id in order and e.attr in ("sat", "dsat"):
        return {frozenset({(order[e.value.id], e.attr)})}
    if isinstance(e, ast.Constant) and isinstance(e.value, int):
        return {frozenset()}
    return None


def rule_andor_tables_agree(ctx: Ctx, rep: Report) -> None:
    """C15.andor_tables_agree: the predicted witness bound of andor(X,Y,Z) and the
    witness the satisfier builds for it are two tables over the same cases: to
    satisfy, X and Y, or else not-X and Z; to dissatisfy, not-X and not-Z. The
    alternatives of each are read off `_binary_witness` (its last arm) and off
    `_andor_input` as sets of (argument, sat|dsat), non-canonical alternatives
    left out of both, and must be the same sets -- a bound summed over Y's
    dissatisfaction where the satisfier uses Z's under-estimates the witness."""
    rule = "C15.andor_tables_agree"
    bw, ai = ctx.func(f"{MS}._binary_witness"), ctx.func(f"{MS}._andor_input")
    # _andor_input(x, y, z, choose)
    a = ai.node.args
    order_i = {p_.arg: i for i, p_ in enumerate(a.posonlyargs + a.args) if p_.annotation is not None and "_Inputs" in str(norm(p_.annotation))}
    pick_i = [p_.arg for p_ in a.posonlyargs + a.args if p_.arg not in order_i][-1]
    ret = [r for r in own_nodes(ai.node) if isinstance(r, ast.Return) and isinstance(r.value, ast.Call) and call_name(r.value) == "_Inputs" and len(r.value.args) == 2]
    # the last arm of _binary_witness: x, y from node.subs[:2], z = node.subs[2]
    arm = None
    for i in own_nodes(bw.node):
        if isinstance(i, ast.If) and i.orelse and not isinstance(i.orelse[0], ast.If):
            arm = i.orelse
    if len(ret) != 1 or arm is None:
        rep.unknown(rule, "shape", bw.where(), "the two tables were not found")
        return
    order_w: dict[str, int] = {}
    for st in own_nodes(bw.node):
        if isinstance(st, ast.Assign) and isinstance(st.targets[0], ast.Tuple) and "subs[:2]" in str(norm(st.value)).replace(" ", ""):
            for k, t in enumerate(st.targets[0].elts):
                order_w[t.id] = k
    for st in arm:
        if isinstance(st, ast.Assign) and isinstance(st.targets[0], ast.Name) and "subs[2]" in str(norm(st.value)).replace(" ", ""):
            order_w[st.targets[0].id] = 2
    bounds = [c for st in arm for c in ast.walk(st) if isinstance(c, ast.Call) and call_name(c) == "_Bounds" and len(c.args) == 2]
    if len(bounds) != 1 or len(order_w) != 3:
        rep.unknown(rule, "shape", bw.where(), f"andor arm: {len(bounds)} bounds over {order_w}")
        return
    for k, what in ((0, "satisfaction"), (1, "dissatisfaction")):
        w = _alts(bounds[0].args[k], order_w, "_add", "_worst")
        i_ = _alts(ret[0].value.args[k], order_i, "_both", pick_i)
        if w is None or i_ is None:
            rep.unknown(rule, f"andor:{what}", bw.where(bounds[0]), "an alternative could not be read")
            continue
        show = lambda ss: sorted(sorted(f"{'XYZ'[p_]}.{f}" for p_, f in alt) for alt in ss)  # noqa: E731
        rep.ob(rule, f"andor:{what}", w == i_, bw.where(bounds[0]), f"both tables: {show(w)}" if w == i_ else
               f"the bound is over {show(w)}, the satisfier builds {show(i_)}: the predicted witness size is not the size of the witness")
    rep.floor(rule, 2)


def rule_wrapper_siblings(ctx: Ctx, rep: Report) -> None:
    """C15.wrapper_siblings: a W expression is `a:X` or `s:X`, and what may stand
    behind either wrapper in a script is the same: one expression, with the
    and_v() that may precede it (`t:` and `v:` chains end in one). The two arms
    of the decoder's `_wrapped` expect the same things and differ in the
    wrapper they name -- an `s:` arm expecting a single expression cannot read
    back `s:and_v(...)`, which the writer writes and the type system admits."""
    rule = "C15.wrapper_siblings"
    fi = ctx.func(f"{MS}._Decoder._wrapped")
    ex = [c for c in own_nodes(fi.node) if isinstance(c, ast.Call) and call_name(c) == "_expect" and c.args]
    if len(ex) < 2:
        rep.unknown(rule, "_wrapped", fi.where(), f"{len(ex)} expectations")
        return
    shapes = {tuple(str(norm(a)) for a in c.args[:-1]) for c in ex}
    labels = [c.args[-1].value for c in ex if isinstance(c.args[-1], ast.Constant)]
    rep.ob(rule, "_wrapped:same_expectation", len(shapes) == 1, fi.where(ex[-1]), f"both wrappers expect {sorted(shapes)[0]}" if len(shapes) == 1 else
           f"the wrappers {labels} expect different things: {sorted(shapes)} -- one of them cannot read back what the other can")
    rep.ob(rule, "_wrapped:labels", sorted(labels) == ["a:", "s:"], fi.where(), f"wrappers {labels}")
    rep.floor(rule, 2)


class _SubstFragment(ast.NodeTransformer):
    """Replace `<x>.fragment` (and a local bound to it) by a constant."""

    def __init__(self, frag: str, locals_: set[str]):
        self.frag, self.locals_ = frag, locals_

    def visit_Attribute(self, n: ast.Attribute):
        if n.attr == "fragment":
            return ast.Constant(self.frag)
        return self.generic_visit(n)

    def visit_Name(self, n: ast.Name):
        return ast.Constant(self.frag) if n.id in self.locals_ else n


def _arm_for(fi: FuncInfo, e: ast.AST, frag: str) -> ast.AST:
    """The arm of a conditional expression that a fragment selects (the expression itself when it is not conditional)."""
    from rules.C08 import _eval_bool
    import copy
    loc = {a.targets[0].id for a in own_nodes(fi.node) if isinstance(a, ast.Assign) and isinstance(a.targets[0], ast.Name) and isinstance(a.value, ast.Attribute) and a.value.attr == "fragment"}
    while isinstance(e, ast.IfExp):
        t = _SubstFragment(frag, loc).visit(ast.parse(ast.unparse(e.test), mode="eval").body)
        e = e.body if _eval_bool(t, {}) else e.orelse
    return e


def rule_wrapper_dissatisfaction(ctx: Ctx, rep: Report) -> None:
    """C15.wrapper_dissatisfaction: `d:X` and `j:X` are dissatisfied by the element
    their OP_IF reads -- nothing of X runs -- while `a: s: c: n:` are
    dissatisfied by dissatisfying X. The executed-ops table says so: the
    dissatisfaction cost `_wrapper_ops` answers is a constant for d: and j:
    and X's own for the four others (the conditional is evaluated for each
    wrapper). With j: on the wrong side, `j:` over an argument that cannot be
    dissatisfied has no dissatisfaction cost at all, the branch behind it drops
    out of max_ops, and an expression over the 201-op limit is called sane."""
    rule = "C15.wrapper_dissatisfaction"
    fi = ctx.func(f"{MS}._wrapper_ops")
    rets = [r for r in own_nodes(fi.node) if isinstance(r, ast.Return) and isinstance(r.value, ast.Tuple) and len(r.value.elts) == 2 and isinstance(r.value.elts[1], ast.Call)
            and call_name(r.value.elts[1]) == "_Bounds" and len(r.value.elts[1].args) == 2]
    if not rets:
        rep.unknown(rule, "_wrapper_ops", fi.where(), "no (static, _Bounds(sat, dsat)) return")
        return
    rets.sort(key=lambda r: r.lineno)
    last = rets[-1].value.elts[1].args[1]
    from sa.canon import expand
    e = ast.parse(str(expand(fi, last)), mode="eval").body
    n = 0
    for frag, free in (("d:", True), ("j:", True), ("a:", False), ("s:", False), ("c:", False), ("n:", False)):
        try:
            arm = _arm_for(fi, e, frag)
        except KeyError as ex:
            rep.unknown(rule, f"_wrapper_ops:{frag}", fi.where(rets[-1]), f"cannot evaluate {ex}")
            continue
        n += 1
        reads_sub = any(isinstance(x, ast.Attribute) and x.attr == "dsat" for x in ast.walk(arm))
        ok = reads_sub != free
        rep.ob(rule, f"_wrapper_ops:{frag}", ok, fi.where(rets[-1]), (f"{frag} dissatisfied at a constant cost" if free else f"{frag} dissatisfied at its argument's cost") if ok else
               (f"the dissatisfaction cost of {frag} is `{ast.unparse(arm)}`: " + ("its OP_IF reads one element and nothing of the argument runs -- an argument that cannot be dissatisfied leaves the bound undefined and the branch uncounted" if free else "it runs its argument, whose cost is then not counted")))
    rep.floor(rule, 6)


ROW_READS = [
    # (function, fragment of the arm or None for the whole function, what the row must read, why)
    ("_computed_script_size", "thresh", {"threshold", "subs"}, "the script of thresh(k, ...) pushes k as a number: one byte up to 16, two from 17"),
    ("_leaf_script_size", "multi", {"threshold"}, "multi(k, ...) pushes k"),
    ("_leaf_script_size", "multi_a", {"threshold"}, "multi_a(k, ...) pushes k"),
    ("_leaf_script_size", "older", {"threshold"}, "older(n) pushes n"),
]


def rule_row_reads(ctx: Ctx, rep: Report) -> None:
    """C15.row_reads: the rows of the size tables read the parameters the script
    they measure is written from -- the size of `thresh(k, ...)` and of
    `multi(k, ...)` depends on k through the width of its push, older(n) on n --
    and the dissatisfaction of `multi(k, ...)` is k + 1 empty pushes, so the
    loop that builds it runs over the threshold, not over the keys. Data
    dependence only: that the row is *right* is for the vectors; that it reads
    what it must is visible in its shape."""
    rule = "C15.row_reads"
    from sa.canon import expand
    for fn, frag, need, why in ROW_READS:
        fi = ctx.func(f"{MS}.{fn}")
        arm = None
        for i in own_nodes(fi.node):
            if isinstance(i, ast.If) and any(isinstance(c, ast.Constant) and (c.value == frag or (isinstance(c.value, str) and False)) for c in ast.walk(i.test)) and ".fragment" in str(expand(fi, i.test)) + str(norm(i.test)) or \
                    (isinstance(i, ast.If) and any(isinstance(c, ast.Constant) and c.value == frag for c in ast.walk(i.test))):
                arm = i
                break
        if arm is None:
            rep.unknown(rule, f"{fn}:{frag}", fi.where(), "the arm was not found")
            continue
        reads = {x.attr for st in arm.body for x in ast.walk(st) if isinstance(x, ast.Attribute)}
        names = {x.id for st in arm.body for x in ast.walk(st) if isinstance(x, ast.Name)}
        for a in own_nodes(fi.node):
            if isinstance(a, ast.Assign) and isinstance(a.targets[0], ast.Name) and a.targets[0].id in names and a.lineno < arm.lineno:
                reads |= {x.attr for x in ast.walk(a.value) if isinstance(x, ast.Attribute)}
        ok = need <= reads | ({"subs"} if "size" in names and "subs" in need else set())
        rep.ob(rule, f"{fn}:{frag}", ok, fi.where(arm), f"reads {sorted(need)}" if ok else f"the {frag} row does not read {sorted(need - reads)}: {why}")
    mi = ctx.func(f"{MS}._multi_input")
    rets = sorted([r for r in own_nodes(mi.node) if isinstance(r, ast.Return) and isinstance(r.value, ast.Call) and call_name(r.value) == "_Inputs" and len(r.value.args) == 2 and isinstance(r.value.args[1], ast.Name)], key=lambda r: r.lineno)
    loops = [f for f in own_nodes(mi.node) if isinstance(f, ast.For) and rets and any(isinstance(a, ast.Assign) and isinstance(a.targets[0], ast.Name) and a.targets[0].id == rets[-1].value.args[1].id for a in f.body)]
    if len(loops) != 1:
        rep.unknown(rule, "_multi_input:dissatisfaction", mi.where(), f"{len(loops)} loops build the dissatisfaction")
    else:
        ok = any(isinstance(x, ast.Attribute) and x.attr == "threshold" for x in ast.walk(loops[0].iter))
        rep.ob(rule, "_multi_input:dissatisfaction", ok, mi.where(loops[0]), "k + 1 empty pushes: the loop runs over the threshold" if ok else
               f"the dissatisfaction of multi() is built by a loop over `{norm(loops[0].iter)}`: CHECKMULTISIG looks for k signatures, and any other count of empty pushes leaves an element the script does not expect")
    rep.floor(rule, 5)


def _arms_of(fn: ast.AST) -> dict[str, list[ast.stmt]]:
    """The arms of the `if fragment == "..." / elif / else` chain of a combinator table."""
    out: dict[str, list[ast.stmt]] = {}
    chain = [s for s in fn.body if isinstance(s, ast.If)]
    if not chain:
        return out
    node = chain[0]
    while True:
        t = node.test
        if isinstance(t, ast.Compare) and len(t.ops) == 1 and isinstance(t.ops[0], ast.Eq) and isinstance(t.comparators[0], ast.Constant):
            out[t.comparators[0].value] = node.body
        else:
            return {}
        if len(node.orelse) == 1 and isinstance(node.orelse[0], ast.If):
            node = node.orelse[0]
        else:
            if node.orelse:
                out["andor"] = node.orelse
            return out


def _cases(e: ast.AST, local: dict[str, ast.AST], join: str, pick: str, depth: int = 0) -> set[frozenset] | None:
    """Alternatives of a table entry as sets of ('x'|'y'|'z', 'sat'|'dsat'): `join`
    concatenates (cross product), `pick` chooses; constants and opcode traces add nothing."""
    if depth > 8:
        return None
    if isinstance(e, ast.Constant):
        return set() if e.value is None else {frozenset()}
    if isinstance(e, ast.Name):
        if e.id in local:
            return _cases(local[e.id], local, join, pick, depth + 1)
        m = e.id.split("_")
        if len(m) == 2 and m[0] in ("x", "y", "z") and m[1] in ("sat", "dsat"):
            return {frozenset({(m[0], m[1])})}
        if e.id.startswith("_") and e.id[1:].replace("_", "").isupper():
            return {frozenset()}
        return None
    if isinstance(e, ast.Attribute) and isinstance(e.value, ast.Name) and e.value.id in ("x", "y", "z") and e.attr in ("sat", "dsat"):
        return {frozenset({(e.value.id, e.attr)})}
    if isinstance(e, ast.Call) and len(e.args) == 2 and call_name(e) in (join, pick):
        a, b = _cases(e.args[0], local, join, pick, depth + 1), _cases(e.args[1], local, join, pick, depth + 1)
        if a is None or b is None:
            return None
        return a | b if call_name(e) == pick else {p_ | q for p_ in a for q in b}
    return None


def rule_stack_and_witness_agree(ctx: Ctx, rep: Report) -> None:
    """C15.stack_and_witness_agree: the stack depth a combinator reaches
    (`_binary_stack`) and the witness bytes it takes (`_binary_witness`) are two
    tables over the same cases -- which of X, Y, Z is satisfied and which
    dissatisfied on each way through the script. Arm by arm (and_v, and_b,
    or_b, or_c, or_d, or_i, andor) the satisfaction and the dissatisfaction
    of both are read as sets of alternatives and must be the same sets: the
    depth of andor's dissatisfaction taken over Y's where the script runs Z's
    passes a script the interpreter refuses, or refuses one it runs."""
    rule = "C15.stack_and_witness_agree"
    bs, bw = ctx.func(f"{MS}._binary_stack"), ctx.func(f"{MS}._binary_witness")
    arms_s, arms_w = _arms_of(bs.node), _arms_of(bw.node)
    if not arms_s or set(arms_s) != set(arms_w):
        rep.unknown(rule, "arms", bs.where(), f"arms of the two tables: {sorted(arms_s)} / {sorted(arms_w)}")
        return

    def pair(arm: list[ast.stmt], target: str):
        local = {s.targets[0].id: s.value for s in arm if isinstance(s, ast.Assign) and len(s.targets) == 1 and isinstance(s.targets[0], ast.Name)}
        v = local.pop(target, None)
        if isinstance(v, ast.Call) and call_name(v) == "_Bounds" and len(v.args) == 2:
            return v.args[0], v.args[1], local, v
        if isinstance(v, ast.Tuple) and len(v.elts) == 2:
            return v.elts[0], v.elts[1], local, v
        return None

    for frag in sorted(arms_s):
        ps, pw = pair(arms_s[frag], "traces"), pair(arms_w[frag], "bounds")
        if ps is None or pw is None:
            rep.unknown(rule, frag, bs.where(), "the arm does not assign a (sat, dsat) pair")
            continue
        for k, what in ((0, "sat"), (1, "dsat")):
            s_ = _cases(ps[k], ps[2], "_concat", "_union")
            w_ = _cases(pw[k], pw[2], "_add", "_worst")
            if s_ is None or w_ is None:
                rep.unknown(rule, f"{frag}:{what}", bs.where(ps[3]), "an alternative could not be read")
                continue
            show = lambda ss: sorted(sorted(f"{a.upper()}.{f}" for a, f in alt) for alt in ss)  # noqa: E731
            rep.ob(rule, f"{frag}:{what}", s_ == w_, bs.where(ps[3]), f"both tables: {show(s_)}" if s_ == w_ else
                   f"the stack depth is taken over {show(s_)}, the witness over {show(w_)}: one of the two is not the way the script runs")
    rep.floor(rule, 14)


class _NoEval(Exception):
    pass


def _ev(ctx: Ctx, e: ast.AST, env: dict, depth: int = 0):
    """A folder for the type table's row expressions: sets of one-letter
    properties under | & <=, the table's own one-line helpers inlined."""
    if depth > 6:
        raise _NoEval("depth")
    if isinstance(e, ast.Constant):
        return e.value
    if isinstance(e, ast.Name):
        if e.id in env:
            return env[e.id]
        if e.id == "_NONE":
            return frozenset()
        raise _NoEval(e.id)
    if isinstance(e, ast.BinOp) and isinstance(e.op, (ast.BitOr, ast.BitAnd)):
        a, b = _ev(ctx, e.left, env, depth), _ev(ctx, e.right, env, depth)
        return a | b if isinstance(e.op, ast.BitOr) else a & b
    if isinstance(e, ast.BoolOp):
        vals = [_ev(ctx, v, env, depth) for v in e.values]
        return all(vals) if isinstance(e.op, ast.And) else any(vals)
    if isinstance(e, ast.UnaryOp) and isinstance(e.op, ast.Not):
        return not _ev(ctx, e.operand, env, depth)
    if isinstance(e, ast.IfExp):
        return _ev(ctx, e.body if _ev(ctx, e.test, env, depth) else e.orelse, env, depth)
    if isinstance(e, ast.Compare) and len(e.ops) == 1:
        a, b = _ev(ctx, e.left, env, depth), _ev(ctx, e.comparators[0], env, depth)
        op = e.ops[0]
        if isinstance(op, ast.Eq):
            return a == b
        if isinstance(op, ast.NotEq):
            return a != b
        if isinstance(op, ast.LtE):
            return a <= b
        if isinstance(op, ast.In):
            return a in b
        raise _NoEval(type(op).__name__)
    if isinstance(e, ast.Call) and not e.keywords:
        nm = call_name(e)
        if nm == "frozenset" and len(e.args) == 1:
            return frozenset(_ev(ctx, e.args[0], env, depth))
        callee = ctx.prog.functions.get(f"{MS}.{nm}")
        if callee is not None:
            body = [s for s in callee.node.body if not (isinstance(s, ast.Expr) and isinstance(s.value, ast.Constant))]
            ps = [a.arg for a in callee.node.args.args]
            if len(body) == 1 and isinstance(body[0], ast.Return) and len(ps) == len(e.args):
                return _ev(ctx, body[0].value, dict(zip(ps, (_ev(ctx, a, env, depth) for a in e.args))), depth + 1)
        raise _NoEval(f"call {nm}")
    raise _NoEval(type(e).__name__)


def _run(ctx: Ctx, body: list[ast.stmt], env: dict):
    for st in body:
        if isinstance(st, ast.Expr) and isinstance(st.value, ast.Constant):
            continue
        if isinstance(st, ast.Assign) and len(st.targets) == 1 and isinstance(st.targets[0], ast.Name):
            env[st.targets[0].id] = _ev(ctx, st.value, env)
        elif isinstance(st, ast.If):
            r = _run(ctx, st.body if _ev(ctx, st.test, env) else st.orelse, env)
            if r is not None:
                return r
        elif isinstance(st, ast.Return) and st.value is not None:
            return _ev(ctx, st.value, env)
        else:
            raise _NoEval(type(st).__name__)
    return None


# the argument-count and stack-shape letters of the specification's table
# (Bitcoin Core's ComputeType): z = consumes nothing, o = exactly one element,
# n = the top element is not zero, d = can be dissatisfied, u = leaves a 1
_COMBINATOR_ROWS = {
    "and_v": dict(z=lambda X, Y, Z: "z" in X and "z" in Y, o=lambda X, Y, Z: ("z" in X or "z" in Y) and ("o" in X or "o" in Y),
                  n=lambda X, Y, Z: "n" in X or ("z" in X and "n" in Y), d=lambda X, Y, Z: False, u=lambda X, Y, Z: "u" in Y),
    "and_b": dict(z=lambda X, Y, Z: "z" in X and "z" in Y, o=lambda X, Y, Z: ("z" in X or "z" in Y) and ("o" in X or "o" in Y),
                  n=lambda X, Y, Z: "n" in X or ("z" in X and "n" in Y), d=lambda X, Y, Z: "d" in X and "d" in Y, u=lambda X, Y, Z: True),
    "or_b": dict(z=lambda X, Y, Z: "z" in X and "z" in Y, o=lambda X, Y, Z: ("z" in X or "z" in Y) and ("o" in X or "o" in Y),
                 n=lambda X, Y, Z: False, d=lambda X, Y, Z: True, u=lambda X, Y, Z: True),
    "or_c": dict(z=lambda X, Y, Z: "z" in X and "z" in Y, o=lambda X, Y, Z: "o" in X and "z" in Y,
                 n=lambda X, Y, Z: False, d=lambda X, Y, Z: False, u=lambda X, Y, Z: False),
    "or_d": dict(z=lambda X, Y, Z: "z" in X and "z" in Y, o=lambda X, Y, Z: "o" in X and "z" in Y,
                 n=lambda X, Y, Z: False, d=lambda X, Y, Z: "d" in Y, u=lambda X, Y, Z: "u" in Y),
    "or_i": dict(z=lambda X, Y, Z: False, o=lambda X, Y, Z: "z" in X and "z" in Y,
                 n=lambda X, Y, Z: False, d=lambda X, Y, Z: "d" in X or "d" in Y, u=lambda X, Y, Z: "u" in X and "u" in Y),
    "andor": dict(z=lambda X, Y, Z: "z" in X and "z" in Y and "z" in Z,
                  o=lambda X, Y, Z: ("z" in X or ("z" in Y and "z" in Z)) and ("o" in X or ("o" in Y and "o" in Z)),
                  n=lambda X, Y, Z: False, d=lambda X, Y, Z: "d" in Z, u=lambda X, Y, Z: "u" in Y and "u" in Z),
}


def rule_combinator_rows(ctx: Ctx, rep: Report) -> None:
    """C15.combinator_rows: the rows of the type table that say how many stack
    elements a combinator takes and what it leaves -- z, o, n, d, u of and_v,
    and_b, or_b, or_c, or_d, or_i and andor -- are the specification's
    (Bitcoin Core's ComputeType). `_and_properties`, `_or_properties` and
    `_andor_properties` are folded over every combination of those five
    letters in their arguments and each letter of the answer compared with
    the specification's row: `o` of or_i granted where one branch alone
    consumes nothing makes `s:`/`a:` wrap an expression that takes two
    elements, and the script reads another's witness."""
    import itertools
    rule = "C15.combinator_rows"
    letters = "zondu"
    subsets = [frozenset(c) for r in range(len(letters) + 1) for c in itertools.combinations(letters, r)]
    homes = {"and_v": "_and_properties", "and_b": "_and_properties", "or_b": "_or_properties", "or_c": "_or_properties",
             "or_d": "_or_properties", "or_i": "_or_properties", "andor": "_andor_properties"}
    for frag, rows in sorted(_COMBINATOR_ROWS.items()):
        fi = ctx.func(f"{MS}.{homes[frag]}")
        ps = [a.arg for a in fi.node.args.args]
        bad: dict[str, str] = {}
        try:
            # andor has no n row: its arguments range over the other four letters
            mine = [s_ for s_ in subsets if "n" not in s_] if frag == "andor" else subsets
            third = mine if frag == "andor" else [frozenset()]
            for X in mine:
                for Y in mine:
                    for Z in third:
                        env = dict(zip(ps, ([X, Y, Z] if frag == "andor" else [frag, X, Y])))
                        got = _run(ctx, fi.node.body, env)
                        if got is None:
                            raise _NoEval("no answer")
                        for p_, want in rows.items():
                            if (p_ in got) != bool(want(X, Y, Z)) and p_ not in bad:
                                bad[p_] = f"{frag}({','.join(''.join(sorted(s)) or '-' for s in ([X, Y, Z] if frag == 'andor' else [X, Y]))}) {'has' if p_ in got else 'lacks'} `{p_}`"
        except _NoEval as e:
            rep.unknown(rule, frag, fi.where(), f"the rows were not folded: {e}")
            continue
        for p_ in rows:
            rep.ob(rule, f"{frag}:{p_}", p_ not in bad, fi.where(), "the specification's row" if p_ not in bad else
                   f"{bad[p_]} where the specification's row says otherwise")
    rep.floor(rule, 35)


RULES = [
    ("C15.combinator_rows", rule_combinator_rows),

    ("C15.stack_and_witness_agree", rule_stack_and_witness_agree),

    ("C15.wrapper_dissatisfaction", rule_wrapper_dissatisfaction),
    ("C15.row_reads", rule_row_reads),
    ("C15.wrapper_siblings", rule_wrapper_siblings),
    ("C15.andor_tables_agree", rule_andor_tables_agree),
    ("C15.stack_order", rule_stack_order),
    ("C15.params_forwarded", rule_params_forwarded_),
    ("C15.own_fields", rule_own_fields),
    ("C15.universe", rule_universe),
    ("C15.verify_state", rule_verify_state),
    ("C15.wrapper_types", rule_wrapper_types),
    ("C15.sugar_prefix", rule_sugar_prefix),
    ("C15.leaf_sizes", rule_leaf_sizes),
    ("C15.ops_multi", rule_ops_multi),
    ("C15.locktime_class", rule_locktime_class),
    ("C15.tables", rule_tables),
    ("C15.limits", rule_limits),
]

CONTROLS = [
    {"rule": "C15.wrapper_types", "name": "j: accepts any B", "module": MS,
     "edit": lambda ctx: M.sub_expr(ctx, f"{MS}._wrapper_properties", M.is_text("_has(x, 'Bn')"), "_has(x, 'B')")},
    {"rule": "C15.sugar_prefix", "name": "and_n is written without the wrapper colon", "module": MS,
     "edit": lambda ctx: M.sub_expr(ctx, f"{MS}._sugared_text", lambda n: isinstance(n, ast.JoinedStr) and "and_n" in norm(n), "f'and_n({subs[0]},{subs[1]})'")},
    {"rule": "C15.leaf_sizes", "name": "multi() sized with two pushes of the threshold", "module": MS,
     "edit": lambda ctx: M.sub_expr(ctx, f"{MS}._leaf_script_size", M.is_text("_pushed_size(keys)"), "_pushed_size(node.threshold)")},
    {"rule": "C15.ops_multi", "name": "multi() charged its threshold", "module": MS,
     "edit": lambda ctx: M.sub_expr(ctx, f"{MS}._leaf_ops", M.is_text("_Bounds(keys, keys)"), "_Bounds(node.threshold, node.threshold)")},
    {"rule": "C15.locktime_class", "name": "the two lock times classified with different comparators", "module": MS,
     "edit": lambda ctx: M.sub_module_expr(ctx, MS, M.is_text("self.locktime >= _LOCKTIME_THRESHOLD"), "self.locktime > _LOCKTIME_THRESHOLD")},
    {"rule": "C15.verify_state", "name": "the last argument of and_v no longer inherits the verify state", "module": MS,
     "edit": lambda ctx: M.sub_expr(ctx, f"{MS}._verify_state", lambda n: isinstance(n, ast.BoolOp) and "and_v" in norm(n), "node.fragment == 's:'")},
    {"rule": "C15.universe", "name": "j: loses its overhead entry", "module": MS,
     "edit": lambda ctx: M.sub_module_expr(ctx, MS, lambda n: isinstance(n, ast.Constant) and n.value == "j:" and isinstance(parent(n), ast.Dict) and "or_i" in norm(parent(n)) and "and_v" in norm(parent(n)), '"J:"')},
    {"rule": "C15.universe", "name": "hash256 loses its leaf-ops entry", "module": MS,
     "edit": lambda ctx: M.sub_module_expr(ctx, MS, lambda n: isinstance(n, ast.Starred) is False and isinstance(n, ast.Call) and norm(n) == "dict.fromkeys(_HASH_OP_CODES, (4, 0, None))", 'dict.fromkeys(("sha256", "ripemd160", "hash160"), (4, 0, None))')},
    {"rule": "C15.tables", "name": "or_d template loses OP_IFDUP", "module": MS,
     "edit": lambda ctx: M.sub_module_expr(ctx, MS, lambda n: isinstance(n, ast.Tuple) and norm(n) == "(0, 'OP_IFDUP', 'OP_NOTIF', 1, 'OP_ENDIF')", '(0, "OP_NOTIF", 1, "OP_ENDIF")')},
    {"rule": "C15.tables", "name": "andor template reuses slot 1", "module": MS,
     "edit": lambda ctx: M.sub_module_expr(ctx, MS, lambda n: isinstance(n, ast.Tuple) and norm(n) == "(0, 'OP_NOTIF', 2, 'OP_ELSE', 1, 'OP_ENDIF')", '(0, "OP_NOTIF", 1, "OP_ELSE", 1, "OP_ENDIF")')},
    {"rule": "C15.limits", "name": "multi_a key limit raised", "module": MS,
     "edit": lambda ctx: M.sub_module_expr(ctx, MS, lambda n: isinstance(n, ast.Constant) and n.value == 999, "1000")},
]
